#!/usr/bin/env python3
"""Evaluate behaviour-preserving refactors from a sub-agent: every check must stay silent.
usage: benign_eval.py <agent-worktree> <set-id>        e.g. benign_eval.py /tmp/wt/B1 B1
  1. confirm each BENIGN/pN.diff in a fresh scratch worktree: applies, builds, the existing suite passes;
  2. apply it to /repo, run every registered quick check, undo it; any non-zero exit is a FALSE ALARM to triage;
  3. store patch + verdicts under /verif/benign/<set-id>/."""
import json, os, shutil, subprocess, sys, glob
wt, sid = sys.argv[1], sys.argv[2]
PHASE = os.environ.get("PHASE", "all")   # confirm | checks | all  (confirm can run in parallel for several sets; checks touch /repo and must be serial)
env = dict(os.environ, GOPROXY="off", GOSUMDB="off", GOTOOLCHAIN="local")
env.pop("GOFLAGS", None); env.pop("GOWORK", None)
def sh(cmd, cwd=None, check=False):
    r = subprocess.run(cmd, shell=True, cwd=cwd, env=env, capture_output=True, text=True)
    if check and r.returncode != 0:
        print(r.stdout[-2000:], r.stderr[-2000:]); sys.exit("FAILED: " + cmd)
    return r
bd = os.path.join(wt, "BENIGN")
readme = {}
try:
    for e in json.load(open(os.path.join(bd, "README.json"))):
        readme[e["patch"]] = e
except Exception as ex:
    print("no README.json:", ex)
out = f"/verif/benign/{sid}"; os.makedirs(out, exist_ok=True)
man = json.load(open("/verif/MANIFEST.json"))
results = []
for pf in sorted(glob.glob(os.path.join(bd, "p*.diff"))):
    name = os.path.basename(pf)
    cf = f"/tmp/bn_{sid}"
    cj = os.path.join(out, name + ".confirm.json")
    if PHASE == "checks" and os.path.exists(cj):
        cd = json.load(open(cj)); suite_ok, touched = cd["suite_ok"], cd["touched"]
        if not cd.get("applies", True):
            results.append({"patch": name, "applies": False}); continue
    else:
      sh(f"git -C /repo worktree remove --force {cf}")
      sh(f"git -C /repo worktree add -q --detach {cf} HEAD", check=True)
      try:
        ap = sh(f"git apply {pf}", cwd=cf)
        if ap.returncode != 0:
            json.dump({"applies": False, "suite_ok": False, "touched": []}, open(cj, "w"))
            results.append({"patch": name, "applies": False}); print(sid, name, "does not apply"); continue
        touched = sh("git diff --name-only", cwd=cf).stdout.split()
        bad = [t for t in touched if t.endswith("_test.go") or t.endswith(".pb.go")]
        r = sh("go build ./... && go test -vet=off -count=1 ./x/... ./contrib/...", cwd=cf)
        suite_ok = r.returncode == 0 and not bad
        json.dump({"applies": True, "suite_ok": suite_ok, "touched": touched}, open(cj, "w"))
      finally:
        sh(f"git -C /repo worktree remove --force {cf}")
    shutil.copy(pf, os.path.join(out, name))
    if PHASE == "confirm":
        print(sid, name, "suite_ok" if suite_ok else "SUITE-FAILS"); continue
    alarms = {}
    if suite_ok:
        assert sh("git -C /repo status --porcelain").stdout.strip() == "", "/repo not clean"
        sh(f"git -C /repo apply {pf}", check=True)
        try:
            for c in man["checks"]:
                r = sh(c["quick_cmd"], cwd="/verif")
                if r.returncode != 0:
                    alarms[c["property_id"]] = [l[:300] for l in r.stdout.splitlines() if l.startswith("VIOLATED ") or l.startswith("UNDECIDED ")]
        finally:
            sh("git -C /repo checkout -- . && git -C /repo clean -fdq x contrib api", check=True)
        assert sh("git -C /repo status --porcelain").stdout.strip() == "", "/repo not restored"
    shutil.copy(pf, os.path.join(out, name))
    res = {"patch": name, "applies": True, "suite_passes_with_change": suite_ok, "files": touched, "what": readme.get(name, {}).get("what"),
           "why_equivalent": readme.get(name, {}).get("why_equivalent"), "alarms": alarms, "silent": suite_ok and not alarms}
    results.append(res)
    print(sid, name, "suite_ok" if suite_ok else "SUITE-FAILS", "SILENT" if not alarms else "ALARM " + json.dumps(alarms)[:600])
if PHASE != "confirm":
    json.dump(results, open(os.path.join(out, "results.json"), "w"), indent=1)
    for f in glob.glob(os.path.join(out, "*.confirm.json")): os.remove(f)
sh("git -C /verif checkout -- evidence 2>/dev/null; rm -rf /verif/evidence/violations")
