#!/usr/bin/env python3
"""Confirm a sub-agent's seeded change and record which checks catch it.
usage: seed_eval.py <seed-id> <agent-worktree> [<property>]
  1. confirms in a FRESH scratch worktree of /repo: patch applies; existing suite passes with it;
     the demonstration fails with it and passes without it;
  2. copies patch.diff, the demonstration and meta.json to /verif/seeded/<seed-id>/;
  3. applies the patch to /repo, runs every registered quick check, undoes the patch, and
     records the verdicts in meta.json ("detected_by")."""
import json, os, shutil, subprocess, sys, glob

sid, wt = sys.argv[1], sys.argv[2]
prop = sys.argv[3] if len(sys.argv) > 3 else sid[:3]
env = dict(os.environ, GOPROXY="off", GOSUMDB="off", GOTOOLCHAIN="local")
env.pop("GOFLAGS", None); env.pop("GOWORK", None)
def sh(cmd, cwd=None, check=False):
    r = subprocess.run(cmd, shell=True, cwd=cwd, env=env, capture_output=True, text=True)
    if check and r.returncode != 0:
        print(r.stdout[-2000:], r.stderr[-2000:]); sys.exit("FAILED: " + cmd)
    return r

sd = os.path.join(wt, "SEEDED")
meta = json.load(open(os.path.join(sd, "meta.json")))
demo_rel = meta["demo_test"]
demo_src = os.path.join(sd, os.path.basename(demo_rel))
if not os.path.exists(demo_src):
    demo_src = os.path.join(wt, demo_rel)
pkgdir = os.path.dirname(demo_rel)
cf = f"/tmp/cf_{sid}"
sh(f"git -C /repo worktree remove --force {cf}")
sh(f"git -C /repo worktree add -q --detach {cf} HEAD", check=True)
try:
    sh(f"git apply {sd}/patch.diff", cwd=cf, check=True)
    r = sh("go build ./... && go test -vet=off -count=1 ./x/... ./contrib/...", cwd=cf)
    suite_ok = r.returncode == 0
    if not suite_ok: print(r.stdout[-1500:])
    shutil.copy(demo_src, os.path.join(cf, pkgdir, os.path.basename(demo_rel)))
    # find test function names in the demo
    import re
    names = re.findall(r"^func (Test\w+)\(", open(demo_src).read(), re.M)
    run = "|".join(names)
    r1 = sh(f"go test -vet=off -count=1 -run '^({run})$' ./{pkgdir}/", cwd=cf)
    demo_fails = r1.returncode != 0 and "FAIL" in r1.stdout and "[build failed]" not in r1.stdout
    sh(f"git apply -R {sd}/patch.diff", cwd=cf, check=True)
    r2 = sh(f"go test -vet=off -count=1 -run '^({run})$' ./{pkgdir}/", cwd=cf)
    demo_passes = r2.returncode == 0
finally:
    sh(f"git -C /repo worktree remove --force {cf}")
print(f"{sid}: suite_passes_with_change={suite_ok} demo_fails_with_change={demo_fails} demo_passes_without_change={demo_passes}")
confirmed = suite_ok and demo_fails and demo_passes
out = f"/verif/seeded/{sid}"
os.makedirs(out, exist_ok=True)
shutil.copy(os.path.join(sd, "patch.diff"), out)
shutil.copy(demo_src, out)
detected = {}
if confirmed:
    assert sh("git -C /repo status --porcelain").stdout.strip() == "", "/repo not clean"
    sh(f"git -C /repo apply {sd}/patch.diff", check=True)
    try:
        man = json.load(open("/verif/MANIFEST.json"))
        for c in man["checks"]:
            r = sh(c["quick_cmd"], cwd="/verif")
            rules = sorted(set(l.split()[1] for l in r.stdout.splitlines() if l.startswith("VIOLATED ") or l.startswith("UNDECIDED ")))
            if r.returncode != 0:
                detected[c["property_id"]] = rules
    finally:
        sh("git -C /repo checkout -- . && git -C /repo clean -fdq x contrib api", check=True)
    assert sh("git -C /repo status --porcelain").stdout.strip() == "", "/repo not restored"
    # evidence files were rewritten by the runs on the mutated tree: restore from git
    sh("git -C /verif checkout -- evidence 2>/dev/null; rm -rf /verif/evidence/violations")
meta.update({"property": prop, "confirmed_by_me": {"suite_passes_with_change": suite_ok, "demo_fails_with_change": demo_fails, "demo_passes_without_change": demo_passes,
   "how": "fresh scratch worktree of /repo HEAD: git apply patch.diff; go test ./x/... ./contrib/...; demo test run with and without the patch"},
   "detected_by": detected, "caught": prop in detected, "caught_by_any": bool(detected)})
json.dump(meta, open(os.path.join(out, "meta.json"), "w"), indent=1)
print("detected_by:", json.dumps(detected))
