#!/usr/bin/env python3
"""Pinned witness mutants and benign variants (DESIGN.md section 11). Each edit is (relpath, old, new);
old must match exactly once in the file. Run: python3 witness/gen.py  -> writes witness/<prop>.json"""
import json, os
HERE=os.path.dirname(os.path.abspath(__file__))
W={}
def w(prop, name, expect, *edits, note=''):
    W.setdefault(prop, []).append({'name':name,'expect':expect,'edits':[':::'.join(e) for e in edits],'note':note})
HM='x/ophost/keeper/msg_server.go'
CM='x/opchild/keeper/msg_server.go'

w('C12', 'UpdateBatchInfo guarded by challenger instead of proposer', 'C12.R3',
  ('x/ophost/keeper/msg_server.go',
   '\t// gov or current proposer can update batch info.\n\tif ms.authority != req.Authority && config.Proposer != req.Authority {',
   '\t// gov or current proposer can update batch info.\n\tif ms.authority != req.Authority && config.Challenger != req.Authority {'))
w('C12', 'DeleteOutput && -> || (all three roles required at once)', 'C12.R3',
  ('x/ophost/keeper/msg_server.go',
   'if ms.authority != challenger && bridgeConfig.Proposer != challenger && bridgeConfig.Challenger != challenger {',
   'if ms.authority != challenger || bridgeConfig.Proposer != challenger || bridgeConfig.Challenger != challenger {'))
w('C12', 'DeleteOutput drops the challenger role', 'C12.R3',
  ('x/ophost/keeper/msg_server.go',
   'if ms.authority != challenger && bridgeConfig.Proposer != challenger && bridgeConfig.Challenger != challenger {',
   'if ms.authority != challenger && bridgeConfig.Proposer != challenger {'))
w('C12', 'ProposeOutput compares with a config loaded for bridge 1', 'C12.R3',
  ('x/ophost/keeper/msg_server.go',
   '\tbridgeConfig, err := ms.GetBridgeConfig(ctx, bridgeId)\n\tif err != nil {\n\t\treturn nil, err\n\t}\n\n\t// permission check\n\tif proposer',
   '\tbridgeConfig, err := ms.GetBridgeConfig(ctx, 1)\n\tif err != nil {\n\t\treturn nil, err\n\t}\n\n\t// permission check\n\tif proposer'))
w('C12', 'ProposeOutput permission check removed', 'C12.R3',
  ('x/ophost/keeper/msg_server.go',
   '\tif proposer != bridgeConfig.Proposer {\n\t\treturn nil, errors.ErrUnauthorized.Wrap("invalid proposer")',
   '\tif false && proposer != bridgeConfig.Proposer {\n\t\treturn nil, errors.ErrUnauthorized.Wrap("invalid proposer")'))
w('C12', 'UpdateProposer compares after storing the new proposer (stale/fresh slip)', 'C12.R3',
  ('x/ophost/keeper/msg_server.go',
   '\tif ms.authority != req.Authority && config.Proposer != req.Authority {\n\t\treturn nil, govtypes.ErrInvalidSigner.Wrapf("invalid authority; expected %s or %s, got %s", ms.authority, config.Proposer, req.Authority)\n\t}\n\n\tconfig.Proposer = req.NewProposer',
   '\tconfig.Proposer = req.NewProposer\n\tif ms.authority != req.Authority && config.Proposer != req.Authority {\n\t\treturn nil, govtypes.ErrInvalidSigner.Wrapf("invalid authority; expected %s or %s, got %s", ms.authority, config.Proposer, req.Authority)\n\t}\n'))
w('C12', 'opchild UpdateParams authority check after SetParams', 'C12.R3',
  ('x/opchild/keeper/msg_server.go',
   '\tif ms.authority != req.Authority {\n\t\treturn nil, errorsmod.Wrapf(govtypes.ErrInvalidSigner, "invalid authority; expected %s, got %s", ms.authority, req.Authority)\n\t}\n\n\tif err := ms.SetParams(ctx, *req.Params); err != nil {\n\t\treturn nil, err\n\t}',
   '\tif err := ms.SetParams(ctx, *req.Params); err != nil {\n\t\treturn nil, err\n\t}\n\n\tif ms.authority != req.Authority {\n\t\treturn nil, errorsmod.Wrapf(govtypes.ErrInvalidSigner, "invalid authority; expected %s, got %s", ms.authority, req.Authority)\n\t}'))
w('C12', 'executor check: isIncluded starts true', 'C12.R3',
  ('x/opchild/keeper/msg_server.go',
   '\tisIncluded := false\n',
   '\tisIncluded := true\n'))
w('C12', 'executor check compares executors with the module authority instead of the sender', 'C12.R3',
  ('x/opchild/keeper/msg_server.go',
   'senderAddr, err := ms.authKeeper.AddressCodec().StringToBytes(sender)\n\tif err != nil {\n\t\treturn err\n\t}\n\n\tbridgeExecutors',
   'senderAddr, err := ms.authKeeper.AddressCodec().StringToBytes(ms.authority)\n\tif err != nil {\n\t\treturn err\n\t}\n\n\tbridgeExecutors'))
w('C12', 'admin check compares with the first bridge executor', 'C12.R3',
  ('x/opchild/keeper/msg_server.go',
   '\tif params.Admin != sender {',
   '\tif len(params.BridgeExecutors) == 0 || params.BridgeExecutors[0] != sender {'))
w('C12', 'UpdateOracle checks the executor against req.Data-derived string', 'C12.R3',
  ('x/opchild/keeper/msg_server.go',
   '\t// permission check\n\tif err := ms.checkBridgeExecutorPermission(ctx, req.Sender); err != nil {\n\t\treturn nil, err\n\t}\n\n\t// config check',
   '\t// permission check\n\tif err := ms.checkBridgeExecutorPermission(ctx, string(req.Data)); err != nil {\n\t\treturn nil, err\n\t}\n\n\t// config check'))
w('C12', 'ExecuteMessages: inner-message signer check dropped', 'C12.R5',
  ('x/opchild/keeper/msg_server.go',
   '\t\tif !bytes.Equal(signers[0], authority) {',
   '\t\tif false && !bytes.Equal(signers[0], authority) {'))
w('C12', 'ExecuteMessages: allows two signers', 'C12.R5',
  ('x/opchild/keeper/msg_server.go',
   '\t\tif len(signers) != 1 {',
   '\t\tif len(signers) < 1 {'))
w('C12', 'ExecuteMessages: handlers run on the real context', 'C12.R5',
  ('x/opchild/keeper/msg_server.go',
   'res, err = handler(cacheCtx, msg)',
   '_ = cacheCtx\n\t\tres, err = handler(sdkCtx, msg)'))
w('C12', 'ExecuteMessages: cache written inside the loop', 'C12.R5',
  ('x/opchild/keeper/msg_server.go',
   '\t\tevents = append(events, res.GetEvents()...)\n\t}\n\n\twriteCache()',
   '\t\tevents = append(events, res.GetEvents()...)\n\t\twriteCache()\n\t}\n'))
w('C12', 'SetBridgeInfo stops comparing L1ChainId', 'C12.R6',
  ('x/opchild/keeper/msg_server.go',
   '\t\tif info.L1ChainId != req.BridgeInfo.L1ChainId {',
   '\t\tif false && info.L1ChainId != req.BridgeInfo.L1ChainId {'))
w('C12', 'SetBridgeInfo: client id may be replaced when set (&& -> ||-style slip)', 'C12.R6',
  ('x/opchild/keeper/msg_server.go',
   '\t\tif info.L1ClientId != "" && info.L1ClientId != req.BridgeInfo.L1ClientId {',
   '\t\tif info.L1ClientId == "" && info.L1ClientId != req.BridgeInfo.L1ClientId {'))
w('C12', 'UpdateChallenger stores the new challenger into Proposer', 'C12.R4',
  ('x/ophost/keeper/msg_server.go',
   '\tconfig.Challenger = req.Challenger\n',
   '\tconfig.Challenger = req.Challenger\n\tconfig.Proposer = req.Challenger\n'))
w('C12', 'UpdateMetadata also rewrites FinalizationPeriod', 'C12.R4',
  ('x/ophost/keeper/msg_server.go',
   '\tconfig.Metadata = req.Metadata\n',
   '\tconfig.Metadata = req.Metadata\n\tconfig.FinalizationPeriod = config.FinalizationPeriod / 2\n'))
w('C12', 'new handler without policy (interface grows)', 'C12.R1',
  ('x/ophost/types/tx.pb.go',
   '\tUpdateParams(context.Context, *MsgUpdateParams) (*MsgUpdateParamsResponse, error)\n}\n\n// UnimplementedMsgServer',
   '\tUpdateParams(context.Context, *MsgUpdateParams) (*MsgUpdateParamsResponse, error)\n\tForceWithdraw(context.Context, *MsgUpdateParams) (*MsgUpdateParamsResponse, error)\n}\n\n// UnimplementedMsgServer'),
  ('x/ophost/keeper/msg_server.go',
   '// UpdateParams implements updating the parameters\n',
   'func (ms MsgServer) ForceWithdraw(ctx context.Context, req *types.MsgUpdateParams) (*types.MsgUpdateParamsResponse, error) {\n\treturn &types.MsgUpdateParamsResponse{}, ms.SetParams(ctx, *req.Params)\n}\n\n// UpdateParams implements updating the parameters\n'),
  ('x/ophost/types/tx.pb.go',
   'func (*UnimplementedMsgServer) UpdateParams(ctx context.Context, req *MsgUpdateParams) (*MsgUpdateParamsResponse, error) {',
   'func (*UnimplementedMsgServer) ForceWithdraw(ctx context.Context, req *MsgUpdateParams) (*MsgUpdateParamsResponse, error) {\n\treturn nil, nil\n}\nfunc (*UnimplementedMsgServer) UpdateParams(ctx context.Context, req *MsgUpdateParams) (*MsgUpdateParamsResponse, error) {'))
w('C12', 'BENIGN: DeleteOutput role chain as switch', '',
  ('x/ophost/keeper/msg_server.go',
   '\tif ms.authority != challenger && bridgeConfig.Proposer != challenger && bridgeConfig.Challenger != challenger {\n\t\treturn nil, errors.ErrUnauthorized.Wrapf("invalid challenger; expected %s, %s or %s, got %s", ms.authority, bridgeConfig.Proposer, bridgeConfig.Challenger, challenger)\n\t}',
   '\tswitch challenger {\n\tcase ms.authority, bridgeConfig.Proposer, bridgeConfig.Challenger:\n\tdefault:\n\t\treturn nil, errors.ErrUnauthorized.Wrapf("invalid challenger; expected %s, %s or %s, got %s", ms.authority, bridgeConfig.Proposer, bridgeConfig.Challenger, challenger)\n\t}'))
w('C12', 'BENIGN: authority check extracted into a helper returning error', '',
  ('x/ophost/keeper/msg_server.go',
   '\tif ms.authority != req.Authority {\n\t\treturn nil, govtypes.ErrInvalidSigner.Wrapf("invalid authority; expected %s, got %s", ms.authority, req.Authority)\n\t}\n\n\tif err := ms.SetParams(ctx, *req.Params); err != nil {',
   '\tif err := ms.onlyAuthority(req.Authority); err != nil {\n\t\treturn nil, err\n\t}\n\n\tif err := ms.SetParams(ctx, *req.Params); err != nil {'),
  ('x/ophost/keeper/msg_server.go',
   '// UpdateParams implements updating the parameters\n',
   'func (ms MsgServer) onlyAuthority(signer string) error {\n\tif ms.authority != signer {\n\t\treturn govtypes.ErrInvalidSigner.Wrapf("invalid authority; expected %s, got %s", ms.authority, signer)\n\t}\n\treturn nil\n}\n\n// UpdateParams implements updating the parameters\n'))
w('C12', 'BENIGN: executor helper inlined into UpdateOracle and locals renamed', '',
  ('x/opchild/keeper/msg_server.go',
   '\t// permission check\n\tif err := ms.checkBridgeExecutorPermission(ctx, req.Sender); err != nil {\n\t\treturn nil, err\n\t}\n\n\t// config check',
   '\tsa, err := ms.authKeeper.AddressCodec().StringToBytes(req.Sender)\n\tif err != nil {\n\t\treturn nil, err\n\t}\n\texecs, err := ms.BridgeExecutors(ctx)\n\tif err != nil {\n\t\treturn nil, err\n\t}\n\tallowed := false\n\tfor i := 0; i < len(execs); i++ {\n\t\tif bytes.Equal(execs[i], sa) {\n\t\t\tallowed = true\n\t\t\tbreak\n\t\t}\n\t}\n\tif !allowed {\n\t\treturn nil, sdkerrors.ErrUnauthorized\n\t}\n\n\t// config check'))
w('C12', 'BENIGN: handler parameter renamed req -> msg in ProposeOutput + logger call', '',
  ('x/ophost/keeper/msg_server.go',
   'func (ms MsgServer) ProposeOutput(ctx context.Context, req *types.MsgProposeOutput) (*types.MsgProposeOutputResponse, error) {\n\tsdkCtx := sdk.UnwrapSDKContext(ctx)\n\tif err := req.Validate(ms.authKeeper.AddressCodec()); err != nil {\n\t\treturn nil, err\n\t}\n\n\tproposer := req.Proposer\n\tbridgeId := req.BridgeId\n\tl2BlockNumber := req.L2BlockNumber\n\toutputRoot := req.OutputRoot',
   'func (ms MsgServer) ProposeOutput(ctx context.Context, msg *types.MsgProposeOutput) (*types.MsgProposeOutputResponse, error) {\n\treq := msg\n\tsdkCtx := sdk.UnwrapSDKContext(ctx)\n\tif err := msg.Validate(ms.authKeeper.AddressCodec()); err != nil {\n\t\treturn nil, err\n\t}\n\tms.Logger(ctx).Info("propose")\n\n\tproposer := msg.Proposer\n\tbridgeId := msg.BridgeId\n\tl2BlockNumber := msg.L2BlockNumber\n\toutputRoot := msg.OutputRoot'))

# ---- generated section ends; hand-written witnesses follow ----

OUT='x/ophost/keeper/output.go'
HT='x/ophost/types/tx.go'
OT='x/ophost/types/output.go'
BC='x/ophost/types/bridge_config.go'
WD='x/ophost/keeper/withdrawal.go'

# ---------------- C02
w('C02', 'already-claimed branch deleted', 'C02.R1',
  (HM, '\t} else if ok {\n\t\treturn nil, types.ErrWithdrawalAlreadyFinalized\n\t}', '\t} else if false && ok {\n\t\treturn nil, types.ErrWithdrawalAlreadyFinalized\n\t}'))
w('C02', 'claim recorded after the payout', 'C02.R1',
  (HM, '\tif err := ms.RecordProvenWithdrawal(ctx, bridgeId, withdrawalHash); err != nil {\n\t\treturn nil, err\n\t}\n\n\t// transfer asset to a user from the bridge account\n\tbridgeAddr := types.BridgeAddress(bridgeId)\n\tif err := ms.bankKeeper.SendCoins(ctx, bridgeAddr, receiver, sdk.NewCoins(sdk.NewCoin(denom, amount))); err != nil {\n\t\treturn nil, err\n\t}',
   '\t// transfer asset to a user from the bridge account\n\tbridgeAddr := types.BridgeAddress(bridgeId)\n\tif err := ms.bankKeeper.SendCoins(ctx, bridgeAddr, receiver, sdk.NewCoins(sdk.NewCoin(denom, amount))); err != nil {\n\t\treturn nil, err\n\t}\n\tif err := ms.RecordProvenWithdrawal(ctx, bridgeId, withdrawalHash); err != nil {\n\t\treturn nil, err\n\t}'))
w('C02', 'claims keyed by output index (hash mixes the index in)', 'C02.R2',
  (HM, 'withdrawalHash := types.GenerateWithdrawalHash(bridgeId, l2Sequence, req.From, req.To, denom, amount.Uint64())',
       'withdrawalHash := types.GenerateWithdrawalHash(bridgeId, l2Sequence+outputIndex, req.From, req.To, denom, amount.Uint64())'))
w('C02', 'recorded hash differs from checked hash', 'C02.R1',
  (HM, 'if err := ms.RecordProvenWithdrawal(ctx, bridgeId, withdrawalHash); err != nil {', 'if err := ms.RecordProvenWithdrawal(ctx, bridgeId, rootHash); err != nil {'))
w('C02', 'bridge id dropped from the claim key (Join(0, hash)) in both helpers', 'C02.R4',
  (WD, 'return k.ProvenWithdrawals.Set(ctx, collections.Join(bridgeId, withdrawalHash[:]), true)', 'return k.ProvenWithdrawals.Set(ctx, collections.Join(uint64(0), withdrawalHash[:]), true)'),
  (WD, 'return k.ProvenWithdrawals.Has(ctx, collections.Join(bridgeId, withdrawalHash[:]))', 'return k.ProvenWithdrawals.Has(ctx, collections.Join(uint64(0), withdrawalHash[:]))'))
w('C02', 'claim recorded as false', 'C02.R1',
  (WD, 'collections.Join(bridgeId, withdrawalHash[:]), true)', 'collections.Join(bridgeId, withdrawalHash[:]), false)'))
w('C02', 'new remover: DeleteOutputProposal also clears claims', 'C02.R3',
  (OUT, '\treturn k.OutputProposals.Remove(ctx, collections.Join(bridgeId, outputIndex))', '\t_ = k.ProvenWithdrawals.Clear(ctx, collections.NewPrefixedPairRange[uint64, []byte](bridgeId))\n\treturn k.OutputProposals.Remove(ctx, collections.Join(bridgeId, outputIndex))'))
w('C02', 'Claimed query negates the answer', 'C02.R5',
  ('x/ophost/keeper/querier.go', '\t\tClaimed: claimed,', '\t\tClaimed: !claimed,'))
w('C02', 'Claimed query looks up bridge 1', 'C02.R5',
  ('x/ophost/keeper/querier.go', 'q.HasProvenWithdrawal(ctx, req.BridgeId, [32]byte(req.WithdrawalHash))', 'q.HasProvenWithdrawal(ctx, 1, [32]byte(req.WithdrawalHash))'))
w('C02', 'BENIGN: claim check extracted into a helper', '',
  (HM, '\tif ok, err := ms.HasProvenWithdrawal(ctx, bridgeId, withdrawalHash); err != nil {\n\t\treturn nil, err\n\t} else if ok {\n\t\treturn nil, types.ErrWithdrawalAlreadyFinalized\n\t}',
       '\tif err := ms.ensureUnclaimed(ctx, bridgeId, withdrawalHash); err != nil {\n\t\treturn nil, err\n\t}'),
  (HM, '//nolint:dupl\nfunc (ms MsgServer) UpdateProposer(', 'func (ms MsgServer) ensureUnclaimed(ctx context.Context, id uint64, h [32]byte) error {\n\tclaimed, err := ms.HasProvenWithdrawal(ctx, id, h)\n\tif err != nil {\n\t\treturn err\n\t}\n\tif claimed {\n\t\treturn types.ErrWithdrawalAlreadyFinalized\n\t}\n\treturn nil\n}\n\n//nolint:dupl\nfunc (ms MsgServer) UpdateProposer('))

# ---------------- C03
w('C03', 'output-root comparison dropped', 'C03.R1',
  (HM, 'if !bytes.Equal(outputProposal.OutputRoot, outputRoot[:]) {', 'if false && !bytes.Equal(outputProposal.OutputRoot, outputRoot[:]) {'))
w('C03', 'version byte ignored (constant 0)', 'C03.R1',
  (HM, 'types.GenerateOutputRoot(req.Version[0], req.StorageRoot, req.LastBlockHash)', 'types.GenerateOutputRoot(0, req.StorageRoot, req.LastBlockHash)'))
w('C03', 'root compared against a different output index', 'C03.R1',
  (HM, 'outputProposal, err := ms.GetOutputProposal(ctx, bridgeId, outputIndex)', 'outputProposal, err := ms.GetOutputProposal(ctx, bridgeId, outputIndex+1)'))
w('C03', 'storage-root proof comparison dropped', 'C03.R1',
  (HM, 'if !bytes.Equal(req.StorageRoot, rootHash[:]) {', 'if len(req.WithdrawalProofs) > 64 && !bytes.Equal(req.StorageRoot, rootHash[:]) {'))
w('C03', 'proof folded from a hash that leaves the sender out', 'C03.R1',
  (HM, 'withdrawalHash := types.GenerateWithdrawalHash(bridgeId, l2Sequence, req.From, req.To, denom, amount.Uint64())', 'withdrawalHash := types.GenerateWithdrawalHash(bridgeId, l2Sequence, req.To, req.To, denom, amount.Uint64())'))
w('C03', 'pays amount+1 of what was hashed', 'C03.R2',
  (HM, 'sdk.NewCoins(sdk.NewCoin(denom, amount))); err != nil {', 'sdk.NewCoins(sdk.NewCoin(denom, amount.AddRaw(1)))); err != nil {'))
w('C03', 'pays the sender field instead of the recipient', 'C03.R2',
  (HM, 'receiver, err := ms.authKeeper.AddressCodec().StringToBytes(req.To)', 'receiver, err := ms.authKeeper.AddressCodec().StringToBytes(req.Sender)'))
w('C03', 'finality check skipped', 'C03.R1',
  (HM, '\t} else if !ok {\n\t\treturn nil, types.ErrNotFinalized\n\t}', '\t} else if !ok && false {\n\t\treturn nil, types.ErrNotFinalized\n\t}'))
w('C03', 'leaf hash ignores the bridge id', 'C03.R3',
  (OT, 'seed = binary.BigEndian.AppendUint64(seed, bridgeId)\n\tseed = binary.BigEndian.AppendUint64(seed, l2Sequence)', 'seed = binary.BigEndian.AppendUint64(seed, 0)\n\t_ = bridgeId\n\tseed = binary.BigEndian.AppendUint64(seed, l2Sequence)'))
w('C03', 'output root ignores the version byte', 'C03.R3',
  (OT, '\tseed[0] = version\n', '\t_ = version\n'))
w('C03', 'Validate stops checking the version length', 'C03.R4',
  (HT, 'if len(msg.Version) != 1 {', 'if len(msg.Version) < 1 {'))
w('C03', 'Validate accepts short proof items', 'C03.R4',
  (HT, '\t\tif len(proof) != 32 {', '\t\tif len(proof) > 32 {'))
w('C03', 'Validate accepts zero amount', 'C03.R4',
  (HT, 'if !msg.Amount.IsValid() || msg.Amount.IsZero() || !msg.Amount.Amount.IsUint64() {', 'if !msg.Amount.IsValid() || !msg.Amount.Amount.IsUint64() {'))
w('C03', 'BENIGN: IsFinalized inlined into the handler as two statements', '',
  (HM, '\tif ok, err := ms.IsFinalized(ctx, bridgeId, outputIndex); err != nil {\n\t\treturn nil, err\n\t} else if !ok {\n\t\treturn nil, types.ErrNotFinalized\n\t}\n\n\toutputProposal, err := ms.GetOutputProposal(ctx, bridgeId, outputIndex)\n\tif err != nil {\n\t\treturn nil, err\n\t}',
       '\toutputProposal, err := ms.GetOutputProposal(ctx, bridgeId, outputIndex)\n\tif err != nil {\n\t\treturn nil, err\n\t}\n\tfinal, err := ms.isFinalized(ctx, bridgeId, outputProposal)\n\tif err != nil {\n\t\treturn nil, err\n\t}\n\tif !final {\n\t\treturn nil, types.ErrNotFinalized\n\t}'))
w('C03', 'BENIGN: checks reordered (proof before claim lookup) and locals renamed', '',
  (HM, '\twithdrawalHash := types.GenerateWithdrawalHash(bridgeId, l2Sequence, req.From, req.To, denom, amount.Uint64())\n\tif ok, err := ms.HasProvenWithdrawal(ctx, bridgeId, withdrawalHash); err != nil {\n\t\treturn nil, err\n\t} else if ok {\n\t\treturn nil, types.ErrWithdrawalAlreadyFinalized\n\t}\n\n\t// should use the same node hash generation function `types.GenerateNodeHash`\n\t// to make this node hash generation deterministic with commutative property.\n\trootHash := types.GenerateRootHashFromProofs(withdrawalHash, req.WithdrawalProofs)\n\tif !bytes.Equal(req.StorageRoot, rootHash[:]) {\n\t\treturn nil, types.ErrFailedToVerifyWithdrawal.Wrap("invalid storage root proofs")\n\t}',
       '\twithdrawalHash := types.GenerateWithdrawalHash(bridgeId, l2Sequence, req.From, req.To, denom, amount.Uint64())\n\trh := types.GenerateRootHashFromProofs(withdrawalHash, req.WithdrawalProofs)\n\tif !bytes.Equal(rh[:], req.StorageRoot) {\n\t\treturn nil, types.ErrFailedToVerifyWithdrawal.Wrap("invalid storage root proofs")\n\t}\n\tclaimed, err := ms.HasProvenWithdrawal(ctx, bridgeId, withdrawalHash)\n\tif err != nil {\n\t\treturn nil, err\n\t}\n\tif claimed {\n\t\treturn nil, types.ErrWithdrawalAlreadyFinalized\n\t}'))

# ---------------- C05
w('C05', 'finality comparison >= flipped to <=', 'C05.R1',
  (OUT, 'BlockTime().Unix() >= output.L1BlockTime.Add(bridgeConfig.FinalizationPeriod).Unix(), nil', 'BlockTime().Unix() <= output.L1BlockTime.Add(bridgeConfig.FinalizationPeriod).Unix(), nil'))
w('C05', 'finalization period not added', 'C05.R1',
  (OUT, 'output.L1BlockTime.Add(bridgeConfig.FinalizationPeriod).Unix(), nil', 'output.L1BlockTime.Unix(), nil'))
w('C05', 'finality uses submission interval instead of finalization period', 'C05.R1',
  (OUT, 'output.L1BlockTime.Add(bridgeConfig.FinalizationPeriod).Unix(), nil', 'output.L1BlockTime.Add(bridgeConfig.SubmissionInterval).Unix(), nil'))
w('C05', 'deletion no longer refuses finalized outputs', 'C05.R4',
  (OUT, '\t} else if isFinalized {\n\t\treturn types.ErrAlreadyFinalized\n\t}', '\t} else if isFinalized && false {\n\t\treturn types.ErrAlreadyFinalized\n\t}'))
w('C05', 'deletion checks finality of a different output (index+1) than it removes', 'C05.R4',
  (OUT, '\toutput, err := k.GetOutputProposal(ctx, bridgeId, outputIndex)\n\tif err != nil {\n\t\treturn err\n\t}\n\n\tif isFinalized,', '\toutput, err := k.GetOutputProposal(ctx, bridgeId, outputIndex+1)\n\tif err != nil {\n\t\treturn err\n\t}\n\n\tif isFinalized,'))
w('C05', 'UpdateMetadata halves the finalization period', 'C05.R3',
  (HM, '\tconfig.Metadata = req.Metadata\n', '\tconfig.Metadata = req.Metadata\n\tconfig.FinalizationPeriod /= 2\n'))
w('C05', 'ProposeOutput backdates L1BlockTime', 'C05.R5',
  (HM, '\t\tL1BlockTime:   sdkCtx.BlockTime(),', '\t\tL1BlockTime:   sdkCtx.BlockTime().Add(-time.Hour),'),
  (HM, '\t"strconv"\n', '\t"strconv"\n\t"time"\n'))
w('C05', 'DeleteOutput handler overwrites an output in place (second writer of OutputProposals)', 'C05.R5',
  (HM, '\t// rollback next output index to the deleted output index\n', '\t_ = ms.OutputProposals.Set(ctx, collections.Join(bridgeId, outputIndex-1), types.Output{})\n\t// rollback next output index to the deleted output index\n'),
  (HM, '\t"strconv"\n', '\t"strconv"\n\n\t"cosmossdk.io/collections"\n'))
w('C05', 'last-finalized query walks ascending', 'C05.R6',
  (OUT, '\tif err := k.ReverseIterateOutputProposals(ctx, bridgeId, cb); err != nil {', '\tif err := k.IterateOutputProposals(ctx, bridgeId, cb); err != nil {'))
w('C05', 'last-finalized callback stops at non-final outputs too', 'C05.R6',
  (OUT, '\t\t\treturn true, nil\n\t\t}\n\t\treturn false, nil\n\t}', '\t\t\treturn true, nil\n\t\t}\n\t\treturn true, nil\n\t}'))
w('C05', 'SetBridgeConfig stops validating', 'C05.R2',
  (HOSTBRIDGE:='x/ophost/keeper/bridge.go', '\tif err := bridgeConfig.Validate(k.authKeeper.AddressCodec()); err != nil {\n\t\treturn err\n\t}\n\n\treturn k.BridgeConfigs.Set', '\treturn k.BridgeConfigs.Set'))
w('C05', '(repaired tree) period check weakened back to == 0', 'C05.R2',
  (BC, 'func (config BridgeConfig) Validate(ac address.Codec) error {\n\tif _, err := ac.StringToBytes(config.Challenger); err != nil {\n\t\treturn err\n\t}\n\n\tif _, err := ac.StringToBytes(config.Proposer); err != nil {\n\t\treturn err\n\t}\n\n\tif config.BatchInfo.ChainType == BatchInfo_CHAIN_TYPE_UNSPECIFIED {\n\t\treturn errors.Wrapf(sdkerrors.ErrInvalidRequest, "batch chain type must be set")\n\t}\n\n\tif config.BatchInfo.Submitter == "" {\n\t\treturn errors.Wrapf(sdkerrors.ErrInvalidRequest, "batch submitter must be set")\n\t}\n\n\tif config.FinalizationPeriod <= time.Duration(0) {',
       'func (config BridgeConfig) Validate(ac address.Codec) error {\n\tif _, err := ac.StringToBytes(config.Challenger); err != nil {\n\t\treturn err\n\t}\n\n\tif _, err := ac.StringToBytes(config.Proposer); err != nil {\n\t\treturn err\n\t}\n\n\tif config.BatchInfo.ChainType == BatchInfo_CHAIN_TYPE_UNSPECIFIED {\n\t\treturn errors.Wrapf(sdkerrors.ErrInvalidRequest, "batch chain type must be set")\n\t}\n\n\tif config.BatchInfo.Submitter == "" {\n\t\treturn errors.Wrapf(sdkerrors.ErrInvalidRequest, "batch submitter must be set")\n\t}\n\n\tif config.FinalizationPeriod == time.Duration(0) {'))
w('C05', 'BENIGN: finality compared on time.Time with !Before', '',
  (OUT, 'return sdk.UnwrapSDKContext(ctx).BlockTime().Unix() >= output.L1BlockTime.Add(bridgeConfig.FinalizationPeriod).Unix(), nil', 'return !sdk.UnwrapSDKContext(ctx).BlockTime().Before(output.L1BlockTime.Add(bridgeConfig.FinalizationPeriod)), nil'))
w('C05', 'BENIGN: isFinalized inlined into IsFinalized', '',
  (OUT, '\treturn k.isFinalized(ctx, bridgeId, output)\n}\n\nfunc (k Keeper) isFinalized(', '\tcfg, err := k.GetBridgeConfig(ctx, bridgeId)\n\tif err != nil {\n\t\treturn false, err\n\t}\n\treturn k.isFinalizedWithConfig(ctx, cfg, output)\n}\n\nfunc (k Keeper) isFinalized('))


BR='x/ophost/keeper/bridge.go'
TP='x/ophost/keeper/token_pair.go'
# ---------------- C01
w('C01', 'finalize pays from the escrow of another bridge (output index used as id)', 'C01.R2',
  (HM, '\tbridgeAddr := types.BridgeAddress(bridgeId)\n\tif err := ms.bankKeeper.SendCoins(ctx, bridgeAddr, receiver,', '\tbridgeAddr := types.BridgeAddress(outputIndex)\n\tif err := ms.bankKeeper.SendCoins(ctx, bridgeAddr, receiver,'))
w('C01', 'deposit counter keyed by constant 0 (global counter)', 'C01.R4',
  (HM, 'l1Sequence, err := ms.IncreaseNextL1Sequence(ctx, bridgeId)', 'l1Sequence, err := ms.IncreaseNextL1Sequence(ctx, 0)'))
w('C01', 'extra payout site: DeleteOutput refunds the challenger from escrow', 'C01.R1',
  (HM, '\t// rollback next output index to the deleted output index\n', '\tif a, err := ms.authKeeper.AddressCodec().StringToBytes(challenger); err == nil {\n\t\t_ = ms.bankKeeper.SendCoins(ctx, types.BridgeAddress(bridgeId), a, sdk.NewCoins())\n\t}\n\t// rollback next output index to the deleted output index\n'))
w('C01', 'deposit send error ignored', 'C01.R3',
  (HM, '\t\tif err := ms.bankKeeper.SendCoins(ctx, sender, bridgeAddr, sdk.NewCoins(coin)); err != nil {\n\t\t\treturn nil, err\n\t\t}', '\t\t_ = ms.bankKeeper.SendCoins(ctx, sender, bridgeAddr, sdk.NewCoins(coin))'))
w('C01', 'deposit escrowed under bridge id + 1', 'C01.R2',
  (HM, '\t\tbridgeAddr := types.BridgeAddress(bridgeId)\n\t\tif err := ms.bankKeeper.SendCoins(ctx, sender, bridgeAddr', '\t\tbridgeAddr := types.BridgeAddress(bridgeId + 1)\n\t\tif err := ms.bankKeeper.SendCoins(ctx, sender, bridgeAddr'))
w('C01', 'claim lookup for bridge 1 regardless of the message (cross-bridge claim set)', 'C01.R4',
  (HM, 'if ok, err := ms.HasProvenWithdrawal(ctx, bridgeId, withdrawalHash); err != nil {', 'if ok, err := ms.HasProvenWithdrawal(ctx, 1, withdrawalHash); err != nil {'))
w('C01', 'DeleteOutput rolls back the counter of bridge id 1', 'C01.R4',
  (HM, 'if err := ms.NextOutputIndexes.Set(ctx, bridgeId, outputIndex); err != nil {', 'if err := ms.NextOutputIndexes.Set(ctx, 1, outputIndex); err != nil {'))
w('C01', 'creation fee charged to the proposer instead of the creator', 'C01.R2',
  (HM, 'creator, err := ms.authKeeper.AddressCodec().StringToBytes(req.Creator)', 'creator, err := ms.authKeeper.AddressCodec().StringToBytes(req.Config.Proposer)'))
w('C01', 'RecordBatch creates an account', 'C01.R5',
  (HM, '\tsdk.UnwrapSDKContext(ctx).EventManager().EmitEvent(\n\t\tsdk.NewEvent(\n\t\t\ttypes.EventTypeRecordBatch,', '\tms.authKeeper.SetAccount(ctx, ms.authKeeper.NewAccount(ctx, types.NewBridgeAccountWithAddress(types.BridgeAddress(req.BridgeId))))\n\tsdk.UnwrapSDKContext(ctx).EventManager().EmitEvent(\n\t\tsdk.NewEvent(\n\t\t\ttypes.EventTypeRecordBatch,'))
w('C01', 'BENIGN: BridgeAddress computed before the checks; coin local renamed', '',
  (HM, '\tbridgeId := req.BridgeId\n\toutputIndex := req.OutputIndex\n\tl2Sequence := req.Sequence\n\tamount := req.Amount.Amount\n\tdenom := req.Amount.Denom\n', '\tbridgeId := req.BridgeId\n\tescrow := types.BridgeAddress(bridgeId)\n\toutputIndex := req.OutputIndex\n\tl2Sequence := req.Sequence\n\tamount := req.Amount.Amount\n\tdenom := req.Amount.Denom\n'),
  (HM, '\tbridgeAddr := types.BridgeAddress(bridgeId)\n\tif err := ms.bankKeeper.SendCoins(ctx, bridgeAddr, receiver,', '\tif err := ms.bankKeeper.SendCoins(ctx, escrow, receiver,'))

# ---------------- C10
w('C10', '(repaired tree) bridge-existence check removed from InitiateTokenDeposit', 'C10.R1',
  (HM, '\tif _, err := ms.GetBridgeConfig(ctx, bridgeId); err != nil {\n\t\treturn nil, err\n\t}\n\n\tl1Sequence', '\tl1Sequence'))
w('C10', 'bridge-existence check looks at bridge 1', 'C10.R1',
  (HM, '\tif _, err := ms.GetBridgeConfig(ctx, bridgeId); err != nil {\n\t\treturn nil, err\n\t}\n\n\tl1Sequence', '\tif _, err := ms.GetBridgeConfig(ctx, 1); err != nil {\n\t\treturn nil, err\n\t}\n\n\tl1Sequence'))
w('C10', 'event from <- req.To', 'C10.R3',
  (HM, '\t\tsdk.NewAttribute(types.AttributeKeyFrom, req.Sender),\n\t\tsdk.NewAttribute(types.AttributeKeyTo, req.To),\n\t\tsdk.NewAttribute(types.AttributeKeyL1Denom, coin.Denom),\n\t\tsdk.NewAttribute(types.AttributeKeyL2Denom, l2Denom),\n\t\tsdk.NewAttribute(types.AttributeKeyAmount, coin.Amount.String()),\n\t\tsdk.NewAttribute(types.AttributeKeyData,',
       '\t\tsdk.NewAttribute(types.AttributeKeyFrom, req.To),\n\t\tsdk.NewAttribute(types.AttributeKeyTo, req.To),\n\t\tsdk.NewAttribute(types.AttributeKeyL1Denom, coin.Denom),\n\t\tsdk.NewAttribute(types.AttributeKeyL2Denom, l2Denom),\n\t\tsdk.NewAttribute(types.AttributeKeyAmount, coin.Amount.String()),\n\t\tsdk.NewAttribute(types.AttributeKeyData,'))
w('C10', 'event drops the data payload', 'C10.R3',
  (HM, '\t\tsdk.NewAttribute(types.AttributeKeyData, hex.EncodeToString(req.Data)),\n', ''),
  (HM, '\t"encoding/hex"\n', '\t"encoding/hex"\n\t_ "embed"\n'),
  (HM, 'sdk.NewAttribute(types.AttributeKeyOutputRoot, hex.EncodeToString(outputRoot)),', 'sdk.NewAttribute(types.AttributeKeyOutputRoot, hex.EncodeToString(outputRoot)),'))
w('C10', 'response carries sequence + 1', 'C10.R3',
  (HM, '\t\tSequence: l1Sequence,\n', '\t\tSequence: l1Sequence + 1,\n'))
w('C10', 'token pair written on every deposit (outside the !ok branch)', 'C10.R4',
  (HM, '\t} else if !ok {\n\t\tif err := ms.SetTokenPair(ctx, bridgeId, l2Denom, coin.Denom); err != nil {', '\t} else if !ok || true {\n\t\tif err := ms.SetTokenPair(ctx, bridgeId, l2Denom, coin.Denom); err != nil {'))
w('C10', 'token pair value is the l2 denom', 'C10.R4',
  (HM, 'ms.SetTokenPair(ctx, bridgeId, l2Denom, coin.Denom)', 'ms.SetTokenPair(ctx, bridgeId, l2Denom, l2Denom)'))
w('C10', 'sequence helper stores next + 2', 'C10.R2',
  (BR, 'k.NextL1Sequences.Set(ctx, bridgeId, nextL1Sequence+1)', 'k.NextL1Sequences.Set(ctx, bridgeId, nextL1Sequence+2)'))
w('C10', 'sequence increased twice per deposit', 'C10.R2',
  (HM, '\t// transfer only positive amount\n', '\tif _, err := ms.IncreaseNextL1Sequence(ctx, bridgeId); err != nil {\n\t\treturn nil, err\n\t}\n\t// transfer only positive amount\n'))
w('C10', 'new remover of token pairs in DeleteOutput', 'C10.R4',
  (HM, '\t// rollback next output index to the deleted output index\n', '\t_ = ms.TokenPairs.Clear(ctx, nil)\n\t// rollback next output index to the deleted output index\n'))
w('C10', 'BENIGN: event attributes reordered, tuple-form rewritten as two statements', '',
  (HM, '\tif ok, err := ms.HasTokenPair(ctx, bridgeId, l2Denom); err != nil {\n\t\treturn nil, err\n\t} else if !ok {\n\t\tif err := ms.SetTokenPair(ctx, bridgeId, l2Denom, coin.Denom); err != nil {\n\t\t\treturn nil, err\n\t\t}\n\t}',
       '\texists, err := ms.HasTokenPair(ctx, bridgeId, l2Denom)\n\tif err != nil {\n\t\treturn nil, err\n\t}\n\tif !exists {\n\t\tif err := ms.SetTokenPair(ctx, bridgeId, l2Denom, coin.Denom); err != nil {\n\t\t\treturn nil, err\n\t\t}\n\t}'),
  (HM, '\t\tsdk.NewAttribute(types.AttributeKeyFrom, req.Sender),\n\t\tsdk.NewAttribute(types.AttributeKeyTo, req.To),\n\t\tsdk.NewAttribute(types.AttributeKeyL1Denom, coin.Denom),', '\t\tsdk.NewAttribute(types.AttributeKeyTo, req.To),\n\t\tsdk.NewAttribute(types.AttributeKeyFrom, req.Sender),\n\t\tsdk.NewAttribute(types.AttributeKeyL1Denom, coin.Denom),'))

# ---------------- C11
w('C11', 'L2 block number check <= weakened to <', 'C11.R1',
  (HM, 'if l2BlockNumber <= lastOutputProposal.L2BlockNumber {', 'if l2BlockNumber < lastOutputProposal.L2BlockNumber {'))
w('C11', 'output index equality test skipped', 'C11.R1',
  (HM, '\tif outputIndex != req.OutputIndex {', '\tif false && outputIndex != req.OutputIndex {'))
w('C11', 'previous output looked up at the same index (never found ordering)', 'C11.R1',
  (HM, 'ms.GetOutputProposal(ctx, bridgeId, outputIndex-1)', 'ms.GetOutputProposal(ctx, bridgeId, outputIndex-2)'))
w('C11', 'stored L2 block number is the previous one', 'C11.R1',
  (HM, '\t\tL2BlockNumber: l2BlockNumber,\n', '\t\tL2BlockNumber: l2BlockNumber - 1,\n'))
w('C11', 'counter rolled back to outputIndex+1', 'C11.R2',
  (HM, 'ms.NextOutputIndexes.Set(ctx, bridgeId, outputIndex); err != nil {', 'ms.NextOutputIndexes.Set(ctx, bridgeId, outputIndex+1); err != nil {'))
w('C11', 'deletion loop starts at outputIndex+1', 'C11.R2',
  (HM, 'for i := outputIndex; i < nextOutputIndex; i++ {', 'for i := outputIndex + 1; i < nextOutputIndex; i++ {'))
w('C11', 'deletion loop stops one short', 'C11.R2',
  (HM, 'for i := outputIndex; i < nextOutputIndex; i++ {', 'for i := outputIndex; i+1 < nextOutputIndex; i++ {'))
w('C11', 'deletion guard >= weakened to >', 'C11.R2',
  (HM, '\tif outputIndex >= nextOutputIndex {', '\tif outputIndex > nextOutputIndex {'))
w('C11', 'deleter error ignored inside the loop', 'C11.R2',
  (HM, '\t\tif err := ms.DeleteOutputProposal(ctx, bridgeId, i); err != nil {\n\t\t\treturn nil, err\n\t\t}', '\t\t_ = ms.DeleteOutputProposal(ctx, bridgeId, i)'))
w('C11', 'UpdateProposer resets the output counter', 'C11.R3',
  (HM, '\tconfig.Proposer = req.NewProposer\n', '\tconfig.Proposer = req.NewProposer\n\t_ = ms.NextOutputIndexes.Set(ctx, bridgeId, 1)\n'))
w('C11', 'BENIGN: deletion loop as while-style loop with renamed variable', '',
  (HM, '\tfor i := outputIndex; i < nextOutputIndex; i++ {\n\t\tif err := ms.DeleteOutputProposal(ctx, bridgeId, i); err != nil {\n\t\t\treturn nil, err\n\t\t}\n\t}', '\tcur := outputIndex\n\tfor cur < nextOutputIndex {\n\t\tif err := ms.DeleteOutputProposal(ctx, bridgeId, cur); err != nil {\n\t\t\treturn nil, err\n\t\t}\n\t\tcur = cur + 1\n\t}'))


DEP='x/opchild/keeper/deposit.go'
SEQ='x/opchild/keeper/sequences.go'
CK='x/opchild/keeper/keeper.go'
# ---------------- C06
w('C06', 'gate < weakened to <= (expected sequence becomes a NOOP)', 'C06.R1',
  (CM, '\tif req.Sequence < finalizedL1Sequence {', '\tif req.Sequence <= finalizedL1Sequence {'))
w('C06', 'the > branch deleted (gaps accepted)', 'C06.R1',
  (CM, '\t} else if req.Sequence > finalizedL1Sequence {\n\t\treturn nil, types.ErrInvalidSequence\n\t}', '\t}'))
w('C06', 'NOOP branch also increments the sequence', 'C06.R1',
  (CM, '\t\t// No op instead of returning an error\n', '\t\t// No op instead of returning an error\n\t\t_, _ = ms.IncreaseNextL1Sequence(ctx)\n'))
w('C06', 'replays answered with SUCCESS', 'C06.R1',
  (CM, 'return &types.MsgFinalizeTokenDepositResponse{Result: types.NOOP}, nil', 'return &types.MsgFinalizeTokenDepositResponse{Result: types.SUCCESS}, nil'))
w('C06', 'replays answered with an error', 'C06.R1',
  (CM, 'return &types.MsgFinalizeTokenDepositResponse{Result: types.NOOP}, nil', 'return nil, types.ErrInvalidSequence'))
w('C06', 'sequence incremented twice on the refund path', 'C06.R2',
  (CM, '\t\tl2Sequence, err := ms.IncreaseNextL2Sequence(ctx)\n\t\tif err != nil {\n\t\t\treturn nil, err\n\t\t}\n\n\t\terr = ms.emitWithdrawEvents(ctx, types.NewMsgInitiateTokenWithdrawal(', '\t\tif _, err := ms.IncreaseNextL1Sequence(ctx); err != nil {\n\t\t\treturn nil, err\n\t\t}\n\t\tl2Sequence, err := ms.IncreaseNextL2Sequence(ctx)\n\t\tif err != nil {\n\t\t\treturn nil, err\n\t\t}\n\n\t\terr = ms.emitWithdrawEvents(ctx, types.NewMsgInitiateTokenWithdrawal('))
w('C06', 'gate compares with the L2 sequence counter', 'C06.R1',
  (CM, 'finalizedL1Sequence, err := ms.GetNextL1Sequence(ctx)', 'finalizedL1Sequence, err := ms.GetNextL2Sequence(ctx)'))
w('C06', 'executor check moved after the gate', 'C06.R3',
  (CM, '\t// permission check\n\tif err := ms.checkBridgeExecutorPermission(ctx, req.Sender); err != nil {\n\t\treturn nil, err\n\t}\n\n\tfinalizedL1Sequence, err := ms.GetNextL1Sequence(ctx)\n\tif err != nil {\n\t\treturn nil, err\n\t}\n',
       '\tfinalizedL1Sequence, err := ms.GetNextL1Sequence(ctx)\n\tif err != nil {\n\t\treturn nil, err\n\t}\n\t// permission check\n\tif err := ms.checkBridgeExecutorPermission(ctx, req.Sender); err != nil {\n\t\treturn nil, err\n\t}\n'))
w('C06', 'getter default differs from the increment default (0 vs 1)', 'C06.R4',
  (SEQ, '\tif finalizedL1Sequence == collections.DefaultSequenceStart {\n\t\treturn ophosttypes.DefaultL1SequenceStart, nil\n\t}\n\n\treturn finalizedL1Sequence, nil\n}\n\nfunc (k Keeper) SetNextL1Sequence', '\treturn finalizedL1Sequence, nil\n}\n\nfunc (k Keeper) SetNextL1Sequence'))
w('C06', 'increment helper stores default+2 on first use', 'C06.R4',
  (SEQ, 'k.NextL1Sequence.Set(ctx, ophosttypes.DefaultL1SequenceStart+1)', 'k.NextL1Sequence.Set(ctx, ophosttypes.DefaultL1SequenceStart+2)'))
w('C06', 'UpdateOracle resets the L1 sequence (new writer)', 'C06.R2',
  (CM, '\t// config check\n', '\t_ = ms.NextL1Sequence.Set(ctx, req.Height)\n\t// config check\n'))
w('C06', 'BENIGN: gate as switch statement', '',
  (CM, '\tif req.Sequence < finalizedL1Sequence {\n\t\t// No op instead of returning an error\n\t\treturn &types.MsgFinalizeTokenDepositResponse{Result: types.NOOP}, nil\n\t} else if req.Sequence > finalizedL1Sequence {\n\t\treturn nil, types.ErrInvalidSequence\n\t}',
       '\tswitch {\n\tcase req.Sequence < finalizedL1Sequence:\n\t\treturn &types.MsgFinalizeTokenDepositResponse{Result: types.NOOP}, nil\n\tcase finalizedL1Sequence < req.Sequence:\n\t\treturn nil, types.ErrInvalidSequence\n\t}'))

# ---------------- C07
w('C07', 'hook failure turned into a handler error', 'C07.R1',
  (CM, '\t\tif !hookSuccess {\n\t\t\tevent = event.AppendAttributes(sdk.NewAttribute(types.AttributeKeyReason, "hook failed; "+reason))\n\t\t}', '\t\tif !hookSuccess {\n\t\t\treturn nil, fmt.Errorf("hook failed: %s", reason)\n\t\t}'))
w('C07', 'malformed recipient turned into a handler error', 'C07.R1',
  (CM, '\tif err != nil {\n\t\tdepositSuccess = false\n\t\treason = fmt.Sprintf("failed to convert recipient address: %s", err)\n\t} else {', '\tif err != nil {\n\t\treturn nil, fmt.Errorf("bad recipient: %w", err)\n\t} else {'))
w('C07', 'mint on the real context instead of the cache context', 'C07.R2',
  (DEP, 'ms.bankKeeper.MintCoins(cacheCtx, types.ModuleName, coins)', 'ms.bankKeeper.MintCoins(ctx, types.ModuleName, coins)'))
w('C07', 'commit before the transfer is attempted', 'C07.R2',
  (DEP, '\t// transfer can be failed due to contract logics\n', '\tcommit()\n\t// transfer can be failed due to contract logics\n'))
w('C07', 'success reported without commit', 'C07.R2',
  (DEP, '\t// write the changes only if the transfer is successful\n\tcommit()\n\tsuccess = true\n', '\t// write the changes only if the transfer is successful\n\tsuccess = true\n\t_ = commit\n'))
w('C07', 'recover deleted from safeDepositToken', 'C07.R3',
  (DEP, '\tvar err error\n\tdefer func() {\n\t\tif r := recover(); r != nil {\n\t\t\treason = fmt.Sprintf("panic: %v", r)\n\t\t}\n', '\tvar err error\n\tdefer func() {\n'))
w('C07', 'hook handlers run on the metered but un-cached context', 'C07.R2',
  (DEP, '\t\tres, err := handler(cacheCtx, msg)', '\t\tres, err := handler(ctx, msg)'))
w('C07', 'hook commits inside the loop (partial effects survive a later failure)', 'C07.R2',
  (DEP, '\t\tcacheCtx.EventManager().EmitEvents(res.GetEvents())\n\t}\n\n\tcommit()', '\t\tcacheCtx.EventManager().EmitEvents(res.GetEvents())\n\t\tcommit()\n\t}\n'))
w('C07', '(repaired tree) hook message events dropped again', 'C07.R10',
  (DEP, '\t\tcacheCtx.EventManager().EmitEvents(res.GetEvents())\n', '\t\t_ = res\n'))
w('C04', '(repaired tree) hook message events dropped again', 'C04.R6',
  (DEP, '\t\tcacheCtx.EventManager().EmitEvents(res.GetEvents())\n', '\t\t_ = res\n'))
w('C09', 'ExecuteMessages emits only the events of the last executed message', 'C09.R6',
  (CM, '\t\tevents = append(events, res.GetEvents()...)', '\t\tevents = res.GetEvents()'))
w('C09', 'BENIGN: hook events collected and emitted on the outer context after the commit', '',
  (DEP, '\tcacheCtx, commit := ctx.CacheContext()\n', '\tcacheCtx, commit := ctx.CacheContext()\n\tvar hookEvents sdk.Events\n'),
  (DEP, '\t\tcacheCtx.EventManager().EmitEvents(res.GetEvents())\n\t}\n\n\tcommit()\n', '\t\thookEvents = append(hookEvents, res.GetEvents()...)\n\t}\n\n\tcommit()\n\tctx.EventManager().EmitEvents(hookEvents)\n'))
w('C07', 'hook gas not capped by hookMaxGas', 'C07.R4',
  (DEP, '\tif gasForHook > hookMaxGas {\n\t\tgasForHook = hookMaxGas\n\t}', '\tif gasForHook < hookMaxGas {\n\t\tgasForHook = hookMaxGas\n\t}'))
w('C07', 'hook gas never charged to the outer meter', 'C07.R4',
  (DEP, '\t\toriginGasMeter.ConsumeGas(ctx.GasMeter().GasConsumedToLimit(), "bridge hook")\n', ''))
w('C07', 'hook decorators run on the unmetered context', 'C07.R4',
  (DEP, '\t// use new gas meter with the hook max gas limit\n\tctx = ctx.WithGasMeter(storetypes.NewGasMeter(gasForHook))\n\n\ttx, err := k.txDecoder(data)', '\ttx, err := k.txDecoder(data)\n\t_ = storetypes.NewGasMeter(gasForHook)'))
w('C07', 'reclaim-burn skipped when the hook fails', 'C07.R6',
  (CM, '\t\tif depositSuccess {\n\t\t\t// reclaim and burn coins', '\t\tif depositSuccess && false {\n\t\t\t// reclaim and burn coins'))
w('C07', 'refund of half the amount', 'C07.R6',
  (CM, 'types.NewMsgInitiateTokenWithdrawal(req.To, req.From, coin), l2Sequence)', 'types.NewMsgInitiateTokenWithdrawal(req.To, req.From, sdk.NewCoin(coin.Denom, coin.Amount.QuoRaw(2))), l2Sequence)'))
w('C07', 'refund sent to the L2 recipient instead of the L1 sender', 'C07.R6',
  (CM, 'types.NewMsgInitiateTokenWithdrawal(req.To, req.From, coin), l2Sequence)', 'types.NewMsgInitiateTokenWithdrawal(req.From, req.To, coin), l2Sequence)'))
w('C07', 'refund only when the deposit failed (hook failure keeps the credit and refunds nothing)', 'C07.R6',
  (CM, '\tif !depositSuccess || !hookSuccess {\n\t\tif depositSuccess {', '\tif !depositSuccess {\n\t\tif depositSuccess {'))
w('C07', 'L1 sequence incremented only on success', 'C07.R5',
  (CM, '\t// update l1 sequence\n\tif _, err := ms.IncreaseNextL1Sequence(ctx); err != nil {\n\t\treturn nil, err\n\t}', '\t// update l1 sequence\n\tif depositSuccess {\n\t\tif _, err := ms.IncreaseNextL1Sequence(ctx); err != nil {\n\t\t\treturn nil, err\n\t\t}\n\t}'))
w('C07', 'hook also runs when the deposit failed', 'C07.R7',
  (CM, '\tif depositSuccess && len(req.Data) > 0 {', '\tif len(req.Data) > 0 {'))
w('C07', 'hook gets an unbounded gas allowance constant', 'C07.R7',
  (CM, 'ms.handleBridgeHook(sdkCtx, req.Data, params.HookMaxGas)', 'ms.handleBridgeHook(sdkCtx, req.Data, params.HookMaxGas*1000)'))
w('C07', 'BENIGN: refund block extracted into a helper', '',
  (CM, '\t\tl2Sequence, err := ms.IncreaseNextL2Sequence(ctx)\n\t\tif err != nil {\n\t\t\treturn nil, err\n\t\t}\n\n\t\terr = ms.emitWithdrawEvents(ctx, types.NewMsgInitiateTokenWithdrawal(req.To, req.From, coin), l2Sequence)\n\t\tif err != nil {\n\t\t\treturn nil, err\n\t\t}\n\t}\n\n\treturn &types.MsgFinalizeTokenDepositResponse{Result: types.SUCCESS}, nil',
       '\t\tif err := ms.refund(ctx, req.To, req.From, coin); err != nil {\n\t\t\treturn nil, err\n\t\t}\n\t}\n\n\treturn &types.MsgFinalizeTokenDepositResponse{Result: types.SUCCESS}, nil'),
  (CM, '/////////////////////////////////////////////////////\n// The messages for User\n', 'func (ms MsgServer) refund(ctx context.Context, l2Addr, l1Addr string, c sdk.Coin) error {\n\tseq, err := ms.IncreaseNextL2Sequence(ctx)\n\tif err != nil {\n\t\treturn err\n\t}\n\treturn ms.emitWithdrawEvents(ctx, types.NewMsgInitiateTokenWithdrawal(l2Addr, l1Addr, c), seq)\n}\n\n/////////////////////////////////////////////////////\n// The messages for User\n'))

# ---------------- C09
w('C09', 'burn without the preceding debit of the signer', 'C09.R2',
  (CM, '\t// send coins to the module account only if the amount is positive\n\tif err := ms.bankKeeper.SendCoinsFromAccountToModule(ctx, senderAddr, types.ModuleName, burnCoins); err != nil {\n\t\treturn nil, err\n\t}\n', '\t_ = senderAddr\n'))
w('C09', 'withdrawal burns half of what it records', 'C09.R2',
  (CM, '\t// burn withdrawn coins from the module account\n\tif err := ms.bankKeeper.BurnCoins(ctx, types.ModuleName, burnCoins); err != nil {', '\t// burn withdrawn coins from the module account\n\tif err := ms.bankKeeper.BurnCoins(ctx, types.ModuleName, sdk.NewCoins(sdk.NewCoin(coin.Denom, coin.Amount.QuoRaw(2)))); err != nil {'))
w('C09', 'withdrawal debits the recipient string instead of the signer', 'C09.R2',
  (CM, 'senderAddr, err := ms.authKeeper.AddressCodec().StringToBytes(req.Sender)\n\tif err != nil {\n\t\treturn nil, err\n\t}\n\n\t// send coins to the module', 'senderAddr, err := ms.authKeeper.AddressCodec().StringToBytes(req.To)\n\tif err != nil {\n\t\treturn nil, err\n\t}\n\n\t// send coins to the module'))
w('C09', 'non-L1 token error ignored (native tokens can be withdrawn)', 'C09.R2',
  (CM, '\terr = ms.emitWithdrawEvents(ctx, req, l2Sequence)\n\tif err != nil {\n\t\treturn nil, err\n\t}\n', '\t_ = ms.emitWithdrawEvents(ctx, req, l2Sequence)\n'))
w('C09', 'response carries l2Sequence+1', 'C09.R2',
  (CM, '\t\tSequence: l2Sequence,\n', '\t\tSequence: l2Sequence + 1,\n'))
w('C09', 'denom mapping overwritten unconditionally', 'C09.R3',
  (CM, '\t} else if !ok {\n\t\tif err := ms.DenomPairs.Set(ctx, coin.Denom, req.BaseDenom); err != nil {', '\t} else if !ok || true {\n\t\tif err := ms.DenomPairs.Set(ctx, coin.Denom, req.BaseDenom); err != nil {'))
w('C09', 'denom mapping keyed by base denom', 'C09.R3',
  (CM, 'ms.DenomPairs.Set(ctx, coin.Denom, req.BaseDenom)', 'ms.DenomPairs.Set(ctx, req.BaseDenom, coin.Denom)'))
w('C09', 'GetBaseDenom falls back to the denom itself for unknown tokens', 'C09.R3',
  (CK, '\t\tif errors.Is(err, collections.ErrNotFound) {\n\t\t\treturn "", types.ErrNonL1Token\n\t\t}', '\t\tif errors.Is(err, collections.ErrNotFound) {\n\t\t\treturn denom, nil\n\t\t}'))
w('C09', 'SpendFeePool spends from the bridge module account', 'C09.R1',
  (CM, 'ms.bankKeeper.SendCoinsFromModuleToAccount(ctx, authtypes.FeeCollectorName, recipientAddr, req.Amount)', 'ms.bankKeeper.SendCoinsFromModuleToAccount(ctx, types.ModuleName, recipientAddr, req.Amount)'),
  (CM, '\tauthtypes "github.com/cosmos/cosmos-sdk/x/auth/types"\n', ''))
w('C09', 'extra mint site: AddValidator mints a bond', 'C09.R1',
  (CM, '\tif err := ms.SetValidator(ctx, validator); err != nil {\n\t\treturn nil, err\n\t}\n\tif err = ms.SetValidatorByConsAddr', '\t_ = ms.bankKeeper.MintCoins(ctx, types.ModuleName, sdk.NewCoins())\n\tif err := ms.SetValidator(ctx, validator); err != nil {\n\t\treturn nil, err\n\t}\n\tif err = ms.SetValidatorByConsAddr'))
w('C09', 'withdrawal allocates two L2 sequences (gap)', 'C09.R4',
  (CM, '\tl2Sequence, err := ms.IncreaseNextL2Sequence(ctx)\n\tif err != nil {\n\t\treturn nil, err\n\t}\n\n\terr = ms.emitWithdrawEvents(ctx, req, l2Sequence)', '\tif _, err := ms.IncreaseNextL2Sequence(ctx); err != nil {\n\t\treturn nil, err\n\t}\n\tl2Sequence, err := ms.IncreaseNextL2Sequence(ctx)\n\tif err != nil {\n\t\treturn nil, err\n\t}\n\n\terr = ms.emitWithdrawEvents(ctx, req, l2Sequence)'))
w('C09', 'L2 increment helper returns the post-increment value', 'C09.R4',
  (SEQ, '\t\tif err := k.NextL2Sequence.Set(ctx, types.DefaultL2SequenceStart+1); err != nil {\n\t\t\treturn 0, err\n\t\t}\n\n\t\treturn types.DefaultL2SequenceStart, nil\n\t}\n\n\treturn nextL2Sequence, nil', '\t\tif err := k.NextL2Sequence.Set(ctx, types.DefaultL2SequenceStart+1); err != nil {\n\t\t\treturn 0, err\n\t\t}\n\n\t\treturn types.DefaultL2SequenceStart, nil\n\t}\n\n\treturn nextL2Sequence + 1, nil'))


CT='x/opchild/types/tx.go'
# ---------------- C04
w('C04', '(repaired tree) IsUint64 bound removed from the L2 withdrawal validator', 'C04.R1',
  (CT, ' || !msg.Amount.IsPositive() || !msg.Amount.Amount.IsUint64() {', ' || !msg.Amount.IsPositive() {'))
w('C04', '(repaired tree) IsUint64 bound removed from the L1 deposit validator', 'C04.R1',
  (HT, '\tif !msg.Amount.IsValid() || !msg.Amount.Amount.IsUint64() {', '\tif !msg.Amount.IsValid() {'))
w('C04', 'bound weakened to BitLen <= 65', 'C04.R1',
  (CT, ' || !msg.Amount.IsPositive() || !msg.Amount.Amount.IsUint64() {', ' || !msg.Amount.IsPositive() || msg.Amount.Amount.BigInt().BitLen() > 65 {'))
w('C04', 'refund swaps req.To / req.From', 'C04.R3',
  (CM, 'types.NewMsgInitiateTokenWithdrawal(req.To, req.From, coin), l2Sequence)', 'types.NewMsgInitiateTokenWithdrawal(req.From, req.To, coin), l2Sequence)'))
w('C04', 'constructor swaps sender and recipient', 'C04.R3',
  (CT, '\treturn &MsgInitiateTokenWithdrawal{\n\t\tSender: sender,\n\t\tTo:     to,', '\treturn &MsgInitiateTokenWithdrawal{\n\t\tSender: to,\n\t\tTo:     sender,'))
w('C04', 'withdrawal event drops base_denom', 'C04.R2',
  (CM, '\t\tsdk.NewAttribute(types.AttributeKeyBaseDenom, baseDenom),\n', ''),
  (CM, '\tbaseDenom, err := ms.GetBaseDenom(ctx, coin.Denom)\n', '\t_, err := ms.GetBaseDenom(ctx, coin.Denom)\n'))
w('C04', 'withdrawal event announces the L2 denom as base_denom', 'C04.R2',
  (CM, 'sdk.NewAttribute(types.AttributeKeyBaseDenom, baseDenom),', 'sdk.NewAttribute(types.AttributeKeyBaseDenom, coin.Denom),'),
  (CM, '\tbaseDenom, err := ms.GetBaseDenom(ctx, coin.Denom)\n', '\t_, err := ms.GetBaseDenom(ctx, coin.Denom)\n'))
w('C04', 'L2 withdrawal validator accepts zero amounts (L1 claim rejects them)', 'C04.R4',
  (CT, '\tif !msg.Amount.IsValid() || !msg.Amount.IsPositive() || !msg.Amount.Amount.IsUint64() {', '\tif !msg.Amount.IsValid() || !msg.Amount.Amount.IsUint64() {'))
w('C04', 'BENIGN: bound expressed as BitLen() <= 64', '',
  (CT, ' || !msg.Amount.IsPositive() || !msg.Amount.Amount.IsUint64() {', ' || !msg.Amount.IsPositive() || msg.Amount.Amount.BigInt().BitLen() > 64 {'))

# ---------------- C08
w('C08', 'mint req.Amount but announce amount-1 in the deposit event (L1 side)', 'C08.R1',
  (HM, '\t\tsdk.NewAttribute(types.AttributeKeyAmount, coin.Amount.String()),\n\t\tsdk.NewAttribute(types.AttributeKeyData,', '\t\tsdk.NewAttribute(types.AttributeKeyAmount, coin.Amount.SubRaw(1).String()),\n\t\tsdk.NewAttribute(types.AttributeKeyData,'))
w('C08', 'wire value of the l1_sequence attribute key changed', 'C08.R2',
  ('x/ophost/types/event.go', 'AttributeKeyL1Sequence             = "l1_sequence"', 'AttributeKeyL1Sequence             = "l1_seq"'))
w('C08', 'safeDepositToken mints twice the coins it was given', 'C08.R1',
  (DEP, 'ms.bankKeeper.MintCoins(cacheCtx, types.ModuleName, coins)', 'ms.bankKeeper.MintCoins(cacheCtx, types.ModuleName, coins.Add(coins...))'))
w('C08', 'handler credits a different coin than req.Amount', 'C08.R1',
  (CM, 'depositSuccess, reason = ms.safeDepositToken(ctx, toAddr, sdk.NewCoins(coin))', 'depositSuccess, reason = ms.safeDepositToken(ctx, toAddr, sdk.NewCoins(sdk.NewCoin(coin.Denom, coin.Amount.AddRaw(1))))'))
w('C08', 'withdrawal announces a different amount than it burns', 'C08.R1',
  (CM, '\t\tsdk.NewAttribute(types.AttributeKeyAmount, coin.Amount.String()),\n\t\tsdk.NewAttribute(types.AttributeKeyL2Sequence,', '\t\tsdk.NewAttribute(types.AttributeKeyAmount, coin.Amount.MulRaw(2).String()),\n\t\tsdk.NewAttribute(types.AttributeKeyL2Sequence,'))
w('C08', 'deposit event drops l2_denom', 'C08.R2',
  (HM, '\t\tsdk.NewAttribute(types.AttributeKeyL2Denom, l2Denom),\n\t\tsdk.NewAttribute(types.AttributeKeyAmount, coin.Amount.String()),\n\t\tsdk.NewAttribute(types.AttributeKeyData,', '\t\tsdk.NewAttribute(types.AttributeKeyAmount, coin.Amount.String()),\n\t\tsdk.NewAttribute(types.AttributeKeyData,'))
w('C08', 'finalize event derives the l2 denom from another bridge id', 'C08.R3',
  (HM, 'sdk.NewAttribute(types.AttributeKeyL2Denom, types.L2Denom(bridgeId, denom)),', 'sdk.NewAttribute(types.AttributeKeyL2Denom, types.L2Denom(outputIndex, denom)),'))
w('C08', 'token pair keyed by the l1 denom instead of the derived l2 denom', 'C08.R3',
  (HM, 'if ok, err := ms.HasTokenPair(ctx, bridgeId, l2Denom); err != nil {', 'if ok, err := ms.HasTokenPair(ctx, bridgeId, coin.Denom); err != nil {'))


DN='x/ophost/types/denom.go'
AU='x/ophost/types/auth.go'
# ---------------- C17
w('C17', 'little-endian sequence in the leaf', 'C17.R1',
  (OT, 'seed = binary.BigEndian.AppendUint64(seed, l2Sequence)', 'seed = binary.LittleEndian.AppendUint64(seed, l2Sequence)'))
w('C17', 'single instead of double leaf hash', 'C17.R1',
  (OT, '\twithdrawalHash = sha3.Sum256(seed)\n\twithdrawalHash = sha3.Sum256(withdrawalHash[:])\n', '\twithdrawalHash = sha3.Sum256(seed)\n'))
w('C17', 'sender/receiver digests swapped', 'C17.R1',
  (OT, '\tsenderDigest := sha3.Sum256([]byte(sender))', '\tsenderDigest := sha3.Sum256([]byte(receiver))'),
  (OT, '\treceiverDigest := sha3.Sum256([]byte(receiver))', '\treceiverDigest := sha3.Sum256([]byte(sender))'))
w('C17', 'denom appended raw instead of as a digest (concatenation ambiguity)', 'C17.R1',
  (OT, '\tseed = append(seed, denomDigest[:]...)\n', '\tseed = append(seed, []byte(denom)...)\n\t_ = denomDigest\n'))
w('C17', 'L2 denom prefix "L2/"', 'C17.R1',
  (DN, 'const L2_DENOM_PREFIX = "l2/"', 'const L2_DENOM_PREFIX = "L2/"'))
w('C17', 'L2 denom hashes the denom before the bridge id', 'C17.R1',
  (DN, '\tbz = binary.BigEndian.AppendUint64(bz, bridgeId)\n\tbz = append(bz, []byte(l1Denom)...)\n', '\tbz = append(bz, []byte(l1Denom)...)\n\tbz = binary.BigEndian.AppendUint64(bz, bridgeId)\n'))
w('C17', 'L2 denom hex upper-case verb %X', 'C17.R1',
  (DN, 'return fmt.Sprintf("%s%x", L2_DENOM_PREFIX, hash[:])', 'return fmt.Sprintf("%s%X", L2_DENOM_PREFIX, hash[:])'))
w('C17', 'output root places the block hash before the storage root', 'C17.R1',
  (OT, '\tcopy(seed[1:], storageRoot[:32])\n\tcopy(seed[1+32:], latestBlockHash[:32])', '\tcopy(seed[1:], latestBlockHash[:32])\n\tcopy(seed[1+32:], storageRoot[:32])'))
w('C17', 'bridge address seeded little-endian', 'C17.R1',
  (AU, 'binary.BigEndian.PutUint64(seed, bridgeId)', 'binary.LittleEndian.PutUint64(seed, bridgeId)'))
w('C17', 'node hash not symmetric (always a‖b)', 'C17.R2',
  (OT, '\t\tdata = sha3.Sum256(append(append(buf, b...), a...))', '\t\tdata = sha3.Sum256(append(append(buf, a...), b...))'))
w('C17', 'node hash leaves the equal case unhandled (zero digest)', 'C17.R2',
  (OT, '\tcase 0, 1: // equal or greater', '\tcase 1: // greater'))
w('C17', 'root fold skips the first proof item', 'C17.R2',
  (OT, '\tfor _, proof := range proofs {\n\t\tdata = GenerateNodeHash(data[:], proof)\n\t}', '\tfor i, proof := range proofs {\n\t\tif i == 0 {\n\t\t\tcontinue\n\t\t}\n\t\tdata = GenerateNodeHash(data[:], proof)\n\t}'))
w('C17', 'root fold hashes the proof list right-to-left', 'C17.R2',
  (OT, '\tfor _, proof := range proofs {\n\t\tdata = GenerateNodeHash(data[:], proof)\n\t}', '\tfor i := len(proofs) - 1; i >= 0; i-- {\n\t\tdata = GenerateNodeHash(data[:], proofs[i])\n\t}'))
w('C17', '(repaired tree) append(b, a...) re-introduced', 'C17.R3',
  (OT, '\t\tdata = sha3.Sum256(append(append(buf, b...), a...))', '\t\tdata = sha3.Sum256(append(b, a...))'))
w('C17', 'output root normalises its input in place (writes caller bytes)', 'C17.R3',
  (OT, '\tseed := make([]byte, 1+32+32)\n', '\tstorageRoot[0] &= 0x7f\n\tseed := make([]byte, 1+32+32)\n'))
w('C17', 'leaf hash salted with a package-level variable', 'C17.R4',
  (OT, 'func GenerateWithdrawalHash(', 'var leafSalt uint64\n\nfunc GenerateWithdrawalHash('),
  (OT, 'seed = binary.BigEndian.AppendUint64(seed, bridgeId)\n\tseed = binary.BigEndian.AppendUint64(seed, l2Sequence)', 'seed = binary.BigEndian.AppendUint64(seed, bridgeId+leafSalt)\n\tseed = binary.BigEndian.AppendUint64(seed, l2Sequence)'))
w('C17', 'BENIGN: leaf seed built in a pre-sized buffer with PutUint64 + copy', '',
  (OT, '\tvar withdrawalHash [32]byte\n\tseed := []byte{}\n\tseed = binary.BigEndian.AppendUint64(seed, bridgeId)\n\tseed = binary.BigEndian.AppendUint64(seed, l2Sequence)\n\n\t// variable length\n\tsenderDigest := sha3.Sum256([]byte(sender))\n\tseed = append(seed, senderDigest[:]...) // put utf8 encoded address\n\t// variable length\n\treceiverDigest := sha3.Sum256([]byte(receiver))\n\tseed = append(seed, receiverDigest[:]...) // put utf8 encoded address\n\t// variable length\n\tdenomDigest := sha3.Sum256([]byte(denom))\n\tseed = append(seed, denomDigest[:]...)\n\tseed = binary.BigEndian.AppendUint64(seed, amount)\n',
       '\tvar withdrawalHash [32]byte\n\tseed := make([]byte, 8+8+32+32+32+8)\n\tbinary.BigEndian.PutUint64(seed[0:], bridgeId)\n\tbinary.BigEndian.PutUint64(seed[8:], l2Sequence)\n\tsd := sha3.Sum256([]byte(sender))\n\tcopy(seed[16:], sd[:])\n\trd := sha3.Sum256([]byte(receiver))\n\tcopy(seed[48:], rd[:])\n\tdd := sha3.Sum256([]byte(denom))\n\tcopy(seed[80:], dd[:])\n\tbinary.BigEndian.PutUint64(seed[112:], amount)\n'))
w('C17', 'BENIGN: root fold as an indexed loop', '',
  (OT, '\tfor _, proof := range proofs {\n\t\tdata = GenerateNodeHash(data[:], proof)\n\t}', '\tfor i := 0; i < len(proofs); i++ {\n\t\tdata = GenerateNodeHash(data[:], proofs[i])\n\t}'))
w('C17', 'BENIGN: node hash with capacity-clipped append', '',
  (OT, '\t\tdata = sha3.Sum256(append(append(buf, b...), a...))', '\t\tdata = sha3.Sum256(append(b[:len(b):len(b)], a...))'))


VS='x/opchild/keeper/val_state_change.go'
VK='x/opchild/keeper/validator.go'
EC='x/opchild/keeper/executor_change.go'
PK='x/opchild/keeper/params.go'
AB='x/opchild/abci.go'
GK='x/opchild/keeper/genesis.go'
# ---------------- C13
w('C13', 'AddValidator drops the consensus-key index entry', 'C13.R2',
  (CM, '\tif err = ms.SetValidatorByConsAddr(ctx, validator); err != nil {\n\t\treturn nil, err\n\t}\n\n\tsdkCtx.EventManager().EmitEvents(sdk.Events{\n\t\tsdk.NewEvent(\n\t\t\ttypes.EventTypeAddValidator,', '\tsdkCtx.EventManager().EmitEvents(sdk.Events{\n\t\tsdk.NewEvent(\n\t\t\ttypes.EventTypeAddValidator,'))
w('C13', 'AddValidator drops the consensus-key uniqueness check', 'C13.R3',
  (CM, '\tif _, found := ms.GetValidatorByConsAddr(ctx, sdk.GetConsAddress(pk)); found {\n\t\treturn nil, types.ErrValidatorPubKeyExists\n\t}\n', ''))
w('C13', 'AddValidator drops the operator uniqueness check', 'C13.R3',
  (CM, '\tif _, found := ms.GetValidator(ctx, valAddr); found {\n\t\treturn nil, types.ErrValidatorOwnerExists\n\t}\n', ''))
w('C13', 'AddValidator capacity check off by one (<= -> <)', 'C13.R3',
  (CM, '\tif int(numMaxValidators) <= len(allValidators) {', '\tif int(numMaxValidators) < len(allValidators) {'))
w('C13', 'removal pass drops DeleteLastValidatorPower', 'C13.R4',
  (VS, '\t\tif err := k.DeleteLastValidatorPower(ctx, valAddr); err != nil {\n\t\t\treturn nil, err\n\t\t}\n', ''))
w('C13', 'power update appended without recording the last power', 'C13.R4',
  (VS, '\t\t\tif err := k.SetLastValidatorPower(ctx, valAddr, newPower); err != nil {\n\t\t\t\treturn nil, err\n\t\t\t}\n', '\t\t\t_ = valAddr\n'))
w('C13', 'bonded validators are not deleted from the last map', 'C13.R4',
  (VS, '\t\tdelete(last, validator.GetOperator())\n', ''))
w('C13', 'removal pass tolerates positive power', 'C13.R4',
  (VS, '\t\tif validator.ConsPower > 0 {\n\t\t\treturn nil, errors.New("deleting validator cannot have positive power")\n\t\t}\n', ''),
  (VS, '\t"errors"\n', ''))
w('C13', 'last power recorded for another validator (first in the list)', 'C13.R4',
  (VS, 'if err := k.SetLastValidatorPower(ctx, valAddr, newPower); err != nil {', 'if err := k.SetLastValidatorPower(ctx, sdk.ValAddress(validators[0].GetOperator()), newPower); err != nil {'))
w('C13', '(repaired tree) purge of never-bonded zero-power records removed', 'C13.R5',
  (VS, '\t\t\tif !found {\n\t\t\t\tif err := k.RemoveValidator(ctx, valAddr); err != nil {\n\t\t\t\t\treturn nil, err\n\t\t\t\t}\n\t\t\t}\n', ''))
w('C13', 'RemoveValidator keeps the consensus-key index entry', 'C13.R2',
  (VK, '\tif err := k.ValidatorsByConsAddr.Remove(ctx, valConsAddr); err != nil {\n\t\treturn err\n\t}\n', '\t_ = valConsAddr\n'))
w('C13', 'SetParams capacity check dropped', 'C13.R6',
  (PK, '\tif int(params.MaxValidators) < len(allValidators) {\n\t\treturn types.ErrMaxValidatorsLowerThanCurrent\n\t}\n', '\t_ = allValidators\n'))
w('C13', 'exported genesis replays the record power instead of the last power', 'C13.R7',
  (GK, '\t\t\tupdate.Power = lv.Power // keep the next-val-set offset, use the last power for the first block\n', ''))
w('C13', 'UpdateOracle deletes a validator record directly (new remover)', 'C13.R1',
  (CM, '\t// config check\n', '\t_ = ms.Validators.Remove(ctx, []byte(req.Sender))\n\t// config check\n'))
w('C13', 'BENIGN: zero-power branch restructured (found computed after the check)', '',
  (VS, '\t\t\tif !found {\n\t\t\t\tif err := k.RemoveValidator(ctx, valAddr); err != nil {\n\t\t\t\t\treturn nil, err\n\t\t\t\t}\n\t\t\t}\n\n\t\t\tcontinue', '\t\t\tif found {\n\t\t\t\tcontinue\n\t\t\t}\n\t\t\tif err := k.RemoveValidator(ctx, valAddr); err != nil {\n\t\t\t\treturn nil, err\n\t\t\t}\n\t\t\tcontinue'))

# ---------------- C14
w('C14', 'plan looked up at height+1', 'C14.R2',
  (AB, 'k.ExecutorChangePlans[uint64(height)]', 'k.ExecutorChangePlans[uint64(height)+1]'))
w('C14', 'validator updates computed before the plan is applied', 'C14.R2',
  (AB, '\tif plan, found := k.ExecutorChangePlans[uint64(height)]; found { //nolint:gosec\n\t\terr := k.ChangeExecutor(ctx, plan)\n\t\tif err != nil {\n\t\t\treturn nil, err\n\t\t}\n\t}\n\n\treturn k.BlockValidatorUpdates(ctx)', '\tupdates, uerr := k.BlockValidatorUpdates(ctx)\n\tif plan, found := k.ExecutorChangePlans[uint64(height)]; found { //nolint:gosec\n\t\terr := k.ChangeExecutor(ctx, plan)\n\t\tif err != nil {\n\t\t\treturn nil, err\n\t\t}\n\t}\n\n\treturn updates, uerr'))
w('C14', 'ChangeExecutor error swallowed', 'C14.R2',
  (AB, '\t\terr := k.ChangeExecutor(ctx, plan)\n\t\tif err != nil {\n\t\t\treturn nil, err\n\t\t}', '\t\t_ = k.ChangeExecutor(ctx, plan)'))
w('C14', 'plan registered before the pubkey is validated', 'C14.R1',
  (EC, '\tvar pubKey cryptotypes.PubKey\n', '\tk.ExecutorChangePlans[height] = types.ExecutorChangePlan{ProposalID: proposalID, Height: height}\n\tvar pubKey cryptotypes.PubKey\n'))
w('C14', 'duplicate height check removed', 'C14.R1',
  (EC, '\tif _, found := k.ExecutorChangePlans[height]; found {\n\t\treturn types.ErrAlreadyRegisteredHeight\n\t}\n', ''))
w('C14', 'executor addresses not validated at registration', 'C14.R1',
  (EC, '\t\t_, err = k.addressCodec.StringToBytes(nextExecutor)\n\t\tif err != nil {\n\t\t\treturn err\n\t\t}', '\t\t_ = nextExecutor'))
w('C14', 'zero proposal id accepted', 'C14.R1',
  (EC, '\tif proposalID <= 0 {\n\t\treturn errorsmod.Wrap(types.ErrInvalidExecutorChangePlan, "invalid proposal id")\n\t}\n', ''))
w('C14', 'walk stops after the first validator', 'C14.R3',
  (EC, '\t\terr = k.Validators.Set(ctx, key, validator)\n\t\treturn false, err', '\t\terr = k.Validators.Set(ctx, key, validator)\n\t\treturn true, err'))
w('C14', 'walk halves the power instead of zeroing it', 'C14.R3',
  (EC, '\t\tvalidator.ConsPower = 0\n', '\t\tvalidator.ConsPower = validator.ConsPower / 2\n'))
w('C14', 'plan validator not indexed by consensus key', 'C14.R3',
  (EC, '\tif err = k.SetValidatorByConsAddr(ctx, plan.NextValidator); err != nil {\n\t\treturn err\n\t}\n', ''))
w('C14', 'executor list appended instead of replaced', 'C14.R3',
  (EC, '\tparams.BridgeExecutors = plan.NextExecutors\n', '\tparams.BridgeExecutors = append(params.BridgeExecutors, plan.NextExecutors...)\n'))
w('C14', '(repaired tree) ChangeExecutor goes through SetParams again', 'C14.R4',
  (EC, '\tif err := k.Params.Set(ctx, params); err != nil {', '\tif err := k.SetParams(ctx, params); err != nil {'))
w('C14', 'ChangeExecutor rejects plans when the validator cap is reached', 'C14.R4',
  (EC, '\tif err := k.SetValidator(ctx, plan.NextValidator); err != nil {', '\tif vs, _ := k.GetAllValidators(ctx); len(vs) > 100 {\n\t\treturn types.ErrMaxValidatorsExceeded\n\t}\n\tif err := k.SetValidator(ctx, plan.NextValidator); err != nil {'))
w('C14', 'BENIGN: plan lookup hoisted into a local before the if', '',
  (AB, '\tif plan, found := k.ExecutorChangePlans[uint64(height)]; found { //nolint:gosec\n', '\th := uint64(height) //nolint:gosec\n\tplan, found := k.ExecutorChangePlans[h]\n\tif found {\n'))


BH='x/ophost/types/hook/bridge_hook.go'
HU='x/ophost/types/hook/utils.go'
HK='x/ophost/types/hooks.go'
# ---------------- C19
w('C19', 'fresh-channel check seq != 1 -> seq == 0', 'C19.R2',
  (BH, '\t} else if seq != 1 {', '\t} else if seq == 0 {'))
w('C19', 'IsTaken check dropped', 'C19.R2',
  (BH, '\t} else if taken {\n\t\treturn channeltypes.ErrChannelExists.Wrap("cannot register ibcperm admin for the channel in use")\n\t}', '\t} else if taken && false {\n\t\treturn channeltypes.ErrChannelExists.Wrap("cannot register ibcperm admin for the channel in use")\n\t}'))
w('C19', 'missing channel tolerated', 'C19.R2',
  (BH, '\tif seq, ok := h.IBCChannelKeeper.GetNextSequenceSend(ctx, portID, channelID); !ok {\n\t\treturn channeltypes.ErrChannelNotFound.Wrap("failed to register ibcperm admin")\n\t} else if seq != 1 {', '\tif seq, ok := h.IBCChannelKeeper.GetNextSequenceSend(ctx, portID, channelID); ok && seq != 1 {'))
w('C19', 'freshness checked for a different channel than the one granted', 'C19.R2',
  (BH, 'h.IBCChannelKeeper.GetNextSequenceSend(ctx, portID, channelID)', 'h.IBCChannelKeeper.GetNextSequenceSend(ctx, portID, "channel-0")'))
w('C19', 'DisallowUnknownFields removed', 'C19.R3',
  (HU, '\tdecoder.DisallowUnknownFields()\n', ''))
w('C19', 'decode error ignored (returns true)', 'C19.R3',
  (HU, '\tif err := decoder.Decode(&data); err != nil {\n\t\treturn false, data\n\t}', '\t_ = decoder.Decode(&data)'))
w('C19', 'key probe dropped', 'C19.R3',
  (HU, '\tif !jsonStringHasKey(string(metadata), permsMetadataKey) {\n\t\treturn false, data\n\t}\n', ''))
w('C19', 'BridgeCreated registers without the metadata gate', 'C19.R3',
  (BH, 'func (h BridgeHook) BridgeCreated(\n\tctx context.Context,\n\tbridgeId uint64,\n\tbridgeConfig ophosttypes.BridgeConfig,\n) error {\n\thasPermChannels, metadata := hasPermChannels(bridgeConfig.Metadata)\n\tif !hasPermChannels {\n\t\treturn nil\n\t}', 'func (h BridgeHook) BridgeCreated(\n\tctx context.Context,\n\tbridgeId uint64,\n\tbridgeConfig ophosttypes.BridgeConfig,\n) error {\n\t_, metadata := hasPermChannels(bridgeConfig.Metadata)'))
w('C19', 'MetadataUpdated re-registers even when the challenger is already admin (skip removed)', 'C19.R3',
  (BH, '\t\t} else if hasPerm {\n\t\t\tcontinue\n\t\t}', '\t\t} else if hasPerm && false {\n\t\t\tcontinue\n\t\t}'))
w('C19', 'ChallengerUpdated grants the proposer', 'C19.R3',
  (BH, 'func (h BridgeHook) BridgeChallengerUpdated(\n\tctx context.Context,\n\tbridgeId uint64,\n\tbridgeConfig ophosttypes.BridgeConfig,\n) error {\n\thasPermChannels, metadata := hasPermChannels(bridgeConfig.Metadata)\n\tif !hasPermChannels {\n\t\treturn nil\n\t}\n\n\tchallenger, err := h.ac.StringToBytes(bridgeConfig.Challenger)', 'func (h BridgeHook) BridgeChallengerUpdated(\n\tctx context.Context,\n\tbridgeId uint64,\n\tbridgeConfig ophosttypes.BridgeConfig,\n) error {\n\thasPermChannels, metadata := hasPermChannels(bridgeConfig.Metadata)\n\tif !hasPermChannels {\n\t\treturn nil\n\t}\n\n\tchallenger, err := h.ac.StringToBytes(bridgeConfig.Proposer)'))
w('C19', 'hook error ignored in UpdateMetadata', 'C19.R4',
  (HM, '\tif err := ms.Keeper.bridgeHook.BridgeMetadataUpdated(ctx, bridgeId, config); err != nil {\n\t\treturn nil, err\n\t}', '\t_ = ms.Keeper.bridgeHook.BridgeMetadataUpdated(ctx, bridgeId, config)'))
w('C19', 'UpdateChallenger runs the hook with the old challenger', 'C19.R4',
  (HM, '\tconfig.Challenger = req.Challenger\n\tif err := ms.Keeper.bridgeHook.BridgeChallengerUpdated(ctx, bridgeId, config); err != nil {\n\t\treturn nil, err\n\t}', '\tif err := ms.Keeper.bridgeHook.BridgeChallengerUpdated(ctx, bridgeId, config); err != nil {\n\t\treturn nil, err\n\t}\n\tconfig.Challenger = req.Challenger'))
w('C19', 'UpdateMetadata stores the config before the hook', 'C19.R4',
  (HM, '\tconfig.Metadata = req.Metadata\n\tif err := ms.Keeper.bridgeHook.BridgeMetadataUpdated(ctx, bridgeId, config); err != nil {\n\t\treturn nil, err\n\t}\n\n\tif err := ms.SetBridgeConfig(ctx, bridgeId, config); err != nil {\n\t\treturn nil, err\n\t}', '\tconfig.Metadata = req.Metadata\n\tif err := ms.SetBridgeConfig(ctx, bridgeId, config); err != nil {\n\t\treturn nil, err\n\t}\n\tif err := ms.Keeper.bridgeHook.BridgeMetadataUpdated(ctx, bridgeId, config); err != nil {\n\t\treturn nil, err\n\t}'))
w('C19', 'fan-out ignores hook errors for BridgeCreated', 'C19.R4',
  (HK, 'func (hooks BridgeHooks) BridgeCreated(\n\tctx context.Context,\n\tbridgeId uint64,\n\tbridgeConfig BridgeConfig,\n) error {\n\tfor _, h := range hooks {\n\t\tif err := h.BridgeCreated(ctx, bridgeId, bridgeConfig); err != nil {\n\t\t\treturn err\n\t\t}\n\t}', 'func (hooks BridgeHooks) BridgeCreated(\n\tctx context.Context,\n\tbridgeId uint64,\n\tbridgeConfig BridgeConfig,\n) error {\n\tfor _, h := range hooks {\n\t\t_ = h.BridgeCreated(ctx, bridgeId, bridgeConfig)\n\t}'))
w('C19', 'new SetAdmin site: ProposerUpdated hands channels to the proposer', 'C19.R1',
  (BH, 'func (h BridgeHook) BridgeProposerUpdated(\n\tctx context.Context,\n\tbridgeId uint64,\n\tbridgeConfig ophosttypes.BridgeConfig,\n) error {\n\treturn nil', 'func (h BridgeHook) BridgeProposerUpdated(\n\tctx context.Context,\n\tbridgeId uint64,\n\tbridgeConfig ophosttypes.BridgeConfig,\n) error {\n\tif ok, md := hasPermChannels(bridgeConfig.Metadata); ok {\n\t\tfor _, pc := range md.PermChannels {\n\t\t\t_ = h.IBCPermKeeper.SetAdmin(ctx, pc.PortID, pc.ChannelID, sdk.AccAddress(bridgeConfig.Proposer))\n\t\t}\n\t}\n\treturn nil'))
w('C19', 'BENIGN: registerChannelAdmin with separated statements', '',
  (BH, '\tif seq, ok := h.IBCChannelKeeper.GetNextSequenceSend(ctx, portID, channelID); !ok {\n\t\treturn channeltypes.ErrChannelNotFound.Wrap("failed to register ibcperm admin")\n\t} else if seq != 1 {\n\t\treturn channeltypes.ErrChannelExists.Wrap("cannot register ibcperm admin for the channel in use")\n\t}', '\tnextSeq, exists := h.IBCChannelKeeper.GetNextSequenceSend(ctx, portID, channelID)\n\tif !exists {\n\t\treturn channeltypes.ErrChannelNotFound.Wrap("failed to register ibcperm admin")\n\t}\n\tif nextSeq > 1 || nextSeq < 1 {\n\t\treturn channeltypes.ErrChannelExists.Wrap("cannot register ibcperm admin for the channel in use")\n\t}'))


FE='x/opchild/ante/fee.go'
FU='x/opchild/ante/fee_utils.go'
AN='x/opchild/ante/ante.go'
LS='x/opchild/lanes/system.go'
LF='x/opchild/lanes/free.go'
# ---------------- C20
w('C20', 'IsAnyGTE -> IsAllGTE', 'C20.R1',
  (FE, 'if !feeCoins.IsAnyGTE(requiredFees) {', 'if !feeCoins.IsAllGTE(requiredFees) {'))
w('C20', 'combined prices: LT -> GT (takes the smaller price)', 'C20.R1',
  (FU, '} else if minGasPrices.AmountOf(cmgp.Denom).LT(cmgp.Amount) {', '} else if minGasPrices.AmountOf(cmgp.Denom).GT(cmgp.Amount) {'))
w('C20', 'combined prices: zero node price keeps zero (chain floor ignored)', 'C20.R1',
  (FU, '\t\tif minGasPrices.AmountOf(cmgp.Denom).IsZero() {\n\t\t\tminGasPrices = minGasPrices.Add(cmgp)\n\t\t} else if', '\t\tif minGasPrices.AmountOf(cmgp.Denom).IsZero() {\n\t\t\tcontinue\n\t\t} else if'))
w('C20', 'required fee truncated instead of rounded up', 'C20.R1',
  (FU, 'sdk.NewCoin(gp.Denom, fee.Ceil().RoundInt())', 'sdk.NewCoin(gp.Denom, fee.TruncateInt())'))
w('C20', 'fee floor enforced in DeliverTx too', 'C20.R1',
  (FE, '\tif ctx.IsCheckTx() {', '\tif ctx.IsCheckTx() || !ctx.IsReCheckTx() {'))
w('C20', 'chain min gas prices ignored', 'C20.R1',
  (FE, '\t\t\tminGasPrices = CombinedMinGasPrices(minGasPrices, paramsMinGasPrices)', '\t\t\t_ = paramsMinGasPrices'))
w('C20', 'required fee computed with gas 1', 'C20.R1',
  (FE, 'requiredFees := computeRequiredFees(gas, minGasPrices)', 'requiredFees := computeRequiredFees(1, minGasPrices)\n\t\t\t_ = gas'))
w('C20', 'system lane accepts any non-empty tx whose first... len != 1 -> len == 0', 'C20.R2',
  (LS, '\t\tif len(tx.GetMsgs()) != 1 {', '\t\tif len(tx.GetMsgs()) == 0 {'))
w('C20', 'system lane accepts MsgExec with several inner messages', 'C20.R2',
  (LS, 'if err != nil || len(msgs) != 1 {', 'if err != nil || len(msgs) < 1 {'))
w('C20', 'system lane does not look inside MsgExec', 'C20.R2',
  (LS, '\t\t\t\t} else if _, ok := msgs[0].(*types.MsgUpdateOracle); !ok {\n\t\t\t\t\treturn false\n\t\t\t\t}', '\t\t\t\t}'))
w('C20', 'system lane default branch accepts unknown messages', 'C20.R2',
  (LS, '\t\t\tdefault:\n\t\t\t\treturn false', '\t\t\tdefault:'))
w('C20', 'free lane matches any whitelist entry when the payer cannot be encoded', 'C20.R3',
  (LF, '\t\t} else if payer, err := h.ac.BytesToString(feeTx.FeePayer()); err != nil {\n\t\t\treturn false', '\t\t} else if payer, err := h.ac.BytesToString(feeTx.FeePayer()); err != nil {\n\t\t\treturn len(whitelist) > 0'))
w('C20', 'free lane returns true for an empty whitelist', 'C20.R3',
  (LF, '\t\t\tfor _, addr := range whitelist {\n\t\t\t\tif addr == payer || addr == granter {\n\t\t\t\t\treturn true\n\t\t\t\t}\n\t\t\t}\n\t\t}\n\n\t\treturn false', '\t\t\tfor _, addr := range whitelist {\n\t\t\t\tif addr == payer || addr == granter {\n\t\t\t\t\treturn true\n\t\t\t\t}\n\t\t\t}\n\t\t}\n\n\t\treturn true'))
w('C20', 'free lane compares != instead of ==', 'C20.R3',
  (LF, 'if addr == payer || addr == granter {', 'if addr != payer || addr == granter {'))
w('C20', 'redundancies counted for every deposit message', 'C20.R4',
  (AN, '\t\t\t\tif response.Result == types.NOOP {\n\t\t\t\t\tredundancies++\n\t\t\t\t}', '\t\t\t\tredundancies++\n\t\t\t\t_ = response'))
w('C20', 'redundancy filter also active in DeliverTx', 'C20.R4',
  (AN, 'if (ctx.IsCheckTx() || ctx.IsReCheckTx()) && !simulate {', 'if !simulate {'))
w('C20', 'txs without deposit messages rejected as redundant (packetMsgs > 0 dropped)', 'C20.R4',
  (AN, 'if redundancies == packetMsgs && packetMsgs > 0 {', 'if redundancies == packetMsgs {'))
w('C20', 'redundant tx passes (next called anyway)', 'C20.R4',
  (AN, '\t\t\treturn ctx, types.ErrRedundantTx\n', '\t\t\t_ = types.ErrRedundantTx\n'))
w('C20', 'BENIGN: fee floor combination with explicit GTE ordering of branches', '',
  (FU, '\t\tif minGasPrices.AmountOf(cmgp.Denom).IsZero() {\n\t\t\tminGasPrices = minGasPrices.Add(cmgp)\n\t\t} else if minGasPrices.AmountOf(cmgp.Denom).LT(cmgp.Amount) {\n\t\t\tminGasPrices = minGasPrices.Add(cmgp.Sub(sdk.NewDecCoinFromDec(cmgp.Denom, minGasPrices.AmountOf(cmgp.Denom))))\n\t\t} // else, GTE, use the original minGasPrice {',
       '\t\tcurrent := minGasPrices.AmountOf(cmgp.Denom)\n\t\tif current.IsZero() {\n\t\t\tminGasPrices = minGasPrices.Add(cmgp)\n\t\t\tcontinue\n\t\t}\n\t\tif current.GTE(cmgp.Amount) {\n\t\t\tcontinue\n\t\t}\n\t\tminGasPrices = minGasPrices.Add(cmgp.Sub(sdk.NewDecCoinFromDec(cmgp.Denom, minGasPrices.AmountOf(cmgp.Denom))))'))


OR='x/opchild/keeper/oracle.go'
LU='x/opchild/l2connect/utils.go'
LA='x/opchild/l2connect/aggregator.go'
HS='x/opchild/keeper/host_validator_store.go'
# ---------------- C15
w('C15', 'signature verification deleted', 'C15.R3',
  (LU, '\t\tif !cmtPubKey.VerifySignature(extSignBytes, vote.ExtensionSignature) {\n\t\t\treturn fmt.Errorf("failed to verify validator %X vote extension signature", valConsAddr)\n\t\t}\n', '\t\t_ = cmtPubKey\n\t\t_ = extSignBytes\n'))
w('C15', 'power counted before the commit-flag test', 'C15.R3',
  (LU, '\t\tif vote.BlockIdFlag == cmtproto.BlockIDFlagCommit && len(vote.ExtensionSignature) == 0 {', '\t\tsumVP += power.Int64()\n\t\tif vote.BlockIdFlag == cmtproto.BlockIDFlagCommit && len(vote.ExtensionSignature) == 0 {'))
w('C15', 'unknown validators counted with power from the vote', 'C15.R3',
  (LU, '\t\t\t// use only current validator set, so ignore if the validator of the vote is not in the set.\n\t\t\tcontinue', '\t\t\t// use only current validator set, so ignore if the validator of the vote is not in the set.\n\t\t\tsumVP += vote.Validator.Power\n\t\t\tcontinue'))
w('C15', 'sign bytes omit the chain id', 'C15.R3',
  (LU, '\t\t\tChainId:   chainID,\n', ''))
w('C15', 'sign bytes use the round of the vote-local constant 0', 'C15.R3',
  (LU, '\t\t\tRound:     int64(extCommit.Round),\n', '\t\t\tRound:     0,\n'))
w('C15', 'signature checked against the extension of the first vote', 'C15.R3',
  (LU, '\t\t\tExtension: vote.VoteExtension,\n', '\t\t\tExtension: extCommit.Votes[0].VoteExtension,\n'))
w('C15', 'quorum weakened to one third', 'C15.R3',
  (LU, 'if requiredVP := ((totalVP * 2) / 3) + 1; sumVP < requiredVP {', 'if requiredVP := (totalVP / 3) + 1; sumVP < requiredVP {'))
w('C15', 'quorum comparison < -> <= removed +1 (exactly two thirds rejected... inverted)', 'C15.R3',
  (LU, 'if requiredVP := ((totalVP * 2) / 3) + 1; sumVP < requiredVP {', 'if requiredVP := ((totalVP * 2) / 3) + 1; sumVP > requiredVP {'))
w('C15', 'votes validated for height h instead of h-1', 'C15.R2',
  (OR, 'l2connect.ValidateVoteExtensions(sdkCtx, k.HostValidatorStore, h-1, hostChainID, extendedCommitInfo)', 'l2connect.ValidateVoteExtensions(sdkCtx, k.HostValidatorStore, h, hostChainID, extendedCommitInfo)'))
w('C15', 'validation error ignored', 'C15.R2',
  (OR, '\terr = l2connect.ValidateVoteExtensions(sdkCtx, k.HostValidatorStore, h-1, hostChainID, extendedCommitInfo)\n\tif err != nil {\n\t\treturn err\n\t}\n', '\t_ = l2connect.ValidateVoteExtensions(sdkCtx, k.HostValidatorStore, h-1, hostChainID, extendedCommitInfo)\n'))
w('C15', 'height gate dropped', 'C15.R2',
  (OR, '\tif hostStoreLastHeight > h {\n\t\treturn types.ErrInvalidOracleHeight\n\t}\n', '\t_ = hostStoreLastHeight\n'))
w('C15', 'missing timestamp tolerated (current block time used)', 'C15.R2',
  (OR, '\tif _, ok := prices[tsCp]; !ok {\n\t\treturn types.ErrOracleTimestampNotExists\n\t}\n', ''))
w('C15', 'timestamp check !After -> Before (equal timestamps replayable)', 'C15.R4',
  (LA, 'if err == nil && !updatedTime.After(qp.BlockTimestamp) {', 'if err == nil && updatedTime.Before(qp.BlockTimestamp) {'))
w('C15', 'timestamp check removed', 'C15.R4',
  (LA, '\t\tif err == nil && !updatedTime.After(qp.BlockTimestamp) {\n\t\t\treturn types.ErrInvalidOracleTimestamp\n\t\t}\n', '\t\t_, _ = qp, err\n'))
w('C15', 'prices written by ranging over the map', 'C15.R4',
  (LA, '\tcurrencyPairs := ok.GetAllCurrencyPairs(ctx)\n\tfor _, cp := range currencyPairs {\n\t\tprice, found := prices[cp]\n\t\tif !found || price == nil {\n\t\t\tcontinue\n\t\t}', '\tfor cp, price := range prices {\n\t\tif price == nil {\n\t\t\tcontinue\n\t\t}'))
w('C15', 'host set: lastHeight >= height -> > (same height replaces the set)', 'C15.R5',
  (HS, '\tif lastHeight >= height {', '\tif lastHeight > height {'))
w('C15', 'host set updated for any client id', 'C15.R5',
  (CK, '\t} else if l1ClientId != clientID {\n\t\treturn nil\n\t}', '\t} else if l1ClientId != clientID && false {\n\t\treturn nil\n\t}'))
w('C15', 'UpdateOracle handler ignores the oracle-enabled flag', 'C15.R1',
  (CM, '\tif !info.BridgeConfig.OracleEnabled {\n\t\treturn nil, types.ErrOracleDisabled\n\t}\n', '\t_ = info\n'))
w('C15', 'new writer: SetBridgeInfo wipes the host validator set', 'C15.R5',
  (CM, '\t// set bridge info\n', '\t_ = ms.HostValidatorStore.DeleteAllValidators(ctx)\n\t// set bridge info\n'))
w('C15', 'BENIGN: commit-flag test hoisted and power looked up afterwards', '',
  (LU, '\t\t// Only check + include power if the vote is a commit vote. There must be super-majority, otherwise the\n\t\t// previous block (the block vote is for) could not have been committed.\n\t\tif vote.BlockIdFlag != cmtproto.BlockIDFlagCommit {\n\t\t\tcontinue\n\t\t}\n', '\t\tisCommit := vote.BlockIdFlag == cmtproto.BlockIDFlagCommit\n\t\tif !isCommit {\n\t\t\tcontinue\n\t\t}\n'))


# ---------------- C18
w('C18', 'removals emitted while ranging over the last map (no sort)', 'C18.R1',
  (VS, '\tnoLongerBonded, err := sortNoLongerBonded(last, k.validatorAddressCodec)\n\tif err != nil {\n\t\treturn nil, err\n\t}\n\n\tfor _, valAddrBytes := range noLongerBonded {', '\tvar noLongerBonded [][]byte\n\tfor valAddrStr := range last {\n\t\tb, err := k.validatorAddressCodec.StringToBytes(valAddrStr)\n\t\tif err != nil {\n\t\t\treturn nil, err\n\t\t}\n\t\tnoLongerBonded = append(noLongerBonded, b)\n\t}\n\n\tfor _, valAddrBytes := range noLongerBonded {'))
w('C18', 'sortNoLongerBonded forgets to sort', 'C18.R1',
  (VS, '\tsort.SliceStable(noLongerBonded, func(i, j int) bool {\n\t\t// -1 means strictly less than\n\t\treturn bytes.Compare(noLongerBonded[i], noLongerBonded[j]) == -1\n\t})\n', ''),
  (VS, '\t"bytes"\n', ''),
  (VS, '\t"sort"\n', ''))
w('C18', 'events emitted inside a map range over registered plans', 'C18.R1',
  (AB, '\tsdkCtx := sdk.UnwrapSDKContext(ctx)\n\theight := sdkCtx.BlockHeight()\n', '\tsdkCtx := sdk.UnwrapSDKContext(ctx)\n\theight := sdkCtx.BlockHeight()\n\tfor h := range k.ExecutorChangePlans {\n\t\tsdkCtx.EventManager().EmitEvent(sdk.NewEvent("plan", sdk.NewAttribute("height", fmt.Sprint(h))))\n\t}\n'),
  (AB, 'import (\n\t"context"\n', 'import (\n\t"context"\n\t"fmt"\n'))
w('C18', 'time.Now() written into an event', 'C18.R2',
  (HM, '\t\t\tsdk.NewAttribute(types.AttributeKeySubmitter, req.Submitter),\n', '\t\t\tsdk.NewAttribute(types.AttributeKeySubmitter, req.Submitter),\n\t\t\tsdk.NewAttribute("at", time.Now().String()),\n'),
  (HM, '\t"strconv"\n', '\t"strconv"\n\t"time"\n'))
w('C18', 'random tie-break in the validator sort', 'C18.R2',
  (VS, '\t\treturn bytes.Compare(noLongerBonded[i], noLongerBonded[j]) == -1\n', '\t\tif bytes.Equal(noLongerBonded[i], noLongerBonded[j]) {\n\t\t\treturn rand.Intn(2) == 0\n\t\t}\n\t\treturn bytes.Compare(noLongerBonded[i], noLongerBonded[j]) == -1\n'),
  (VS, '\t"errors"\n', '\t"errors"\n\t"math/rand"\n'))
w('C18', 'package-level counter incremented in a handler', 'C18.R3',
  (HM, 'type MsgServer struct {\n\tKeeper\n}\n', 'type MsgServer struct {\n\tKeeper\n}\n\nvar batchesSeen uint64\n'),
  (HM, '\tsdk.UnwrapSDKContext(ctx).EventManager().EmitEvent(\n\t\tsdk.NewEvent(\n\t\t\ttypes.EventTypeRecordBatch,', '\tbatchesSeen++\n\tsdk.UnwrapSDKContext(ctx).EventManager().EmitEvent(\n\t\tsdk.NewEvent(\n\t\t\ttypes.EventTypeRecordBatch,'))
w('C18', 'in-memory plan map mutated by a message handler', 'C18.R3',
  (CM, '\t// config check\n', '\tms.ExecutorChangePlans[req.Height] = types.ExecutorChangePlan{Height: req.Height}\n\t// config check\n'))
w('C18', 'goroutine spawned in EndBlocker', 'C18.R2',
  (AB, '\tsdkCtx := sdk.UnwrapSDKContext(ctx)\n\theight := sdkCtx.BlockHeight()\n', '\tsdkCtx := sdk.UnwrapSDKContext(ctx)\n\theight := sdkCtx.BlockHeight()\n\tgo func() { _ = k.Logger(ctx) }()\n'))
w('C18', 'raw KV store iteration bypassing collections', 'C18.R4',
  ('x/ophost/keeper/keeper.go', 'func (k Keeper) GetAuthority() string {', 'func (k Keeper) RawHas(ctx context.Context, key []byte) bool {\n\tok, _ := k.storeService.OpenKVStore(ctx).Has(key)\n\treturn ok\n}\n\nfunc (k Keeper) GetAuthority() string {'))
w('C18', 'validator sort compares by length only (partial order)', 'C18.R5',
  (VS, '\t\treturn bytes.Compare(noLongerBonded[i], noLongerBonded[j]) == -1\n', '\t\treturn len(noLongerBonded[i]) < len(noLongerBonded[j])\n'),
  (VS, '\t"bytes"\n', ''))
w('C18', 'float arithmetic in the fee computation', 'C18.R2',
  (FU, '\t\t\tfee := gp.Amount.MulInt(math.NewIntFromUint64(gas))\n', '\t\t\tfee := gp.Amount.MulInt(math.NewIntFromUint64(uint64(float64(gas) * 1.0)))\n'))
w('C18', 'BENIGN: telemetry clock read stays in EndBlocker; sort uses bytes.Compare < 0', '',
  (VS, '\t\treturn bytes.Compare(noLongerBonded[i], noLongerBonded[j]) == -1\n', '\t\treturn bytes.Compare(noLongerBonded[i], noLongerBonded[j]) < 0\n'))


HG='x/ophost/keeper/genesis.go'
CG='x/opchild/keeper/genesis.go'
HTG='x/ophost/types/genesis.go'
# ---------------- C16
w('C16', 'TokenPairs omitted from the exported Bridge', 'C16.R2',
  (HG, '\t\t\tTokenPairs:        tokenPairs,\n', ''),
  (HG, '\t\tvar tokenPairs []types.TokenPair\n', '\t\tvar tokenPairs []types.TokenPair\n\t\t_ = tokenPairs\n'))
w('C16', 'import stores proposals under a loop counter instead of OutputIndex', 'C16.R3',
  (HG, '\t\tfor _, proposal := range bridge.Proposals {\n\t\t\tif err := k.SetOutputProposal(ctx, bridgeId, proposal.OutputIndex, proposal.OutputProposal); err != nil {', '\t\tfor i, proposal := range bridge.Proposals {\n\t\t\tif err := k.SetOutputProposal(ctx, bridgeId, uint64(i+1), proposal.OutputProposal); err != nil {'))
w('C16', 'opchild import skips SetNextL2Sequence', 'C16.R3',
  (CG, '\tif err := k.SetNextL2Sequence(ctx, data.NextL2Sequence); err != nil {\n\t\tpanic(err)\n\t}\n', ''))
w('C16', 'ophost import never restores claim records', 'C16.R1',
  (HG, '\t\tfor _, provenWithdrawal := range bridge.ProvenWithdrawals {\n\t\t\twithdrawalHash := [32]byte{}\n\t\t\tcopy(withdrawalHash[:], provenWithdrawal)\n\t\t\tif err := k.RecordProvenWithdrawal(ctx, bridgeId, withdrawalHash); err != nil {\n\t\t\t\tpanic(err)\n\t\t\t}\n\t\t}\n', ''))
w('C16', 'ophost export skips the batch info history', 'C16.R1',
  (HG, '\t\tvar batchInfos []types.BatchInfoWithOutput\n\t\tif err := k.IterateBatchInfos(ctx, bridgeId, func(key collections.Pair[uint64, uint64], batchInfo types.BatchInfoWithOutput) (stop bool, err error) {\n\t\t\tbatchInfos = append(batchInfos, batchInfo)\n\t\t\treturn false, nil\n\t\t}); err != nil {\n\t\t\treturn true, err\n\t\t}\n', '\t\tvar batchInfos []types.BatchInfoWithOutput\n'))
w('C16', 'token pair imported with swapped denoms', 'C16.R3',
  (HG, 'k.SetTokenPair(ctx, bridgeId, tokenPair.L2Denom, tokenPair.L1Denom)', 'k.SetTokenPair(ctx, bridgeId, tokenPair.L1Denom, tokenPair.L2Denom)'))
w('C16', 'next L1 sequence imported from NextOutputIndex', 'C16.R3',
  (HG, 'k.SetNextL1Sequence(ctx, bridgeId, bridge.NextL1Sequence)', 'k.SetNextL1Sequence(ctx, bridgeId, bridge.NextOutputIndex)'))
w('C16', 'proposals of every bridge imported under the first bridge id', 'C16.R3',
  (HG, 'k.SetOutputProposal(ctx, bridgeId, proposal.OutputIndex, proposal.OutputProposal)', 'k.SetOutputProposal(ctx, data.Bridges[0].BridgeId, proposal.OutputIndex, proposal.OutputProposal)'))
w('C16', 'exported proposals lose their index (OutputIndex unset)', 'C16.R2',
  (HG, '\t\t\t\tOutputIndex:    key.K2(),\n', ''))
w('C16', 'outputs exported in descending order', 'C16.R2',
  (HG, 'if err := k.IterateOutputProposals(ctx, bridgeId, func(key collections.Pair[uint64, uint64], output types.Output) (stop bool, err error) {', 'if err := k.ReverseIterateOutputProposals(ctx, bridgeId, func(key collections.Pair[uint64, uint64], output types.Output) (stop bool, err error) {'))
w('C16', 'opchild export forgets the Exported flag', 'C16.R2',
  (CG, '\t\tExported:            true,\n', ''))
w('C16', 'opchild export swaps denom and base denom', 'C16.R2',
  (CG, 'types.DenomPair{Denom: denom, BaseDenom: baseDenom}', 'types.DenomPair{Denom: baseDenom, BaseDenom: denom}'))
w('C16', 'opchild import does not rebuild the consensus-key index', 'C16.R1',
  (CG, '\t\t// Manually set indices for the first time\n\t\tif err := k.SetValidatorByConsAddr(ctx, validator); err != nil {\n\t\t\tpanic(err)\n\t\t}\n', ''))
w('C16', 'opchild export drops denom pairs', 'C16.R1',
  (CG, '\tvar denomPairs []types.DenomPair\n\terr = k.DenomPairs.Walk(ctx, nil, func(denom, baseDenom string) (stop bool, err error) {\n\t\tdenomPairs = append(denomPairs, types.DenomPair{Denom: denom, BaseDenom: baseDenom})\n\t\treturn false, nil\n\t})\n\tif err != nil {\n\t\tpanic(err)\n\t}\n', '\tvar denomPairs []types.DenomPair\n'))
w('C16', 'ValidateGenesis stops checking claim hash length', 'C16.R5',
  (HTG, '\t\t\tif len(withdrawalHash) != 32 {\n\t\t\t\treturn ErrInvalidHashLength\n\t\t\t}', '\t\t\t_ = withdrawalHash'))
w('C16', 'ValidateGenesis accepts bridge id 0', 'C16.R5',
  (HTG, '\t\tif bridge.BridgeId == 0 {\n\t\t\treturn ErrInvalidBridgeId\n\t\t}\n', ''))
w('C16', 'module ValidateGenesis ignores the validation result', 'C16.R5',
  ('x/ophost/module.go', '\treturn types.ValidateGenesis(&genState, b.cdc.InterfaceRegistry().SigningContext().AddressCodec())', '\t_ = types.ValidateGenesis(&genState, b.cdc.InterfaceRegistry().SigningContext().AddressCodec())\n\treturn nil'))
w('C16', '(repaired tree) deposits to unknown bridges create state export cannot see', 'C16.R4',
  (HM, '\tif _, err := ms.GetBridgeConfig(ctx, bridgeId); err != nil {\n\t\treturn nil, err\n\t}\n\n\tl1Sequence', '\tl1Sequence'))
w('C16', 'BENIGN: import loop uses an index variable', '',
  (HG, '\t\tfor _, tokenPair := range bridge.TokenPairs {\n\t\t\tif err := k.SetTokenPair(ctx, bridgeId, tokenPair.L2Denom, tokenPair.L1Denom); err != nil {', '\t\tfor i := 0; i < len(bridge.TokenPairs); i++ {\n\t\t\ttokenPair := bridge.TokenPairs[i]\n\t\t\tif err := k.SetTokenPair(ctx, bridgeId, tokenPair.L2Denom, tokenPair.L1Denom); err != nil {'))


# ---------------- seeded sub-agent changes as witnesses (seeded/<id>/patch.diff -> hunk edits)
import re, glob
def patch_edits(path):
    """Convert a unified diff into (relpath, old, new) edits, one per hunk; the hunk's position comes from its
    @@ header and the context is widened upwards until the old text is unique in /repo's file."""
    edits=[]; rel=None; hunks=[]
    cur=None
    for line in open(path):
        if line.startswith('diff --git'):
            rel=None
        elif line.startswith('+++ '):
            rel=line[4:].strip(); rel=rel[2:] if rel.startswith('b/') else rel
        elif line.startswith('--- ') or line.startswith('index ') or line.startswith('new file') or line.startswith('\\'):
            continue
        elif line.startswith('@@'):
            m=re.match(r'@@ -(\d+)', line)
            cur={'rel':rel,'start':int(m.group(1)),'old':[],'new':[]}; hunks.append(cur)
        elif cur is not None and rel is not None:
            if line.startswith('+'): cur['new'].append(line[1:])
            elif line.startswith('-'): cur['old'].append(line[1:])
            else:
                t=line[1:] if line.startswith(' ') else line
                cur['old'].append(t); cur['new'].append(t)
    for h in hunks:
        if not os.path.exists(os.path.join('/repo',h['rel'])):
            assert not h['old'], (path,h['rel'])
            edits.append((h['rel'],'',''.join(h['new'])))   # a file the patch adds
            continue
        src=open(os.path.join('/repo',h['rel'])).read()
        lines=src.splitlines(keepends=True)
        st=h['start']-1
        if ''.join(lines[st:st+len(h['old'])])!=''.join(h['old']):
            # the file moved under the patch (e.g. a later fix: commit): find the hunk by content, nearest to its old position
            cands=[k for k in range(len(lines)) if ''.join(lines[k:k+len(h['old'])])==''.join(h['old'])]
            assert cands, (path,h['rel'],h['start'])
            st=min(cands,key=lambda k:abs(k-st))
        old=''.join(h['old']); new=''.join(h['new']); k=st
        while src.count(old)!=1 and k>0:
            k-=1; old=lines[k]+old; new=lines[k]+new
        assert src.count(old)==1
        edits.append((h['rel'],old,new))
    return edits
def wseed(sid, expect, prop=None):
    d=os.path.join(HERE,'..','seeded',sid)
    meta=json.load(open(os.path.join(d,'meta.json')))
    prop=prop or meta['property']
    eds=patch_edits(os.path.join(d,'patch.diff'))
    # merge multiple hunks of one file so that each edit's old text is unique: verify against /repo
    for rel,old,new in eds:
        src=open(os.path.join('/repo',rel)).read()
        assert src.count(old)==1, (sid, rel, src.count(old))
    w(prop, 'SEEDED '+sid+': '+meta['summary'][:90].replace('\n',' '), expect, *eds, note='sub-agent change seeded/'+sid)
wseed('C01','C01.R4'); wseed('C02','C02.R1'); wseed('C03','C03.R1'); wseed('C04','C04.R5'); wseed('C05','C05.R4')
wseed('C06','C06.R2'); wseed('C07','C07.R2'); wseed('C08','C08.R4'); wseed('C09','C09.R4'); wseed('C10','C10.R1')
wseed('C11','C11.R2'); wseed('C12','C12.R6'); wseed('C13','C13.R3'); wseed('C14','C14.R6'); wseed('C14','C13.R5',prop='C13')
wseed('C15','C15.R3'); wseed('C16','C16.R6'); wseed('C17','C17.R3'); wseed('C18','C18.R6'); wseed('C19','C19.R3'); wseed('C20','C20.R1')
w('C15', 'non-commit votes may carry an extension (emptiness check dropped)', 'C15.R3',
  ('x/opchild/l2connect/utils.go', '\t\tif vote.BlockIdFlag != cmtproto.BlockIDFlagCommit && len(vote.VoteExtension) != 0 {', '\t\tif false && vote.BlockIdFlag != cmtproto.BlockIDFlagCommit && len(vote.VoteExtension) != 0 {'))
w('C15', 'commit votes with an empty signature are skipped instead of rejected', 'C15.R3',
  ('x/opchild/l2connect/utils.go', '\t\tif vote.BlockIdFlag == cmtproto.BlockIDFlagCommit && len(vote.ExtensionSignature) == 0 {\n\t\t\treturn fmt.Errorf("vote extension signature is missing; validator addr %s",\n\t\t\t\tvote.Validator.String(),\n\t\t\t)\n\t\t}', '\t\tif vote.BlockIdFlag == cmtproto.BlockIDFlagCommit && len(vote.ExtensionSignature) == 0 {\n\t\t\tcontinue\n\t\t}'))
w('C16', 'BENIGN: per-bridge claim slice pre-sized with make inside the callback', '',
  (HG, '\t\tvar provenWithdrawals [][]byte\n', '\t\tprovenWithdrawals := make([][]byte, 0, 8)\n'))
w('C16', 'token pairs accumulator reset by re-slicing a buffer captured from ExportGenesis', 'C16.R6',
  (HG, '\tvar bridges []types.Bridge\n', '\tvar bridges []types.Bridge\n\tvar tpBuf []types.TokenPair\n'),
  (HG, '\t\tvar tokenPairs []types.TokenPair\n', '\t\ttokenPairs := tpBuf[:0]\n'),
  (HG, '\t\tbridges = append(bridges, types.Bridge{', '\t\ttpBuf = tokenPairs\n\t\tbridges = append(bridges, types.Bridge{'))
HI='x/opchild/keeper/historical_info.go'
w('C13', 'historical pruning starts one height too low (one extra record survives)', 'C13.R9',
  (HI, 'for i := sdkCtx.BlockHeight() - int64(entryNum); i >= 0; i-- {', 'for i := sdkCtx.BlockHeight() - int64(entryNum) - 1; i >= 0; i-- {'))
w('C13', 'historical pruning removes at most one record per block', 'C13.R9',
  (HI, '\t\tif err := k.DeleteHistoricalInfo(ctx, i); err != nil {\n\t\t\treturn err\n\t\t}\n', '\t\tif err := k.DeleteHistoricalInfo(ctx, i); err != nil {\n\t\t\treturn err\n\t\t}\n\t\tbreak\n'))
w('C13', 'historical record lists all stored validators instead of the bonded set', 'C13.R9',
  (HI, 'lastVals, err := k.GetLastValidators(ctx)', 'lastVals, err := k.GetAllValidators(ctx)'))
w('C13', 'historical record stored under the previous height', 'C13.R9',
  (HI, 'return k.SetHistoricalInfo(ctx, sdkCtx.BlockHeight(), &historicalEntry)', 'return k.SetHistoricalInfo(ctx, sdkCtx.BlockHeight()-1, &historicalEntry)'))
w('C13', 'historical record written even with retention 0', 'C13.R9',
  (HI, '\tif entryNum == 0 {\n\t\treturn nil\n\t}\n', ''))
w('C13', 'historical record skips the first bonded validator', 'C13.R9',
  (HI, 'for _, v := range lastVals {', 'for _, v := range lastVals[min(1, len(lastVals)):] {'))
w('C13', 'RemoveValidator marks removal with power -1', 'C13.R10',
  (CM, '\tval.ConsPower = 0\n', '\tval.ConsPower = -1\n'))
w('C13', 'BENIGN: prune start computed into a local before the loop', '',
  (HI, 'for i := sdkCtx.BlockHeight() - int64(entryNum); i >= 0; i-- {', 'pruneFrom := sdkCtx.BlockHeight() - int64(entryNum)\n\tfor i := pruneFrom; i >= 0; i-- {'))
wseed('C01b','C01.R4'); wseed('C02b','C02.R6'); wseed('C02b','C16.R6',prop='C16'); wseed('C03b','C03.R4'); wseed('C04b','C04.R6'); wseed('C04b','C09.R6',prop='C09')
wseed('C05b','C05.R1'); wseed('C06b','C06.R2'); wseed('C07b','C07.R6'); wseed('C08b','C08.R5'); wseed('C08b','C17.R1',prop='C17'); wseed('C09b','C09.R3'); wseed('C10b','C10.R2')
wseed('C11b','C11.R2'); wseed('C12b','C12.R5'); wseed('C13b','C13.R5'); wseed('C14b','C14.R1'); wseed('C14b','C18.R3',prop='C18'); wseed('C15b','C15.R5')
wseed('C16b','C16.R2'); wseed('C17b','C17.R1'); wseed('C18b','C18.R3'); wseed('C19b','C19.R3'); wseed('C20b','C20.R4')
CG2='x/opchild/keeper/genesis.go'
w('C16', 'opchild export never exports the stored BridgeInfo', 'C16.R2',
  (CG2, '\t} else if ok {\n\t\tbridgeInfo_, err := k.BridgeInfo.Get(ctx)', '\t} else if ok && false {\n\t\tbridgeInfo_, err := k.BridgeInfo.Get(ctx)'))
w('C16', 'opchild export ignores the error of loading the params', 'C16.R7',
  (CG2, '\tparams, err := k.GetParams(ctx)\n\tif err != nil {\n\t\tpanic(err)\n\t}\n\n\tvalidators, err := k.GetAllValidators(ctx)', '\tparams, _ := k.GetParams(ctx)\n\n\tvalidators, err := k.GetAllValidators(ctx)'))
w('C16', 'ophost import ignores a failing token-pair write', 'C16.R7',
  (HG, '\t\t\tif err := k.SetTokenPair(ctx, bridgeId, tokenPair.L2Denom, tokenPair.L1Denom); err != nil {\n\t\t\t\tpanic(err)\n\t\t\t}', '\t\t\t_ = k.SetTokenPair(ctx, bridgeId, tokenPair.L2Denom, tokenPair.L1Denom)'))
# behaviour-preserving refactors written by sub-agents (benign/<set>/pN.diff): every property must stay silent
def wbenign(setid, patch):
    d=os.path.join(HERE,'..','benign',setid)
    eds=patch_edits(os.path.join(d,patch))
    what=''
    try:
        for e in json.load(open(os.path.join(d,'results.json'))):
            if e['patch']==patch: what=(e.get('what') or '')[:70]
    except Exception: pass
    for p in sorted(PROPS):
        w(p, 'BENIGN '+setid+'/'+patch+': '+what, '', *eds, note='sub-agent behaviour-preserving refactor')
PROPS=['C%02d'%i for i in range(1,21)]
for b in ['B1','B2','B3','B4','B5','B6']:
    for i in range(1,7):
        wbenign(b,'p%d.diff'%i)
#@@SEEDS@@
wseed('C01c','C01.R3'); wseed('C02c','C02.R1'); wseed('C03c','C03.R1'); wseed('C04c','C04.R3'); wseed('C05c','C05.R2')
wseed('C06c','C06.R1'); wseed('C07c','C07.R4'); wseed('C08c','C08.R1'); wseed('C09c','C09.R3'); wseed('C10c','C10.R6')
for b in ['B7','B8','B9','B10','B11','B12']:
    for i in range(1,7):
        wbenign(b,'p%d.diff'%i)
def wall(name, *edits):
    for p in PROPS:
        w(p, 'BENIGN '+name, '', *edits, note='hand-written behaviour-preserving variant, all properties')
wall('pointer receiver on an opchild keeper helper (GetBaseDenom)', ('x/opchild/keeper/keeper.go','func (k Keeper) GetBaseDenom(','func (k *Keeper) GetBaseDenom('))
wall('pointer receiver on the L2 sequence helpers', ('x/opchild/keeper/sequences.go','func (k Keeper) IncreaseNextL2Sequence(','func (k *Keeper) IncreaseNextL2Sequence('), ('x/opchild/keeper/sequences.go','func (k Keeper) IncreaseNextL1Sequence(','func (k *Keeper) IncreaseNextL1Sequence('))
wall('pointer receiver on the validator diff', ('x/opchild/keeper/val_state_change.go','func (k Keeper) ApplyAndReturnValidatorSetUpdates(','func (k *Keeper) ApplyAndReturnValidatorSetUpdates('))
wseed('C11c','C11.R1'); wseed('C12c','C12.R3'); wseed('C13c','C13.R9'); wseed('C14c','C14.R1'); wseed('C15c','C15.R3')
wseed('C16c','C16.R3'); wseed('C17c','C17.R2'); wseed('C18c','C18.R3'); wseed('C19c','C19.R4'); wseed('C20c','C20.R1')

# --- mutants written with package slices (the engine models Contains/Index/ContainsFunc/IndexFunc as the loop they stand for)
LFIMP=(LF, 'import (\n\t"context"\n', 'import (\n\t"context"\n\t"slices"\n')
LFLOOP='\t\t\tfor _, addr := range whitelist {\n\t\t\t\tif addr == payer || addr == granter {\n\t\t\t\t\treturn true\n\t\t\t\t}\n\t\t\t}\n'
w('C20', 'free lane via slices.ContainsFunc with a negated payer comparison', 'C20.R3', LFIMP,
  (LF, LFLOOP, '\t\t\tif slices.ContainsFunc(whitelist, func(addr string) bool { return addr != payer || addr == granter }) {\n\t\t\t\treturn true\n\t\t\t}\n'))
w('C20', 'free lane via slices.ContainsFunc that ignores the element', 'C20.R3', LFIMP,
  (LF, LFLOOP, '\t\t\tif slices.ContainsFunc(whitelist, func(addr string) bool { return payer != "" || granter != "" }) {\n\t\t\t\treturn true\n\t\t\t}\n'))
w('C20', 'BENIGN: free lane via slices.ContainsFunc', '', LFIMP,
  (LF, LFLOOP, '\t\t\tif slices.ContainsFunc(whitelist, func(addr string) bool { return addr == payer || addr == granter }) {\n\t\t\t\treturn true\n\t\t\t}\n'))
w('C20', 'BENIGN: free lane via two slices.Contains', '', LFIMP,
  (LF, LFLOOP, '\t\t\tif slices.Contains(whitelist, payer) || slices.Contains(whitelist, granter) {\n\t\t\t\treturn true\n\t\t\t}\n'))
w('C20', 'free lane via !slices.Contains', 'C20.R3', LFIMP,
  (LF, LFLOOP, '\t\t\tif !slices.Contains(whitelist, payer) || slices.Contains(whitelist, granter) {\n\t\t\t\treturn true\n\t\t\t}\n'))
CMIMP=(CM, '\t"fmt"\n\t"strconv"\n', '\t"fmt"\n\t"slices"\n\t"strconv"\n')
EXLOOP='\tisIncluded := false\n\tfor _, bridgeExecutor := range bridgeExecutors {\n\t\tif bytes.Equal(bridgeExecutor, senderAddr) {\n\t\t\tisIncluded = true\n\t\t}\n\t}\n'
w('C12', 'executor check via slices.ContainsFunc with !bytes.Equal', 'C12.R3', CMIMP,
  (CM, EXLOOP, '\tisIncluded := slices.ContainsFunc(bridgeExecutors, func(e sdk.AccAddress) bool { return !bytes.Equal(e, senderAddr) })\n'))
w('C12', 'executor check via slices.IndexFunc compared with -1 the wrong way round', 'C12.R3', CMIMP,
  (CM, EXLOOP, '\tisIncluded := slices.IndexFunc(bridgeExecutors, func(e sdk.AccAddress) bool { return bytes.Equal(e, senderAddr) }) < 0\n'))
w('C12', 'BENIGN: executor check via slices.IndexFunc >= 0', '', CMIMP,
  (CM, EXLOOP, '\tisIncluded := slices.IndexFunc(bridgeExecutors, func(e sdk.AccAddress) bool { return bytes.Equal(e, senderAddr) }) >= 0\n'))
HTX='x/ophost/types/tx.go'
HTXIMP=(HTX, 'import (\n\t"cosmossdk.io/core/address"', 'import (\n\t"slices"\n\n\t"cosmossdk.io/core/address"')
PRLOOP='\tfor _, proof := range msg.WithdrawalProofs {\n\t\tif len(proof) != 32 {\n\t\t\treturn ErrInvalidHashLength.Wrap("withdrawal_proofs")\n\t\t}\n\t}\n'
w('C03', 'proof lengths via slices.ContainsFunc with > 32', 'C03.R4', HTXIMP,
  (HTX, PRLOOP, '\tif slices.ContainsFunc(msg.WithdrawalProofs, func(proof []byte) bool { return len(proof) > 32 }) {\n\t\treturn ErrInvalidHashLength.Wrap("withdrawal_proofs")\n\t}\n'))
w('C03', 'proof lengths via slices.ContainsFunc, result negated', 'C03.R4', HTXIMP,
  (HTX, PRLOOP, '\tif !slices.ContainsFunc(msg.WithdrawalProofs, func(proof []byte) bool { return len(proof) != 32 }) {\n\t\treturn ErrInvalidHashLength.Wrap("withdrawal_proofs")\n\t}\n'))

# --- the explicit cursor form of Walk (Iterate / Valid / Next / KeyValue / Close)
EC='x/opchild/keeper/executor_change.go'
ECWALK='\terr := k.Validators.Walk(ctx, nil, func(key []byte, validator types.Validator) (stop bool, err error) {\n\t\tvalidator.ConsPower = 0\n\t\terr = k.Validators.Set(ctx, key, validator)\n\t\treturn false, err\n\t})\n\tif err != nil {\n\t\treturn err\n\t}\n'
def eciter(body):
    return '\titer, err := k.Validators.Iterate(ctx, nil)\n\tif err != nil {\n\t\treturn err\n\t}\n\tdefer iter.Close()\n\tfor ; iter.Valid(); iter.Next() {\n\t\tkv, err := iter.KeyValue()\n\t\tif err != nil {\n\t\t\treturn err\n\t\t}\n'+body+'\t}\n'
w('C14', 'BENIGN: ChangeExecutor zeroes through an explicit cursor', '', (EC, ECWALK, eciter('\t\tv := kv.Value\n\t\tv.ConsPower = 0\n\t\tif err := k.Validators.Set(ctx, kv.Key, v); err != nil {\n\t\t\treturn err\n\t\t}\n')))
w('C14', 'cursor form: loop left after the first validator', 'C14.R3', (EC, ECWALK, eciter('\t\tv := kv.Value\n\t\tv.ConsPower = 0\n\t\tif err := k.Validators.Set(ctx, kv.Key, v); err != nil {\n\t\t\treturn err\n\t\t}\n\t\tbreak\n')))
w('C14', 'cursor form: record written back unchanged', 'C14.R3', (EC, ECWALK, eciter('\t\tv := kv.Value\n\t\tif err := k.Validators.Set(ctx, kv.Key, v); err != nil {\n\t\t\treturn err\n\t\t}\n')))
w('C14', 'cursor form: records with power 1 are skipped', 'C14.R3', (EC, ECWALK, eciter('\t\tv := kv.Value\n\t\tif v.ConsPower == 1 {\n\t\t\tcontinue\n\t\t}\n\t\tv.ConsPower = 0\n\t\tif err := k.Validators.Set(ctx, kv.Key, v); err != nil {\n\t\t\treturn err\n\t\t}\n')))
w('C14', 'cursor form: range ends below the last key', 'C14.R3', (EC, '\t"context"\n\n\terrorsmod', '\t"context"\n\n\t"cosmossdk.io/collections"\n\terrorsmod'), (EC, ECWALK, eciter('\t\tv := kv.Value\n\t\tv.ConsPower = 0\n\t\tif err := k.Validators.Set(ctx, kv.Key, v); err != nil {\n\t\t\treturn err\n\t\t}\n').replace('Iterate(ctx, nil)','Iterate(ctx, new(collections.Range[[]byte]).EndExclusive([]byte{0x80}))')))

HWD='x/ophost/keeper/withdrawal.go'
PWWALK='\treturn k.ProvenWithdrawals.Walk(ctx, collections.NewPrefixedPairRange[uint64, []byte](bridgeId), func(key collections.Pair[uint64, []byte], value bool) (stop bool, err error) {\n\t\twithdrawalHash := [32]byte{}\n\t\tcopy(withdrawalHash[:], key.K2())\n\t\treturn cb(bridgeId, withdrawalHash)\n\t})\n'
def pwiter(tail, rng='collections.NewPrefixedPairRange[uint64, []byte](bridgeId)', key='kv.Key.K2()'):
    return '\titer, err := k.ProvenWithdrawals.Iterate(ctx, '+rng+')\n\tif err != nil {\n\t\treturn err\n\t}\n\tdefer iter.Close()\n\tfor ; iter.Valid(); iter.Next() {\n\t\tkv, err := iter.KeyValue()\n\t\tif err != nil {\n\t\t\treturn err\n\t\t}\n\t\twithdrawalHash := [32]byte{}\n\t\tcopy(withdrawalHash[:], '+key+')\n\t\tstop, err := cb(bridgeId, withdrawalHash)\n\t\tif err != nil {\n\t\t\treturn err\n\t\t}\n'+tail+'\t}\n\treturn nil\n'
w('C16', 'BENIGN: proven withdrawals exported through an explicit cursor', '', (HWD, PWWALK, pwiter('\t\tif stop {\n\t\t\treturn nil\n\t\t}\n')))
w('C16', 'cursor form: export stops after the first proven withdrawal', 'C16.R2', (HWD, PWWALK, pwiter('\t\tif stop || len(withdrawalHash) == 32 {\n\t\t\treturn nil\n\t\t}\n')))
w('C16', 'cursor form: export walks the proven withdrawals of bridge 1', 'C16.R2', (HWD, PWWALK, pwiter('\t\tif stop {\n\t\t\treturn nil\n\t\t}\n', rng='collections.NewPrefixedPairRange[uint64, []byte](1)')))

HGEN='x/ophost/keeper/genesis.go'
w('C16', 'ophost export: the bridge walk stops after the first bridge', 'C16.R2',
  (HGEN, '\t\t\tBatchInfos:        batchInfos,\n\t\t})\n\n\t\treturn false, nil', '\t\t\tBatchInfos:        batchInfos,\n\t\t})\n\n\t\treturn true, nil'))
w('C16', 'ophost export: the token pair walk stops after the first pair', 'C16.R2',
  (HGEN, '\t\t\ttokenPairs = append(tokenPairs, tokenPair)\n\t\t\treturn false, nil', '\t\t\ttokenPairs = append(tokenPairs, tokenPair)\n\t\t\treturn true, nil'))
w('C16', 'ophost export: proposals with output index 1 are skipped', 'C16.R2',
  (HGEN, '\t\t\tproposals = append(proposals, types.WrappedOutput{', '\t\t\tif key.K2() == 1 {\n\t\t\t\treturn false, nil\n\t\t\t}\n\t\t\tproposals = append(proposals, types.WrappedOutput{'))
w('C16', 'ophost export: batch infos stop once two were collected', 'C16.R2',
  (HGEN, '\t\t\tbatchInfos = append(batchInfos, batchInfo)\n\t\t\treturn false, nil', '\t\t\tbatchInfos = append(batchInfos, batchInfo)\n\t\t\treturn len(batchInfos) == 2, nil'))
w('C16', 'opchild export: denom pairs stop after the first', 'C16.R2',
  (CG2, '\t\tdenomPairs = append(denomPairs, types.DenomPair{Denom: denom, BaseDenom: baseDenom})\n\t\treturn false, nil', '\t\tdenomPairs = append(denomPairs, types.DenomPair{Denom: denom, BaseDenom: baseDenom})\n\t\treturn true, nil'))
w('C16', 'opchild export: last powers of zero are skipped', 'C16.R2',
  (CG2, '\t\tlastValidatorPowers = append(lastValidatorPowers, types.LastValidatorPower{Address: sdk.ValAddress(addr).String(), Power: power})', '\t\tif power == 0 {\n\t\t\treturn false, nil\n\t\t}\n\t\tlastValidatorPowers = append(lastValidatorPowers, types.LastValidatorPower{Address: sdk.ValAddress(addr).String(), Power: power})'))

w('C14', 'ChangeExecutor: the zeroing walk stops after two validators', 'C14.R3',
  (EC, ECWALK, '\tn := 0\n\terr := k.Validators.Walk(ctx, nil, func(key []byte, validator types.Validator) (stop bool, err error) {\n\t\tvalidator.ConsPower = 0\n\t\terr = k.Validators.Set(ctx, key, validator)\n\t\tn++\n\t\treturn n == 2, err\n\t})\n\tif err != nil {\n\t\treturn err\n\t}\n'))

VSC='x/opchild/keeper/val_state_change.go'
SNLB='\tnoLongerBonded, err := sortNoLongerBonded(last, k.validatorAddressCodec)\n\tif err != nil {\n\t\treturn nil, err\n\t}\n'
INLFILL='\tnoLongerBonded := make([][]byte, len(last))\n\tindex := 0\n\tfor valAddrStr := range last {\n\t\tvalAddrBytes, err := k.validatorAddressCodec.StringToBytes(valAddrStr)\n\t\tif err != nil {\n\t\t\treturn nil, err\n\t\t}\n\t\tnoLongerBonded[index] = valAddrBytes\n\t\tindex++\n\t}\n'
INLSORT='\tsort.SliceStable(noLongerBonded, func(i, j int) bool {\n\t\treturn bytes.Compare(noLongerBonded[i], noLongerBonded[j]) == -1\n\t})\n'
w('C13', 'BENIGN: no-longer-bonded list filled and sorted inline', '', (VSC, SNLB, INLFILL+INLSORT))
w('C13', 'no-longer-bonded list filled inline and never sorted (map order reaches consensus)', 'C13.R4', (VSC, SNLB, INLFILL))
w('C18', 'no-longer-bonded list filled inline and never sorted (map order reaches consensus)', 'C18.R1', (VSC, SNLB, INLFILL))
w('C13', 'inline sort applied to a different slice than the one removed from', 'C13.R4', (VSC, SNLB, INLFILL+'\tother := append([][]byte(nil), noLongerBonded...)\n'+INLSORT.replace('noLongerBonded','other')))

# --- mutants in refactored shape: parameter objects, result objects, reordered parameters of the private deposit helpers
B18P4=patch_edits(os.path.join(HERE,'..','benign','B18','p4.diff'))
B15P6=patch_edits(os.path.join(HERE,'..','benign','B15','p6.diff'))
w('C08', 'parameter-object form: one more unit minted than deposited', 'C08.R1', *B18P4,
  (CM, 'tokenDeposit{toAddr: toAddr, coins: sdk.NewCoins(coin)}', 'tokenDeposit{toAddr: toAddr, coins: sdk.NewCoins(sdk.NewCoin(coin.Denom, coin.Amount.AddRaw(1)))}'))
w('C07', 'reordered hook parameters: hook runs with a fixed gas limit instead of Params.HookMaxGas', 'C07.R7', *B18P4,
  (CM, 'ms.handleBridgeHook(sdkCtx, params.HookMaxGas, req.Data)', 'ms.handleBridgeHook(sdkCtx, params.HookMaxGas+1_000_000, req.Data)'))
DEP='x/opchild/keeper/deposit.go'
w('C07', 'success reported before the commit (a panicking commit reports success)', 'C07.R2',
  (DEP, '\tcommit()\n\tsuccess = true\n\n\treturn\n}\n\n// safeDepositToken', '\tsuccess = true\n\tcommit()\n\n\treturn\n}\n\n// safeDepositToken'))
w('C07', 'result-object form: success reported before the commit', 'C07.R2', *B15P6,
  (DEP, '\tcommit()\n\tres.success = true\n', '\tres.success = true\n\tcommit()\n'))
w('C07', 'result-object form: failed send still reports success', 'C07.R2', *B15P6,
  (DEP, '\t\tres.reason = fmt.Sprintf("failed to send coins: %s", err)\n\t\treturn\n', '\t\tres.reason = fmt.Sprintf("failed to send coins: %s", err)\n\t\tres.success = true\n\t\treturn\n'))
w('C07', 'result-object form: handler ignores the failure flag', 'C07.R6', *B15P6,
  (CM, 'depositSuccess, reason = deposit.success, deposit.reason', 'depositSuccess, reason = true, deposit.reason'))
w('C07', 'reordered hook parameters: zero max gas no longer short-circuits', 'C07.R4', *B15P6,
  (DEP, '\tif hookMaxGas == 0 {\n\t\treturn false, "hook max gas is zero"\n\t}\n', ''))

# wave 5 seeds (own-property rule) and the third round of sub-agent refactors
wseed('C01d','C01.R4'); wseed('C02d','C02.R3'); wseed('C03d','C03.R5'); wseed('C04d','C04.R1'); wseed('C05d','C05.R1')
wseed('C06d','C06.R2'); wseed('C07d','C07.R11'); wseed('C08d','C08.R1'); wseed('C09d','C09.R4'); wseed('C10d','C10.R3')
for b in ['B13','B14','B15','B16','B17','B18']:
    for i in range(1,7):
        wbenign(b,'p%d.diff'%i)

wseed('C11d','C11.R1'); wseed('C12d','C12.R4'); wseed('C12d','C14.R3',prop='C14'); wseed('C13d','C13.R6'); wseed('C14d','C14.R1'); wseed('C15d','C15.R3')
wseed('C16d','C16.R5'); wseed('C17d','C17.R5'); wseed('C18d','C18.R2'); wseed('C19d','C19.R3'); wseed('C20d','C20.R2')

# wave e seeds and round-4 refactors
wseed('C01e','C01.R6'); wseed('C02e','C02.R7'); wseed('C03e','C03.R3'); wseed('C04e','C04.R7'); wseed('C05e','C05.R6')
wseed('C06e','C06.R2'); wseed('C07e','C07.R2'); wseed('C08e','C08.R1'); wseed('C09e','C09.R4'); wseed('C10e','C10.R4')
for b in ['B19','B20','B21','B22','B23','B24']:
    for i in range(1,7):
        wbenign(b,'p%d.diff'%i)
# mutants in the round-4 shapes (tables of checks, step closures, cmp.Compare, slices.Sort*Func, bound-method callbacks)
def bp(b,n): return patch_edits(os.path.join(HERE,'..','benign',b,'p%d.diff'%n))
HBC='x/ophost/types/bridge_config.go'
w('C05', 'table-driven config guards: zero finalization period accepted (< instead of <=)', 'C05.R2', *bp('B23',1),
  (HBC, '{config.FinalizationPeriod <= time.Duration(0), "finalization period must be greater than 0"},', '{config.FinalizationPeriod < time.Duration(0), "finalization period must be greater than 0"},'))
w('C05', 'table-driven config guards: loop stops after the first guard', 'C05.R2', *bp('B23',1),
  (HBC, '\t\tif guard.violated {\n\t\t\treturn errors.Wrap(sdkerrors.ErrInvalidRequest, guard.reason)\n\t\t}\n', '\t\tif guard.violated {\n\t\t\treturn errors.Wrap(sdkerrors.ErrInvalidRequest, guard.reason)\n\t\t}\n\t\tbreak\n'))
HOUT='x/ophost/keeper/output.go'
w('C05', 'cmp.Compare form: final one second late (> 0 instead of >= 0): deletable although final', 'C05.R4', *bp('B19',3),
  (HOUT, 'return cmp.Compare(blockUnix, finalizedAtUnix) >= 0, nil', 'return cmp.Compare(blockUnix, finalizedAtUnix) > 0, nil'))
w('C05', 'cmp.Compare form: operands swapped', 'C05.R1', *bp('B19',3),
  (HOUT, 'return cmp.Compare(blockUnix, finalizedAtUnix) >= 0, nil', 'return cmp.Compare(finalizedAtUnix, blockUnix) >= 0, nil'))
w('C03', 'step-closure form: the output-root step compares the storage root with itself', 'C03.R1', *bp('B19',2),
  (HM, '\t\t\tif !bytes.Equal(outputProposal.OutputRoot, outputRoot[:]) {\n\t\t\t\treturn types.ErrFailedToVerifyWithdrawal.Wrap("invalid output root")', '\t\t\tif outputProposal.OutputRoot != nil && !bytes.Equal(outputRoot[:], outputRoot[:]) {\n\t\t\t\treturn types.ErrFailedToVerifyWithdrawal.Wrap("invalid output root")'))
w('C02', 'step-closure form: the already-claimed step reports nil', 'C02.R1', *bp('B19',2),
  (HM, '\t\t\tif ok {\n\t\t\t\treturn types.ErrWithdrawalAlreadyFinalized\n\t\t\t}\n\t\t\treturn nil', '\t\t\tif ok {\n\t\t\t\treturn nil\n\t\t\t}\n\t\t\treturn nil'))
w('C05', 'step-closure form: steps run but the first error is ignored', 'C05.R1', *bp('B19',2),
  (HM, '\tfor _, step := range steps {\n\t\tif err := step(); err != nil {\n\t\t\treturn nil, err\n\t\t}\n\t}', '\tfor _, step := range steps[1:] {\n\t\tif err := step(); err != nil {\n\t\t\treturn nil, err\n\t\t}\n\t}'))
w('C18', 'slices.SortStableFunc with a length-only comparator on the removal list', 'C18.R5', *bp('B21',1),
  (VSC, 'slices.SortStableFunc(noLongerBonded, bytes.Compare)', 'slices.SortStableFunc(noLongerBonded, func(a, b []byte) int { return len(a) - len(b) + 0*bytes.Compare(a, b) })'))
HGENF='x/ophost/keeper/genesis.go'
w('C16', 'bound-method exporter: visit asks to stop after the first bridge', 'C16.R2', *bp('B23',3),
  (HGENF, '\te.bridges = append(e.bridges, bridge)\n\treturn false, nil', '\te.bridges = append(e.bridges, bridge)\n\treturn true, nil'))
w('C15', 'signatures validated against a constant chain id instead of the stored L1 chain id', 'C15.R2',
  ('x/opchild/keeper/oracle.go', 'err = l2connect.ValidateVoteExtensions(sdkCtx, k.HostValidatorStore, h-1, hostChainID, extendedCommitInfo)', 'err = l2connect.ValidateVoteExtensions(sdkCtx, k.HostValidatorStore, h-1, "initiation-1", extendedCommitInfo)\n\t_ = hostChainID'))

wseed('C11e','C11.R2'); wseed('C12e','C12.R3'); wseed('C13e','C13.R11'); wseed('C14e','C14.R7'); wseed('C15e','C15.R5')
wseed('C16e','C16.R3'); wseed('C17e','C17.R1'); wseed('C18e','C18.R1'); wseed('C19e','C19.R4'); wseed('C20e','C20.R4')
for b in ['B25','B26','B27','B28','B29','B30']:
    for i in range(1,7):
        wbenign(b,'p%d.diff'%i)
# value-level mutants next to the value-level normal forms: these must NOT be normalised away
w('C10', 'deposit amount attribute formatted through int (wraps from 2^63)', 'C10.R3',
  (HM, '\t"strconv"\n', '\t"fmt"\n\t"strconv"\n'),
  (HM, 'sdk.NewAttribute(types.AttributeKeyAmount, coin.Amount.String()),', 'sdk.NewAttribute(types.AttributeKeyAmount, fmt.Sprintf("%d", int64(coin.Amount.Uint64()))),'))
w('C10', 'deposit sequence attribute printed in hex', 'C10.R3',
  (HM, '\t"strconv"\n', '\t"fmt"\n\t"strconv"\n'),
  (HM, 'sdk.NewAttribute(types.AttributeKeyL1Sequence, strconv.FormatUint(l1Sequence, 10)),', 'sdk.NewAttribute(types.AttributeKeyL1Sequence, fmt.Sprintf("%x", l1Sequence)),'))
w('C10', 'BENIGN: deposit sequence attribute through fmt.Sprintf("%d")', '',
  (HM, '\t"strconv"\n', '\t"fmt"\n\t"strconv"\n'),
  (HM, 'sdk.NewAttribute(types.AttributeKeyL1Sequence, strconv.FormatUint(l1Sequence, 10)),', 'sdk.NewAttribute(types.AttributeKeyL1Sequence, fmt.Sprintf("%d", l1Sequence)),'))

wseed('C01f','C01.R9'); wseed('C02f','C02.R8'); wseed('C03f','C03.R3'); wseed('C04f','C04.R8'); wseed('C05f','C05.R7')
wseed('C06f','C06.R5'); wseed('C07f','C07.R1'); wseed('C08f','C08.R6'); wseed('C09f','C09.R7'); wseed('C10f','C10.R4')

wseed('C11f','C11.R6'); wseed('C12f','C12.R4'); wseed('C13f','C13.R2'); wseed('C14f','C14.R2'); wseed('C15f','C15.R4')
wseed('C16f','C16.R3'); wseed('C17f','C17.R1'); wseed('C18f','C18.R3'); wseed('C19f','C19.R6'); wseed('C20f','C20.R1')
# round 7 refactors (B40/p1 is a stated limit, see DESIGN 13.5: stored, not a silent witness)
for b in ['B37','B38','B39','B40']:
    for i in range(1,7):
        if (b,i)==('B40',1): continue
        wbenign(b,'p%d.diff'%i)
for b in ['B41','B42']:
    for i in range(1,7):
        wbenign(b,'p%d.diff'%i)
# the C19g helper keyed by the whole (port, channel) element: property holds (duplicates are covered)
w('C19', 'PROPERTY-HOLDING: perm channels de-duplicated by the whole (port, channel) element', '',
  ('x/ophost/types/hook/bridge_hook.go', '\tsdkCtx := sdk.UnwrapSDKContext(ctx)\n\tfor _, permChannel := range metadata.PermChannels {\n\t\tportID, channelID := permChannel.PortID, permChannel.ChannelID\n\n\t\t// register challenger as channel admin',
   '\tsdkCtx := sdk.UnwrapSDKContext(ctx)\n\tfor _, permChannel := range uniquePermChannels(metadata.PermChannels) {\n\t\tportID, channelID := permChannel.PortID, permChannel.ChannelID\n\n\t\t// register challenger as channel admin'),
  ('x/ophost/types/hook/utils.go', '\t_, ok := jsonObject[key]\n\treturn ok\n}\n',
   '\t_, ok := jsonObject[key]\n\treturn ok\n}\n\nfunc uniquePermChannels(channels []PortChannelID) []PortChannelID {\n\tseen := make(map[PortChannelID]struct{}, len(channels))\n\tunique := make([]PortChannelID, 0, len(channels))\n\tfor _, channel := range channels {\n\t\tif _, ok := seen[channel]; ok {\n\t\t\tcontinue\n\t\t}\n\t\tseen[channel] = struct{}{}\n\t\tunique = append(unique, channel)\n\t}\n\treturn unique\n}\n'))
w('C19', 'BridgeCreated stops after the first listed channel', 'C19.R7',
  ('x/ophost/types/hook/bridge_hook.go', '\t\t// register challenger as channel admin\n\t\tif err := h.registerChannelAdmin(sdkCtx, portID, channelID, challenger); err != nil {\n\t\t\treturn err\n\t\t}\n\t}\n\n\treturn nil\n}\n\nfunc (h BridgeHook) BridgeChallengerUpdated(',
   '\t\t// register challenger as channel admin\n\t\tif err := h.registerChannelAdmin(sdkCtx, portID, channelID, challenger); err != nil {\n\t\t\treturn err\n\t\t}\n\t\tbreak\n\t}\n\n\treturn nil\n}\n\nfunc (h BridgeHook) BridgeChallengerUpdated('))
w('C03', 'claim recorded before the proof is checked (record moved up)', 'C03.R6',
  ('x/ophost/keeper/msg_server.go', '\tif ok, err := ms.HasProvenWithdrawal(ctx, bridgeId, withdrawalHash); err != nil {\n\t\treturn nil, err\n\t} else if ok {\n\t\treturn nil, types.ErrWithdrawalAlreadyFinalized\n\t}\n',
   '\tif ok, err := ms.HasProvenWithdrawal(ctx, bridgeId, withdrawalHash); err != nil {\n\t\treturn nil, err\n\t} else if ok {\n\t\treturn nil, types.ErrWithdrawalAlreadyFinalized\n\t}\n\tif err := ms.RecordProvenWithdrawal(ctx, bridgeId, withdrawalHash); err != nil {\n\t\treturn nil, err\n\t}\n'),
  ('x/ophost/keeper/msg_server.go', '\tif err := ms.RecordProvenWithdrawal(ctx, bridgeId, withdrawalHash); err != nil {\n\t\treturn nil, err\n\t}\n\n\t// transfer asset', '\t// transfer asset'))
w('C15', 'TotalBondedTokens answers a constant for an empty height (no store read)', 'C15.R7',
  ('x/opchild/keeper/host_validator_store.go', 'func (hv HostValidatorStore) TotalBondedTokens(ctx context.Context) (math.Int, error) {\n', 'func (hv HostValidatorStore) TotalBondedTokens(ctx context.Context) (math.Int, error) {\n\tif hv.consensusAddressCodec == nil {\n\t\treturn math.OneInt(), nil\n\t}\n'))
w('C10', 'exported deposit counter read raw from the store, error ignored (0 for a bridge without deposits)', 'C10.R7',
  (HG, '\t\tnextL1Sequence, err := k.GetNextL1Sequence(ctx, bridgeId)\n\t\tif err != nil {\n\t\t\treturn true, err\n\t\t}\n', '\t\tnextL1Sequence, _ := k.NextL1Sequences.Get(ctx, bridgeId)\n'))
w('C07', 'hook tx runs although the ante decorators rejected it (badly signed hook executes)', 'C07.R12',
  ('x/opchild/keeper/deposit.go', '\tctx, err = k.decorators(ctx, tx, false)\n\tif err != nil {', '\tctx, err = k.decorators(ctx, tx, false)\n\tif err != nil && len(data) == 0 {'))
w('C07', 'hook payload decode error ignored unless the payload is empty', 'C07.R12',
  ('x/opchild/keeper/deposit.go', '\ttx, err := k.txDecoder(data)\n\tif err != nil {', '\ttx, err := k.txDecoder(data)\n\tif err != nil && len(data) == 0 {'))
w('C20', 'a failed read of the chain floor is ignored (tx admitted under the node floor only)', 'C20.R5',
  ('x/opchild/ante/fee.go', '\t\t\tparamsMinGasPrices, err := mfd.keeper.MinGasPrices(ctx)\n\t\t\tif err != nil {\n\t\t\t\treturn nil, 0, err\n\t\t\t}\n', '\t\t\tparamsMinGasPrices, _ := mfd.keeper.MinGasPrices(ctx)\n'))
w('C13', 'AddValidator: unsupported consensus key type accepted when types are listed', 'C13.R12',
  ('x/opchild/keeper/msg_server.go', '\t\tif !hasKeyType {\n', '\t\tif !hasKeyType && len(cp.Validator.PubKeyTypes) == 0 {\n'))
w('C13', 'AddValidator: key type compared with the moniker instead of the listed types', 'C13.R12',
  ('x/opchild/keeper/msg_server.go', '\t\t\tif pkType == keyType {\n', '\t\t\tif pkType == keyType || req.Moniker == keyType {\n'))
w('C13', 'BENIGN: AddValidator key type search written with slices.Contains', '',
  ('x/opchild/keeper/msg_server.go', '\t"fmt"\n\t"strconv"\n', '\t"fmt"\n\t"slices"\n\t"strconv"\n'),
  ('x/opchild/keeper/msg_server.go', '\t\thasKeyType := false\n\t\tfor _, keyType := range cp.Validator.PubKeyTypes {\n\t\t\tif pkType == keyType {\n\t\t\t\thasKeyType = true\n\t\t\t\tbreak\n\t\t\t}\n\t\t}\n', '\t\thasKeyType := slices.Contains(cp.Validator.PubKeyTypes, pkType)\n'))
w('C07', 'BENIGN: ante result taken into fresh locals before the context is replaced', '',
  ('x/opchild/keeper/deposit.go', '\tctx, err = k.decorators(ctx, tx, false)\n\tif err != nil {\n\t\treason = fmt.Sprintf("Failed to run AnteHandler: %s", err)\n\t\treturn\n\t}\n', '\tanteCtx, anteErr := k.decorators(ctx, tx, false)\n\tif anteErr != nil {\n\t\treason = fmt.Sprintf("Failed to run AnteHandler: %s", anteErr)\n\t\treturn\n\t}\n\tctx = anteCtx\n'))
w('C20', 'BENIGN: chain floor read classified with a switch', '',
  ('x/opchild/ante/fee.go', '\t\t\tparamsMinGasPrices, err := mfd.keeper.MinGasPrices(ctx)\n\t\t\tif err != nil {\n\t\t\t\treturn nil, 0, err\n\t\t\t}\n\n\t\t\tminGasPrices = CombinedMinGasPrices(minGasPrices, paramsMinGasPrices)\n', '\t\t\tswitch paramsMinGasPrices, err := mfd.keeper.MinGasPrices(ctx); {\n\t\t\tcase err != nil:\n\t\t\t\treturn nil, 0, err\n\t\t\tdefault:\n\t\t\t\tminGasPrices = CombinedMinGasPrices(minGasPrices, paramsMinGasPrices)\n\t\t\t}\n'))
# wave g
wseed('C01g','C01.R4'); wseed('C02g','C02.R1'); wseed('C03g','C03.R6'); wseed('C04g','C04.R6'); wseed('C05g','C05.R8')
wseed('C06g','C06.R1'); wseed('C07g','C07.R3'); wseed('C08g','C08.R1'); wseed('C09g','C09.R6'); wseed('C10g','C10.R7')
wseed('C11g','C11.R7'); wseed('C12g','C12.R3'); wseed('C13g','C13.R4'); wseed('C14g','C14.R3'); wseed('C15g','C15.R7')
wseed('C16g','C16.R2'); wseed('C17g','C17.R4'); wseed('C18g','C18.R6'); wseed('C19g','C19.R7'); wseed('C20g','C20.R1')
# half wave h
wseed('C03h','C03.R5'); wseed('C05h','C05.R6'); wseed('C06h','C06.R1'); wseed('C10h','C10.R3'); wseed('C11h','C11.R1')
wseed('C12h','C12.R5'); wseed('C13h','C13.R3'); wseed('C15h','C15.R8'); wseed('C16h','C16.R3'); wseed('C19h','C19.R8')

# round 6 (composite refactors) and mutants in their shapes
for b in ['B31','B32','B33','B34','B35','B36']:
    for i in range(1,7):
        wbenign(b,'p%d.diff'%i)
w('C05', 'cursor form of the last-finalized walk: the first NON-final output is reported', 'C05.R6', *bp('B31',4),
  (HOUT, '\t\tif isFinalizedAt(blockTime, bridgeConfig.FinalizationPeriod, kv.Value) {\n\t\t\treturn kv.Key.K2(), kv.Value, nil', '\t\tif !isFinalizedAt(blockTime, bridgeConfig.FinalizationPeriod, kv.Value) {\n\t\t\treturn kv.Key.K2(), kv.Value, nil'))
w('C15', 'package-level rule table: the non-commit extension rule tests the signature field instead', 'C15.R3', *bp('B34',2),
  ('x/opchild/l2connect/verify.go', '\t\t\treturn !isCommitVote(vote) && len(vote.VoteExtension) != 0', '\t\t\treturn !isCommitVote(vote) && len(vote.ExtensionSignature) != 0'))
w('C06', 'cmp.Compare switch form: operands of the sequence comparison swapped', 'C06.R1', *bp('B32',1),
  (DEP, 'cmp.Compare(l1Sequence, finalizedL1Sequence)', 'cmp.Compare(finalizedL1Sequence, l1Sequence)'))
#@@MORE@@
for p,l in W.items():
    json.dump(l, open(os.path.join(HERE,p+'.json'),'w'), indent=1)
print({p:len(l) for p,l in W.items()})
