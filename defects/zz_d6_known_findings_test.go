package keeper_test

// Reproduction of the two known findings of property C14 (D6a, D6b) against
// the real keepers.  Each test asserts the DEFECTIVE behaviour, so it passes
// on the current tree and will start failing once the defect is repaired.
// Place in x/opchild/keeper/ of a scratch copy and run:
//   go test -vet=off -count=1 -run 'Test_D6' ./x/opchild/keeper/

import (
	"fmt"
	"testing"

	"github.com/stretchr/testify/require"

	testutilsims "github.com/cosmos/cosmos-sdk/testutil/sims"
	sdk "github.com/cosmos/cosmos-sdk/types"

	"github.com/initia-labs/OPinit/x/opchild"
	"github.com/initia-labs/OPinit/x/opchild/types"
)

const d6PlanKey = "l7aqGv+Zjbm0rallfqfqz+3iN31iOmgJCafWV5pGs6o="

// D6a: the plan reuses the bonded validator's OPERATOR address with a new key.
func Test_D6a_OperatorReuse_NoUpdateEmitted(t *testing.T) {
	ctx, input := createDefaultTestInput(t)
	k := input.OPChildKeeper

	pk := testutilsims.CreateTestPubKeys(1)[0]
	bonded, err := types.NewValidator(valAddrs[1], pk, "bonded")
	require.NoError(t, err)
	require.NoError(t, k.SetValidator(ctx, bonded))
	require.NoError(t, k.SetValidatorByConsAddr(ctx, bonded))
	up, err := k.BlockValidatorUpdates(ctx) // consensus learns key pk with power 1
	require.NoError(t, err)
	require.Len(t, up, 1)

	const h = 100
	require.NoError(t, k.RegisterExecutorChangePlan(1, h, valAddrsStr[1], "next",
		fmt.Sprintf(`{"@type":"/cosmos.crypto.ed25519.PubKey","key":"%s"}`, d6PlanKey), "info", []string{addrsStr[0]}))

	updates, err := opchild.EndBlocker(sdk.UnwrapSDKContext(ctx).WithBlockHeight(h), &k)
	require.NoError(t, err)

	// state now holds the plan's key under the operator ...
	stored, found := k.GetValidator(ctx, valAddrs[1])
	require.True(t, found)
	storedPk, err := stored.ConsPubKey()
	require.NoError(t, err)
	require.NotEqual(t, pk.Bytes(), storedPk.Bytes(), "stored consensus key was replaced by the plan's key")
	// ... but consensus is told nothing: it keeps signing with the old key
	require.Len(t, updates, 0, "DEFECT D6a: no validator update although the stored key changed")
}

// D6b: the plan reuses the bonded validator's CONSENSUS KEY under a new operator.
func Test_D6b_KeyReuse_DuplicateKeyInBatch(t *testing.T) {
	ctx, input := createDefaultTestInput(t)
	k := input.OPChildKeeper

	// the plan's key, decoded through a registration on a scratch height, is the bonded validator's key
	require.NoError(t, k.RegisterExecutorChangePlan(9, 7, valAddrsStr[2], "tmp",
		fmt.Sprintf(`{"@type":"/cosmos.crypto.ed25519.PubKey","key":"%s"}`, d6PlanKey), "info", []string{addrsStr[0]}))
	planPk, err := k.ExecutorChangePlans[7].NextValidator.ConsPubKey()
	require.NoError(t, err)

	bonded, err := types.NewValidator(valAddrs[1], planPk, "bonded")
	require.NoError(t, err)
	require.NoError(t, k.SetValidator(ctx, bonded))
	require.NoError(t, k.SetValidatorByConsAddr(ctx, bonded))
	up, err := k.BlockValidatorUpdates(ctx)
	require.NoError(t, err)
	require.Len(t, up, 1)

	const h = 100
	require.NoError(t, k.RegisterExecutorChangePlan(1, h, valAddrsStr[3], "next",
		fmt.Sprintf(`{"@type":"/cosmos.crypto.ed25519.PubKey","key":"%s"}`, d6PlanKey), "info", []string{addrsStr[0]}))

	updates, err := opchild.EndBlocker(sdk.UnwrapSDKContext(ctx).WithBlockHeight(h), &k)
	require.NoError(t, err)
	require.Len(t, updates, 2)
	require.Equal(t, updates[0].PubKey, updates[1].PubKey, "DEFECT D6b: the same consensus key appears twice in one batch")
	powers := []int64{updates[0].Power, updates[1].Power}
	require.ElementsMatch(t, []int64{1, 0}, powers)
}
