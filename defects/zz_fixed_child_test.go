package keeper_test

// Regression demonstrations of D3 (L2 side), D5 and D6c (opchild): fail on the
// pinned tree, pass on the repaired tree.  Place in x/opchild/keeper/.

import (
	"fmt"
	"testing"

	"cosmossdk.io/math"
	"github.com/stretchr/testify/require"

	codectypes "github.com/cosmos/cosmos-sdk/codec/types"
	testutilsims "github.com/cosmos/cosmos-sdk/testutil/sims"
	sdk "github.com/cosmos/cosmos-sdk/types"

	"github.com/initia-labs/OPinit/x/opchild"
	"github.com/initia-labs/OPinit/x/opchild/keeper"
	"github.com/initia-labs/OPinit/x/opchild/types"
)

func Test_D3_L2WithdrawalBeyond64BitsRejected(t *testing.T) {
	_, input := createDefaultTestInput(t)
	big, ok := math.NewIntFromString("18446744073709551616")
	require.True(t, ok)
	require.Error(t, types.NewMsgInitiateTokenWithdrawal(addrsStr[0], "l1addr", sdk.NewCoin("l2/foo", big)).Validate(input.AccountKeeper.AddressCodec()))
}

func Test_D5_AddThenRemoveInOneBlockLeavesNoRecord(t *testing.T) {
	ctx, input := createDefaultTestInput(t)
	ms := keeper.NewMsgServerImpl(&input.OPChildKeeper)
	pk := testutilsims.CreateTestPubKeys(1)[0]
	any, err := codectypes.NewAnyWithValue(pk)
	require.NoError(t, err)
	add := &types.MsgAddValidator{Authority: input.OPChildKeeper.GetAuthority(), Moniker: "v", ValidatorAddress: valAddrsStr[1], Pubkey: any}
	_, err = ms.AddValidator(ctx, add)
	require.NoError(t, err)
	_, err = ms.RemoveValidator(ctx, &types.MsgRemoveValidator{Authority: input.OPChildKeeper.GetAuthority(), ValidatorAddress: valAddrsStr[1]})
	require.NoError(t, err)
	for i := 0; i < 3; i++ {
		_, err = input.OPChildKeeper.BlockValidatorUpdates(ctx)
		require.NoError(t, err)
	}
	_, found := input.OPChildKeeper.GetValidator(ctx, valAddrs[1])
	require.False(t, found, "a removed validator must be gone from state")
	_, err = ms.AddValidator(ctx, add)
	require.NoError(t, err, "the operator and key must be usable again")
}

func Test_D6c_PlanAtValidatorCapDoesNotFailTheBlock(t *testing.T) {
	ctx, input := createDefaultTestInput(t)
	k := input.OPChildKeeper
	pk := testutilsims.CreateTestPubKeys(1)[0]
	v, err := types.NewValidator(valAddrs[1], pk, "bonded")
	require.NoError(t, err)
	require.NoError(t, k.SetValidator(ctx, v))
	require.NoError(t, k.SetValidatorByConsAddr(ctx, v))
	_, err = k.BlockValidatorUpdates(ctx)
	require.NoError(t, err)
	params, err := k.GetParams(ctx)
	require.NoError(t, err)
	params.MaxValidators = 1
	require.NoError(t, k.SetParams(ctx, params))
	const h = 50
	require.NoError(t, k.RegisterExecutorChangePlan(1, h, valAddrsStr[2], "next",
		fmt.Sprintf(`{"@type":"/cosmos.crypto.ed25519.PubKey","key":"%s"}`, "l7aqGv+Zjbm0rallfqfqz+3iN31iOmgJCafWV5pGs6o="), "info", []string{addrsStr[0]}))
	_, err = opchild.EndBlocker(sdk.UnwrapSDKContext(ctx).WithBlockHeight(h), &k)
	require.NoError(t, err, "block processing must not fail because of the plan")
}
