package keeper_test

// Regression demonstrations of the genuine defects D1-D4 (ophost) that the
// static rules found and that were repaired by fix: commits in /repo.  Each
// test asserts the CORRECT behaviour: it fails on the pinned tree (b0ca6c4)
// and passes on the repaired tree.  Place in x/ophost/keeper/ of a scratch copy.

import (
	"testing"
	"time"

	"cosmossdk.io/math"
	"github.com/stretchr/testify/require"

	sdk "github.com/cosmos/cosmos-sdk/types"

	"github.com/initia-labs/OPinit/x/ophost/keeper"
	"github.com/initia-labs/OPinit/x/ophost/types"
)

func d1Config() types.BridgeConfig {
	return types.BridgeConfig{
		Challenger: addrsStr[0], Proposer: addrsStr[1],
		BatchInfo:             types.BatchInfo{Submitter: addrsStr[2], ChainType: types.BatchInfo_CHAIN_TYPE_INITIA},
		SubmissionInterval:    time.Second * 10,
		FinalizationPeriod:    -time.Hour, // negative
		SubmissionStartHeight: 1,
	}
}

func Test_D1_NegativeFinalizationPeriodRejected(t *testing.T) {
	ctx, input := createDefaultTestInput(t)
	ms := keeper.NewMsgServerImpl(input.OPHostKeeper)
	_, err := ms.CreateBridge(ctx, types.NewMsgCreateBridge(addrsStr[0], d1Config()))
	require.Error(t, err, "a bridge with a negative finalization period must be rejected")
	cfg := d1Config()
	require.Error(t, cfg.ValidateWithNoAddrValidation())
}

func Test_D2_DepositToUnknownBridgeRejected(t *testing.T) {
	ctx, input := createDefaultTestInput(t)
	ms := keeper.NewMsgServerImpl(input.OPHostKeeper)
	input.Faucet.Fund(ctx, addrs[1], sdk.NewCoin("foo", math.NewInt(100)))
	_, err := ms.InitiateTokenDeposit(ctx, types.NewMsgInitiateTokenDeposit(addrsStr[1], 7, "l2addr", sdk.NewCoin("foo", math.NewInt(10)), nil))
	require.Error(t, err, "no bridge 7 exists")
	require.True(t, input.BankKeeper.GetBalance(ctx, types.BridgeAddress(7), "foo").IsZero())
}

func Test_D3_AmountsBeyond64BitsRejected(t *testing.T) {
	_, input := createDefaultTestInput(t)
	ac := input.AccountKeeper.AddressCodec()
	big, ok := math.NewIntFromString("18446744073709551616") // 2^64
	require.True(t, ok)
	require.Error(t, types.NewMsgInitiateTokenDeposit(addrsStr[0], 1, "l2addr", sdk.NewCoin("foo", big), nil).Validate(ac))
	require.Error(t, types.NewMsgFinalizeTokenWithdrawal(addrsStr[0], 1, 1, 1, nil, "from", addrsStr[1], sdk.NewCoin("foo", big),
		[]byte{1}, make([]byte, 32), make([]byte, 32)).Validate(ac))
}

func Test_D4_NodeHashDoesNotDependOnCallerLayout(t *testing.T) {
	leaf := [32]byte{}
	for i := range leaf {
		leaf[i] = 0xff
	}
	p0, p1 := make([]byte, 32), make([]byte, 32)
	for i := 0; i < 32; i++ {
		p0[i], p1[i] = byte(i+1), byte(2*i+1)
	}
	separate := types.GenerateRootHashFromProofs(leaf, [][]byte{append([]byte(nil), p0...), append([]byte(nil), p1...)})
	buf := make([]byte, 64)
	copy(buf, p0)
	copy(buf[32:], p1)
	before := append([]byte(nil), buf...)
	shared := types.GenerateRootHashFromProofs(leaf, [][]byte{buf[0:32], buf[32:64]})
	require.Equal(t, before, buf, "verification must not modify the caller's proof bytes")
	require.Equal(t, separate, shared, "the root must not depend on how the proofs are laid out in memory")
}
