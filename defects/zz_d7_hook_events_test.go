package keeper_test

// D7 (C04 / C09): a withdrawal executed inside a successful deposit hook burned
// the coins and consumed an L2 sequence but its initiate_token_withdrawal event
// was dropped (the message router returns events in the result; handleBridgeHook
// discarded the result).  The event is the only transport of a withdrawal to L1,
// so the withdrawal could never be claimed.  Fails on the pinned tree, passes on
// the repaired tree.  Place in x/opchild/keeper/.

import (
	"encoding/hex"
	"testing"

	"cosmossdk.io/math"
	"github.com/stretchr/testify/require"
	"golang.org/x/crypto/sha3"

	cryptotypes "github.com/cosmos/cosmos-sdk/crypto/types"
	sdk "github.com/cosmos/cosmos-sdk/types"
	banktypes "github.com/cosmos/cosmos-sdk/x/bank/types"

	"github.com/initia-labs/OPinit/x/opchild/keeper"
	"github.com/initia-labs/OPinit/x/opchild/types"
)

func d7Withdrawals(ctx sdk.Context) (n int, seqs []string) {
	for _, ev := range ctx.EventManager().Events() {
		if ev.Type == types.EventTypeInitiateTokenWithdrawal {
			n++
			for _, a := range ev.Attributes {
				if a.Key == types.AttributeKeyL2Sequence {
					seqs = append(seqs, a.Value)
				}
			}
		}
	}
	return
}

func Test_D7_WithdrawalInsideHookIsAnnounced(t *testing.T) {
	ctx, input := createDefaultTestInput(t)
	ms := keeper.NewMsgServerImpl(&input.OPChildKeeper)
	bz := sha3.Sum256([]byte("test_token"))
	denom := "l2/" + hex.EncodeToString(bz[:])

	priv, _, addr := keyPubAddr()
	_, err := ms.FinalizeTokenDeposit(ctx, types.NewMsgFinalizeTokenDeposit(addrsStr[0], addrsStr[1], addr.String(), sdk.NewCoin(denom, math.ZeroInt()), 1, 1, "test_token", nil))
	require.NoError(t, err)
	acc := input.AccountKeeper.GetAccount(ctx, addr)
	require.NotNil(t, acc)

	// hook: withdraw 40 of the 100 deposited coins back to L1
	signedTxBz, err := input.EncodingConfig.TxConfig.TxEncoder()(generateTestTx(t, input,
		[]sdk.Msg{types.NewMsgInitiateTokenWithdrawal(addr.String(), addrsStr[3], sdk.NewCoin(denom, math.NewInt(40)))},
		[]cryptotypes.PrivKey{priv}, []uint64{acc.GetAccountNumber()}, []uint64{0}, sdk.UnwrapSDKContext(ctx).ChainID()))
	require.NoError(t, err)

	before, err := input.OPChildKeeper.GetNextL2Sequence(ctx)
	require.NoError(t, err)
	sctx := sdk.UnwrapSDKContext(ctx).WithEventManager(sdk.NewEventManager())
	_, err = ms.FinalizeTokenDeposit(sctx, types.NewMsgFinalizeTokenDeposit(addrsStr[0], addrsStr[1], addr.String(), sdk.NewCoin(denom, math.NewInt(100)), 2, 1, "test_token", signedTxBz))
	require.NoError(t, err)

	// the hook succeeded: 40 burned, 60 left, one L2 sequence consumed
	require.Equal(t, math.NewInt(60), input.BankKeeper.GetBalance(sctx, addr, denom).Amount)
	require.Equal(t, math.NewInt(60), input.BankKeeper.GetSupply(sctx, denom).Amount)
	after, err := input.OPChildKeeper.GetNextL2Sequence(sctx)
	require.NoError(t, err)
	require.Equal(t, before+1, after)

	// ... so exactly one withdrawal must have been announced, under that sequence
	n, seqs := d7Withdrawals(sctx)
	require.Equal(t, 1, n, "a recorded withdrawal (coins burned, L2 sequence consumed) must be announced by an initiate_token_withdrawal event, otherwise it can never be claimed on L1")
	require.Equal(t, []string{math.NewIntFromUint64(before).String()}, seqs)
}

func Test_D7_FailedHookAnnouncesOnlyTheRefund(t *testing.T) {
	ctx, input := createDefaultTestInput(t)
	ms := keeper.NewMsgServerImpl(&input.OPChildKeeper)
	bz := sha3.Sum256([]byte("test_token"))
	denom := "l2/" + hex.EncodeToString(bz[:])

	priv, _, addr := keyPubAddr()
	_, err := ms.FinalizeTokenDeposit(ctx, types.NewMsgFinalizeTokenDeposit(addrsStr[0], addrsStr[1], addr.String(), sdk.NewCoin(denom, math.ZeroInt()), 1, 1, "test_token", nil))
	require.NoError(t, err)
	acc := input.AccountKeeper.GetAccount(ctx, addr)

	// hook: a withdrawal that succeeds, then a send that fails: everything rolls back
	signedTxBz, err := input.EncodingConfig.TxConfig.TxEncoder()(generateTestTx(t, input,
		[]sdk.Msg{
			types.NewMsgInitiateTokenWithdrawal(addr.String(), addrsStr[3], sdk.NewCoin(denom, math.NewInt(40))),
			banktypes.NewMsgSend(addr, addrs[2], sdk.NewCoins(sdk.NewCoin(denom, math.NewInt(1000)))),
		},
		[]cryptotypes.PrivKey{priv}, []uint64{acc.GetAccountNumber()}, []uint64{0}, sdk.UnwrapSDKContext(ctx).ChainID()))
	require.NoError(t, err)

	before, err := input.OPChildKeeper.GetNextL2Sequence(ctx)
	require.NoError(t, err)
	sctx := sdk.UnwrapSDKContext(ctx).WithEventManager(sdk.NewEventManager())
	_, err = ms.FinalizeTokenDeposit(sctx, types.NewMsgFinalizeTokenDeposit(addrsStr[0], addrsStr[1], addr.String(), sdk.NewCoin(denom, math.NewInt(100)), 2, 1, "test_token", signedTxBz))
	require.NoError(t, err)

	require.True(t, input.BankKeeper.GetSupply(sctx, denom).Amount.IsZero(), "no net mint")
	after, err := input.OPChildKeeper.GetNextL2Sequence(sctx)
	require.NoError(t, err)
	require.Equal(t, before+1, after, "only the refund consumes a sequence")
	n, seqs := d7Withdrawals(sctx)
	require.Equal(t, 1, n, "only the refund withdrawal is announced; the rolled-back hook withdrawal is not")
	require.Equal(t, []string{math.NewIntFromUint64(before).String()}, seqs)
}
