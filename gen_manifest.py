#!/usr/bin/env python3
"""Regenerates MANIFEST.json from the table below (run after adding a check)."""
import json, subprocess, os
HERE = os.path.dirname(os.path.abspath(__file__))
props = [json.loads(l) for l in open(os.path.join(HERE, 'properties.jsonl'))]
impl = subprocess.run([os.path.join(HERE, 'bin/opverify'), '-list'], capture_output=True, text=True).stdout.split()
TABLE = json.load(open(os.path.join(HERE, 'checks_table.json')))
checks, na = [], []
for p in props:
    pid = p['id']
    t = TABLE.get(pid)
    if pid in impl and t and not t.get('not_applicable'):
        checks.append({
            "property_id": pid,
            "quick_cmd": f"./check.sh {pid} quick",
            "thorough_cmd": f"./check.sh {pid} thorough",
            "evidence_file": f"evidence/{pid}.json",
            "replay_cmd_template": "bin/opverify -replay {path}",
            "engine": "opverify",
            "level_claimed": {"category": "other", "text": t["level_text"], "design_ref": t.get("design_ref", "DESIGN.md section 5 " + pid)},
            "level_note": t["level_note"],
            "technique": t["technique"],
        })
    else:
        reason = (t or {}).get("na_reason") or "check not built yet (build in progress; see DESIGN.md section 5 for the planned static rule)"
        na.append({"property_id": pid, "reason": reason})
m = {
    "version": 1,
    "setup_cmd": "./setup.sh",
    "hooks": {"guard": "verif", "enable": "none needed: the checker reads /repo's source through go/packages; no hooks or instrumentation are compiled into OPinit",
              "baseline_off_cmd": "cd /repo && go test -vet=off -count=1 ./... && cd api && go test -vet=off -count=1 ./...",
              "source_commits": [], "add_only": True},
    "engines": [{"name": "opverify", "path": "checker/", "serves_properties": [c["property_id"] for c in checks],
                 "kind_free_text": "repository-specific static analyser: go/packages + go/types + go/ssa (x/tools v0.29.0); bounded path enumeration with symbolic terms (E2/E3/E5/E7), effect-site tables (E4/E6), byte-layout abstract interpreter (E8); decides from source, never executes OPinit"}],
    "checks": checks,
    "not_applicable": na,
    "notes": "Every check re-loads and re-type-checks /repo's current working tree on each run (1-3 s warm, ~45 s on a cold build cache). Exit 1 + VIOLATION line on any violated or undecided obligation; known findings are listed in known_findings.json.",
}
json.dump(m, open(os.path.join(HERE, 'MANIFEST.json'), 'w'), indent=1)
print(len(checks), "checks;", len(na), "not applicable")
