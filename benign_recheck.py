#!/usr/bin/env python3
"""Re-run every registered quick check against each stored behaviour-preserving patch (benign/<set>/pN.diff):
all must stay silent.  usage: benign_recheck.py [<set>/<patch> ...]   (default: all)  exit 1 if any alarm."""
import json, os, subprocess, sys, glob
env = dict(os.environ, GOPROXY="off", GOSUMDB="off", GOTOOLCHAIN="local")
env.pop("GOFLAGS", None); env.pop("GOWORK", None)
def sh(cmd, cwd=None, check=False):
    r = subprocess.run(cmd, shell=True, cwd=cwd, env=env, capture_output=True, text=True)
    if check and r.returncode != 0:
        print(r.stdout[-2000:], r.stderr[-2000:]); sys.exit("FAILED: " + cmd)
    return r
sel = sys.argv[1:]
files = sorted(glob.glob("/verif/benign/*/p*.diff"))
if sel:
    files = [f for f in files if any(f.endswith(s if s.endswith(".diff") else s + ".diff") or ("/" + s + "/") in f for s in sel)]
man = json.load(open("/verif/MANIFEST.json"))
assert sh("git -C /repo status --porcelain").stdout.strip() == "", "/repo not clean"
bad = 0
for pf in files:
    name = "/".join(pf.split("/")[-2:])
    if sh(f"git -C /repo apply --check {pf}").returncode != 0:
        print(name, "does not apply to the current /repo HEAD (skipped)"); continue
    sh(f"git -C /repo apply {pf}", check=True)
    alarms = {}
    try:
        for c in man["checks"]:
            r = sh(c["quick_cmd"], cwd="/verif")
            if r.returncode != 0:
                alarms[c["property_id"]] = [l[:260] for l in r.stdout.splitlines() if l.startswith("VIOLATED ") or l.startswith("UNDECIDED ")]
    finally:
        sh("git -C /repo checkout -- . && git -C /repo clean -fdq x contrib api", check=True)
    res = os.path.join(os.path.dirname(pf), "results.json")
    if os.path.exists(res):
        rs = json.load(open(res))
        for e in rs:
            if e["patch"] == os.path.basename(pf):
                e["alarms"] = alarms; e["silent"] = not alarms
        json.dump(rs, open(res, "w"), indent=1)
    print(name, "SILENT" if not alarms else "ALARM " + json.dumps(alarms)[:900])
    bad += bool(alarms)
sh("git -C /verif checkout -- evidence 2>/dev/null; rm -rf /verif/evidence/violations")
sys.exit(1 if bad else 0)
