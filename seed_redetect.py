#!/usr/bin/env python3
"""Re-run every registered quick check against each stored seeded change (seeded/<id>/patch.diff applied to /repo,
undone straight afterwards) and refresh meta.json's detected_by / caught fields.
usage: seed_redetect.py [<seed-id> ...]   (default: all)"""
import json, os, subprocess, sys, glob
env = dict(os.environ, GOPROXY="off", GOSUMDB="off", GOTOOLCHAIN="local")
env.pop("GOFLAGS", None); env.pop("GOWORK", None)
def sh(cmd, cwd=None, check=False):
    r = subprocess.run(cmd, shell=True, cwd=cwd, env=env, capture_output=True, text=True)
    if check and r.returncode != 0:
        print(r.stdout[-2000:], r.stderr[-2000:]); sys.exit("FAILED: " + cmd)
    return r
ids = sys.argv[1:] or sorted(os.path.basename(os.path.dirname(p)) for p in glob.glob("/verif/seeded/*/meta.json"))
man = json.load(open("/verif/MANIFEST.json"))
assert sh("git -C /repo status --porcelain").stdout.strip() == "", "/repo not clean"
head = sh("git -C /repo rev-parse --short HEAD").stdout.strip()
for sid in ids:
    d = f"/verif/seeded/{sid}"
    meta = json.load(open(f"{d}/meta.json"))
    sh(f"git -C /repo apply {d}/patch.diff", check=True)
    detected = {}
    try:
        for c in man["checks"]:
            r = sh(c["quick_cmd"], cwd="/verif")
            rules = sorted(set(l.split()[1] for l in r.stdout.splitlines() if l.startswith("VIOLATED ") or l.startswith("UNDECIDED ")))
            if r.returncode != 0:
                detected[c["property_id"]] = rules
    finally:
        sh("git -C /repo checkout -- . && git -C /repo clean -fdq x contrib api", check=True)
    assert sh("git -C /repo status --porcelain").stdout.strip() == "", "/repo not restored"
    prop = meta["property"]
    meta.update({"detected_by": detected, "caught": prop in detected, "caught_by_any": bool(detected), "detected_at_repo": head})
    json.dump(meta, open(f"{d}/meta.json", "w"), indent=1)
    print(sid, prop, "caught" if prop in detected else ("caught-by-other" if detected else "MISSED"), json.dumps(detected))
sh("git -C /verif checkout -- evidence 2>/dev/null; rm -rf /verif/evidence/violations")
