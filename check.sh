#!/bin/sh
# usage: ./check.sh <property-id> <quick|thorough>
# Builds the checker if needed, then analyses /repo's current working tree.
cd "$(dirname "$0")" || exit 2
if [ ! -x bin/opverify ] || [ -n "$(find checker -newer bin/opverify -name '*.go' 2>/dev/null | head -1)" ]; then
  ./setup.sh >/dev/null 2>&1 || { echo "checker build failed"; ./setup.sh; exit 2; }
fi
unset GOFLAGS GOWORK
export GOPROXY=off GOSUMDB=off GOTOOLCHAIN=local
exec bin/opverify -prop "$1" -tier "${2:-quick}"
