package main

import (
	"fmt"
	"sort"
	"strings"
)

// Linear forms over integer terms: c + Σ k_i·atom_i, with atoms keyed by Term.String()
// (call-instance ids included: two results of the same callee are different atoms).
// Used (a) by the layout normaliser for buffers of symbolic length whose writes sit
// at prefix-sum offsets (`copy(buf[len(a):], b)`), and (b) by order-relation queries
// so that `idx+k < next`, `k < next-idx` and `next > idx+k` are one fact.  Only +, -
// and multiplication by a constant are interpreted; everything else is an atom.

type linForm struct {
	c int64
	k map[string]int64
}

func (l linForm) add(o linForm, sign int64) linForm {
	r := linForm{c: l.c + sign*o.c, k: map[string]int64{}}
	for a, v := range l.k {
		r.k[a] = v
	}
	for a, v := range o.k {
		r.k[a] += sign * v
		if r.k[a] == 0 {
			delete(r.k, a)
		}
	}
	return r
}

func (l linForm) scale(s int64) linForm {
	r := linForm{c: l.c * s, k: map[string]int64{}}
	for a, v := range l.k {
		if v*s != 0 {
			r.k[a] = v * s
		}
	}
	return r
}

func (l linForm) isConst() bool { return len(l.k) == 0 }

func (l linForm) String() string {
	var ks []string
	for a := range l.k {
		ks = append(ks, a)
	}
	sort.Strings(ks)
	var parts []string
	for _, a := range ks {
		parts = append(parts, fmt.Sprintf("%d*%s", l.k[a], a))
	}
	parts = append(parts, fmt.Sprintf("%d", l.c))
	return strings.Join(parts, " + ")
}

func (l linForm) equal(o linForm) bool { return l.add(o, -1).isConst() && l.c == o.c }

// lin: the linear form of an integer-valued term (unsigned subtraction is an atom: it wraps).
func lin(t *Term) linForm { return linCtx(t, nil) }

// linCtx: as lin; noWrap(x, y) says whether y <= x is established, which allows an
// unsigned x - y to be read as an integer difference.
func linCtx(t *Term, noWrap func(x, y *Term) bool) linForm {
	lin := func(t *Term) linForm { return linCtx(t, noWrap) }
	t = strip(t)
	if t == nil {
		return linForm{k: map[string]int64{}}
	}
	if v, ok := t.Int(); ok {
		return linForm{c: v, k: map[string]int64{}}
	}
	if t.Op == "bin" && len(t.Args) == 2 {
		switch t.Name {
		case "+":
			return lin(t.Args[0]).add(lin(t.Args[1]), 1)
		case "-":
			if t.Typ != nil && isUnsigned(t.Typ) {
				// constant folding of unsigned differences is always fine when both are constants
				_, c0 := strip(t.Args[0]).Int()
				_, c1 := strip(t.Args[1]).Int()
				if !(c0 && c1) && (noWrap == nil || !noWrap(t.Args[0], t.Args[1])) {
					return linForm{k: map[string]int64{t.String(): 1}}
				}
			}
			return lin(t.Args[0]).add(lin(t.Args[1]), -1)
		case "*":
			if v, ok := strip(t.Args[0]).Int(); ok {
				return lin(t.Args[1]).scale(v)
			}
			if v, ok := strip(t.Args[1]).Int(); ok {
				return lin(t.Args[0]).scale(v)
			}
		}
	}
	if t.Op == "convert" && len(t.Args) == 1 && isIntType(t.Typ) && t.Args[0].Typ != nil && isIntType(t.Args[0].Typ) {
		return lin(t.Args[0])
	}
	return linForm{k: map[string]int64{t.String(): 1}}
}

// RelationLin: the relation between integer terms x and y implied by the facts before
// upto, matching facts by linear form: a fact `A rel B` speaks about (x, y) when
// A-B = ±(x-y) up to a constant shift d: A-B = (x-y)+d.  With d = 0 the relation
// carries over; with d != 0 only the strict/loose consequences that remain valid are kept
// (x-y+d < 0 with d >= 0 implies x < y, ...).
func (p *Path) RelationLin(upto int, x, y *Term) (rel uint8, n int) {
	rel = rAny
	noWrap := func(a, b *Term) bool {
		r, n := p.Relation(upto, func(t *Term) bool { return t.String() == strip(b).String() }, func(t *Term) bool { return t.String() == strip(a).String() })
		return n > 0 && r&rGT == 0
	}
	lin := func(t *Term) linForm { return linCtx(t, noWrap) }
	q := lin(x).add(lin(y), -1) // x - y
	if upto > len(p.Events) {
		upto = len(p.Events)
	}
	for i := 0; i < upto; i++ {
		ev := &p.Events[i]
		if ev.Kind != EvFact {
			continue
		}
		rf, ok := factRel(ev.Cond, ev.Pol)
		if !ok || rf.X == nil || rf.Y == nil {
			continue
		}
		if (rf.X.Typ != nil && !isIntType(rf.X.Typ)) || (rf.Y.Typ != nil && !isIntType(rf.Y.Typ)) {
			continue
		}
		f := lin(rf.X).add(lin(rf.Y), -1) // A - B
		r := rf.Rel
		d := f.add(q, -1)
		if !d.isConst() {
			// try the mirrored orientation: A-B = -(x-y) + d
			d = f.add(q, 1)
			if !d.isConst() {
				continue
			}
			// (y-x) + d  rel  0
			r = shiftRel(r, d.c)
			rel &= flipRel(r)
			n++
			continue
		}
		rel &= shiftRel(r, d.c)
		n++
	}
	return rel, n
}

// shiftRel: given (v + d) r 0 for integer v, the set of relations v can have with 0.
func shiftRel(r uint8, d int64) uint8 {
	if d == 0 {
		return r
	}
	var out uint8
	// enumerate: v<0, v=0, v>0 are possible iff some w=v+d in r's region is reachable
	// v+d < 0  <=> v < -d ; v+d = 0 <=> v = -d ; v+d > 0 <=> v > -d
	t := -d
	if r&rLT != 0 { // v < t
		out |= rLT
		if t > 0 {
			out |= rEQ
		}
		if t > 1 {
			out |= rGT
		}
	}
	if r&rEQ != 0 { // v = t
		switch {
		case t < 0:
			out |= rLT
		case t == 0:
			out |= rEQ
		default:
			out |= rGT
		}
	}
	if r&rGT != 0 { // v > t
		out |= rGT
		if t < 0 {
			out |= rEQ
		}
		if t < -1 {
			out |= rLT
		}
	}
	return out
}
