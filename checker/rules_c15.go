package main

import (
	"fmt"
	"golang.org/x/tools/go/ssa"
	"sort"
	"strings"
)

// C15 — L1 oracle prices reach L2 only with a signed two-thirds quorum, never backwards

func flattenSum(t *Term) []*Term {
	t = strip(t)
	if t.Op == "bin" && t.Name == "+" {
		return append(flattenSum(t.Args[0]), flattenSum(t.Args[1])...)
	}
	return []*Term{t}
}

// voteVerified: the path carries VerifySignature(...) == true for this vote's
// extension signature, under the key stored for the same address, over the
// length-delimited CanonicalVoteExtension{chainID, height, round, this vote's extension}.
func voteVerified(p *Path, vote, addrKey, encoder string) bool {
	for i := range p.Events {
		ev := &p.Events[i]
		if ev.Kind != EvFact || !ev.Pol || ev.Cond.Op != "call" || !strings.HasSuffix(ev.Cond.Name, "PubKey).VerifySignature") {
			continue
		}
		pk, msg, sig := ev.Cond.Args[0], ev.Cond.Args[1], ev.Cond.Args[2]
		if sig.Key() != vote+".ExtensionSignature" {
			continue
		}
		// key: PubKeyFromProto(GetPubKeyByConsAddr(valStore, ctx, same addr).0).0
		pkOK := strings.Contains(pk.Key(), "PubKeyFromProto((opchild/l2connect.ValidatorStore).GetPubKeyByConsAddr(valStore, ctx, "+addrKey+").0).0")
		// message: marshal closure over &cve
		msgOK := false
		if msg.Op == "extract" && msg.Name == "0" && msg.Args[0].Op == "call" && strings.Contains(msg.Args[0].Name, encoder) {
			for j := 0; j < i; j++ {
				e2 := &p.Events[j]
				if e2.Kind == EvCall && e2.Call.String() == msg.Args[0].String() && len(e2.ArgVals) > 0 && e2.ArgVals[0] != nil {
					cve := e2.ArgVals[0]
					msgOK = project(cve, "ChainId", nil).Key() == "chainID" && project(cve, "Height", nil).Key() == "height" &&
						project(cve, "Round", nil).Key() == "int64(extCommit.Round)" && project(cve, "Extension", nil).Key() == vote+".VoteExtension"
				}
			}
		}
		if pkOK && msgOK {
			return true
		}
	}
	return false
}

// signBytesEncoder: the module function (a closure of ValidateVoteExtensions or a
// package-level helper) that turns the canonical vote extension into sign bytes:
// the one callee of ValidateVoteExtensions with signature func(proto.Message) ([]byte, error).
func signBytesEncoder(c *Ctx) *ssa.Function {
	fn := c.Func("opchild/l2connect", "ValidateVoteExtensions")
	var found *ssa.Function
	consider := func(f *ssa.Function) {
		if f == nil || f.Blocks == nil || found != nil {
			return
		}
		sig := f.Signature
		if sig.Params().Len() == 1 && sig.Results().Len() == 2 && strings.HasSuffix(sig.Params().At(0).Type().String(), "proto.Message") &&
			sig.Results().At(0).Type().String() == "[]byte" && sig.Results().At(1).Type().String() == "error" {
			found = f
		}
	}
	// anywhere in what ValidateVoteExtensions reaches (closures, helpers of helpers)
	reach := c.W.BuildEffects().Reach(fn)
	var cands []*ssa.Function
	for g := range reach {
		cands = append(cands, g)
	}
	sort.Slice(cands, func(i, j int) bool { return cands[i].String() < cands[j].String() })
	for _, g := range cands {
		if g != fn {
			consider(g)
		}
	}
	if found == nil {
		panic(anchorErr{"sign-bytes encoder of ValidateVoteExtensions (func(proto.Message) ([]byte, error))"})
	}
	return found
}

// libSignBytesEncoder: CometBFT's own length-delimited encoder - the very function that
// produces the bytes a validator signs for a vote extension.
const libSignBytesEncoder = "github.com/cometbft/cometbft/libs/protoio.MarshalDelimited"

// signBytesEncoderName: the encoder's name in call terms and, when it is module code, its body.
func signBytesEncoderName(c *Ctx) (string, *ssa.Function) {
	fn := c.Func("opchild/l2connect", "ValidateVoteExtensions")
	usesLib := false
	for g := range c.W.BuildEffects().Reach(fn) {
		for _, b := range g.Blocks {
			for _, in := range b.Instrs {
				if ci, ok := in.(ssa.CallInstruction); ok {
					if cal := ci.Common().StaticCallee(); cal != nil && funcName(cal) == libSignBytesEncoder {
						usesLib = true
					}
				}
			}
		}
	}
	if usesLib {
		return libSignBytesEncoder, nil
	}
	f := signBytesEncoder(c)
	return funcName(f), f
}

func propC15(c *Ctx) {
	c.Clauses = append(c.Clauses,
		"readers of the recorded host set answer from a store read made in the same call; the vote decoder returns, per commit entry, the entry's validator address verbatim and the extension decoded from that entry",
		"UpdateOracle handler: ApplyOracleUpdate only after the executor check and with BridgeInfo.BridgeConfig.OracleEnabled",
		"pipeline order: height not older than the recorded host set; ValidateVoteExtensions(store, height-1, L1 chain id, decoded commit) == nil precedes vote decoding, aggregation and price writes; timestamp pair must be present",
		"voting power is accumulated only for votes of validators found in the stored set, with the commit flag, whose extension signature verifies (under the key stored for the same address) over CanonicalVoteExtension{chain id, height, round, extension}; success requires total > 0 and sum >= 2*total/3 + 1",
		"a price is written only if none is stored or the update time is strictly After the stored timestamp; pairs are visited in the keeper's slice order, the price map is only looked up",
		"the host validator set and its height are written only by UpdateValidators, only for a strictly higher height, and only for the configured L1 client id")
	c.NotDecided = append(c.NotDecided, "signature cryptography, the stake-weighted median and its per-validator de-duplication / 2/3 participation threshold (connect v2.0.1, A8)", "duplicate votes of one validator inflate the counted power but cannot move a price (A8)")
	c.Assumptions = append(c.Assumptions, "A1", "A2", "A3", "A5", "A8", "A10")

	c.Rule("C15.R1", func() {
		fn := childHandler(c, "UpdateOracle")
		o := c.Ob("C15.R1", "UpdateOracle: ApplyOracleUpdate(req.Height, req.Data) only for an executor and with the oracle enabled")
		// decided at the call of the oracle handler itself (the keeper-level forwarder, if there
		// is one, is inlined)
		for _, p := range c.Paths(fn, PO{Params: hParams, NoInline: []string{".Validate", "checkBridgeExecutorPermission", "L2OracleHandler).UpdateOracle"}}) {
			o.Paths++
			o.Facts += p.NFacts()
			for _, i := range p.Find(func(ev *Event) bool {
				return ev.Kind == EvCall && strings.HasSuffix(ev.Call.Name, "L2OracleHandler).UpdateOracle")
			}) {
				o.Sites++
				ev := &p.Events[i]
				a := ev.Call.Args
				if a[2].Key() != "req.Height" || a[3].Key() != "req.Data" {
					o.Fail(c.evPos(ev), "applies ("+a[2].Key()+", "+a[3].Key()+")", c.Dump(p, i))
				}
				exec := p.HasFact(i, func(at *Term, pol bool) bool {
					x := eqOther(at, "nil")
					return pol && x != nil && x.Op == "call" && strings.HasSuffix(x.Name, "checkBridgeExecutorPermission") && x.Args[len(x.Args)-1].Key() == "req.Sender"
				})
				en := p.HasFact(i, func(at *Term, pol bool) bool {
					return pol && at.Key() == "(collections.Item[V]).Get(ms.Keeper.BridgeInfo, ctx).0.BridgeConfig.OracleEnabled"
				})
				loaded := p.HasFact(i, func(at *Term, pol bool) bool {
					return pol && eqAtom(at, "(collections.Item[V]).Get(ms.Keeper.BridgeInfo, ctx).1", "nil")
				})
				if !exec || !en || !loaded {
					o.Fail(c.evPos(ev), fmt.Sprintf("oracle update applied without: executor check [%v], bridge info loaded [%v], OracleEnabled [%v]", exec, loaded, en), c.Dump(p, i))
				}
				if p.OK() && !p.factIs(len(p.Events), "("+ev.Call.String()+" == nil)", true) {
					o.Fail(c.evPos(ev), "ApplyOracleUpdate error is swallowed", c.Dump(p, -1))
				}
			}
		}
		if o.Sites == 0 {
			o.Fail(c.W.Pos(fn.Pos()), "no ApplyOracleUpdate call", nil)
		}
		ap := c.W.Method(childKeeper, "Keeper", "ApplyOracleUpdate")
		if ap == nil {
			return // no keeper-level forwarder
		}
		o2 := c.Ob("C15.R1", "ApplyOracleUpdate forwards (height, bytes) unchanged to L2OracleHandler.UpdateOracle")
		for _, p := range c.Paths(ap, PO{Params: []string{"k", "ctx", "height", "bz"}, NoInline: []string{"L2OracleHandler).UpdateOracle"}}) {
			o2.Paths++
			for _, i := range p.Find(func(ev *Event) bool {
				return ev.Kind == EvCall && strings.HasSuffix(ev.Call.Name, "L2OracleHandler).UpdateOracle")
			}) {
				o2.Sites++
				a := p.Events[i].Call.Args
				if a[2].Key() != "height" || a[3].Key() != "bz" || p.Ret[0].String() != p.Events[i].Call.String() {
					o2.Fail(c.evPos(&p.Events[i]), "forwards "+trunc(p.Events[i].Call.Key(), 160), nil)
				}
			}
		}
		if o2.Sites == 0 {
			o2.Fail(c.W.Pos(ap.Pos()), "no forwarding call", nil)
		}
	})

	c.Rule("C15.R2", func() {
		fn := c.Method(childKeeper, "L2OracleHandler", "UpdateOracle")
		o := c.Ob("C15.R2", "L2OracleHandler.UpdateOracle: height gate, then ValidateVoteExtensions(height-1, L1 chain id, decoded) == nil, then votes, aggregation, timestamp presence, WritePrices")
		// every function of the l2connect package stays opaque here (each has its own rule); the
		// vote decoder is identified by its role - the l2connect call whose result is aggregated -
		// not by its name
		po := PO{Params: []string{"k", "ctx", "height", "bz"}, NoInline: []string{"opchild/l2connect.", "GetLastHeight"}}
		nW := 0
		for _, p := range c.Paths(fn, po) {
			o.Paths++
			o.Facts += p.NFacts()
			find := func(suffix string) []int {
				return p.Find(func(ev *Event) bool { return ev.Kind == EvCall && strings.HasSuffix(ev.Call.Name, suffix) })
			}
			val := find("l2connect.ValidateVoteExtensions")
			for _, i := range p.Find(func(ev *Event) bool {
				if ev.Kind != EvCall || ev.Pure && !strings.HasPrefix(ev.Call.Name, "opchild/l2connect.") {
					return false
				}
				n := ev.Call.Name
				return strings.HasSuffix(n, "VoteAggregator).AggregateOracleVotes") || (strings.HasPrefix(n, "opchild/l2connect.") && !strings.HasSuffix(n, "l2connect.ValidateVoteExtensions"))
			}) {
				o.Sites++
				if len(val) != 1 || val[0] > i || !p.factIs(i, "("+p.Events[val[0]].Call.String()+" == nil)", true) {
					o.Fail(c.evPos(&p.Events[i]), methodOf(p.Events[i].Call.Name)+" reachable without ValidateVoteExtensions == nil", c.Dump(p, i))
				}
			}
			for _, i := range val {
				o.Sites++
				ev := &p.Events[i]
				a := ev.Call.Args
				lh := "(opchild/keeper.HostValidatorStore).GetLastHeight(k.Keeper.HostValidatorStore, ctx)"
				rel, n := p.Relation(i, keyIs(lh+".0"), keyIs("height"))
				if n == 0 || rel&rGT != 0 || !p.HasFact(i, func(at *Term, pol bool) bool { return pol && eqAtom(at, lh+".1", "nil") }) {
					o.Fail(c.evPos(ev), "votes validated although the update height may be older than the recorded host set (relation "+relString(rel)+")", c.Dump(p, i))
				}
				if a[1].Key() != "k.Keeper.HostValidatorStore" {
					o.Fail(c.evPos(ev), "validated against "+a[1].Key(), nil)
				}
				if a[2].Key() != "(int64(height) - 1)" {
					o.Fail(c.evPos(ev), "signatures checked for height "+a[2].Key()+", want int64(height)-1", c.Dump(p, i))
				}
				// the L1 chain id of the stored bridge info, loaded without error (whichever getter reads it)
				if got := strip(a[3]); got.Key() != "(collections.Item[V]).Get(k.Keeper.BridgeInfo, ctx).0.L1ChainId" ||
					!p.HasFact(i, func(at *Term, pol bool) bool {
						return pol && eqAtom(at, "(collections.Item[V]).Get(k.Keeper.BridgeInfo, ctx).1", "nil")
					}) {
					o.Fail(c.evPos(ev), "chain id is "+trunc(a[3].Key(), 100), c.Dump(p, i))
				}
				if !strings.HasSuffix(a[4].Key(), "ExtendedCommitCodec).Decode(k.extendedCommitCodec, bz).0") {
					o.Fail(c.evPos(ev), "validated commit is "+trunc(a[4].Key(), 120), c.Dump(p, i))
				}
			}
			for _, i := range find("l2connect.WritePrices") {
				nW++
				ev := &p.Events[i]
				a := ev.Call.Args
				agg := find("VoteAggregator).AggregateOracleVotes")
				var votes []int
				if len(agg) == 1 {
					// the decoder: the l2connect call whose first result is what gets aggregated
					votes = p.Find(func(e2 *Event) bool {
						return e2.Kind == EvCall && strings.HasPrefix(e2.Call.Name, "opchild/l2connect.") && e2.Call.String()+".0" == p.Events[agg[0]].Call.Args[2].String()
					})
				}
				if len(agg) != 1 || len(votes) != 1 {
					o.Fail(c.evPos(ev), "prices written without one aggregation of one vote decoding", c.Dump(p, i))
					continue
				}
				prices := p.Events[agg[0]].Call.String() + ".0"
				if a[3].String() != prices {
					o.Fail(c.evPos(ev), "writes "+trunc(a[3].Key(), 100)+" instead of the aggregated prices", c.Dump(p, i))
				}
				if p.Events[agg[0]].Call.Args[2].String() != p.Events[votes[0]].Call.String()+".0" {
					o.Fail(c.evPos(ev), "aggregates other votes than the decoded ones", c.Dump(p, i))
				}
				// the votes come from the validated commit
				fromCommit := false
				if len(val) == 1 {
					for _, va := range p.Events[votes[0]].Call.Args {
						if va.String() == p.Events[val[0]].Call.Args[4].String() {
							fromCommit = true
						}
					}
				}
				if len(val) == 1 && !fromCommit {
					o.Fail(c.evPos(ev), "votes decoded from a different commit than the validated one", c.Dump(p, i))
				}
				// timestamp: time.Unix(0, prices[ts].Int64()) with ts found
				if !strings.HasPrefix(a[2].Key(), "time.Unix(0, (*math/big.Int).Int64(lookup:(") {
					o.Fail(c.evPos(ev), "update time is "+trunc(a[2].Key(), 120), c.Dump(p, i))
				}
				if !p.HasFact(i, func(at *Term, pol bool) bool {
					return pol && at.Op == "extract" && at.Name == "1" && at.Args[0].Op == "lookup" && at.Args[0].Args[0].String() == prices
				}) {
					o.Fail(c.evPos(ev), "prices written without the timestamp pair being present", c.Dump(p, i))
				}
				if p.OK() && !p.factIs(len(p.Events), "("+ev.Call.String()+" == nil)", true) {
					o.Fail(c.evPos(ev), "WritePrices error swallowed", c.Dump(p, -1))
				}
			}
			if p.OK() && !p.Panic && len(find("l2connect.WritePrices")) != 1 {
				o.Fail(c.W.Pos(fn.Pos()), "success without writing prices", c.Dump(p, -1))
			}
		}
		if nW == 0 {
			o.Fail(c.W.Pos(fn.Pos()), "no WritePrices call", nil)
		}
	})

	c.Rule("C15.R3", func() {
		fn := c.Func("opchild/l2connect", "ValidateVoteExtensions")
		o := c.Ob("C15.R3", "ValidateVoteExtensions: power counted only for known validators' commit votes with a verified extension signature; quorum = total > 0 and sum >= 2*total/3 + 1")
		encName, _ := signBytesEncoderName(c)
		po := PO{Params: []string{"ctx", "valStore", "height", "chainID", "extCommit"}, Visits: 3, NoInline: []string{encName}, Pure: []string{encName}}
		total := "(sdkmath.Int).Int64((opchild/l2connect.ValidatorStore).TotalBondedTokens(valStore, ctx).0)"
		nOK, nCounted := 0, 0
		for _, p := range c.Paths(fn, po) {
			o.Paths++
			o.Facts += p.NFacts()
			if p.Panic || !p.OK() {
				continue
			}
			nOK++
			// quorum facts
			relT, n1 := p.Relation(len(p.Events), keyIs(total), keyIs("0"))
			if n1 == 0 || relT != rGT {
				o.Fail(c.W.Pos(fn.Pos()), "accepts with relation(total power, 0) = "+relString(relT), c.Dump(p, -1))
			}
			req := "((((" + total[0:0] + total + " * 2) / 3) + 1)"
			req = "(((" + total + " * 2) / 3) + 1)"
			var sum *Term
			okQ := false
			for i := range p.Events {
				ev := &p.Events[i]
				if ev.Kind != EvFact {
					continue
				}
				rf, ok := factRel(ev.Cond, ev.Pol)
				if !ok {
					continue
				}
				if rf.Y.Key() == req && rf.Rel&rLT == 0 {
					sum, okQ = rf.X, true
				} else if rf.X.Key() == req && rf.Rel&rGT == 0 {
					sum, okQ = rf.Y, true
				}
			}
			if !okQ {
				o.Fail(c.W.Pos(fn.Pos()), "accepts without the fact sum >= 2*total/3 + 1", c.Dump(p, -1))
				continue
			}
			for _, s := range flattenSum(sum) {
				if s.IsConst() && s.Name == "0" {
					continue
				}
				o.Sites++
				nCounted++
				// s = Int64(GetPowerByConsAddr(valStore, ctx, addr)#n.0)
				if !(s.Op == "call" && strings.HasSuffix(s.Name, "(sdkmath.Int).Int64") && s.Args[0].Op == "extract" && strings.HasSuffix(s.Args[0].Args[0].Name, "ValidatorStore).GetPowerByConsAddr")) {
					o.Fail(c.W.Pos(fn.Pos()), "power summand of unknown origin: "+trunc(s.Key(), 140), c.Dump(p, -1))
					continue
				}
				pw := s.Args[0].Args[0]
				addr := pw.Args[2]
				vote := strings.TrimSuffix(addr.Key(), ".Validator.Address")
				if !strings.HasPrefix(vote, "extCommit.Votes[") || pw.Args[0].Key() != "valStore" {
					o.Fail(c.W.Pos(fn.Pos()), "power looked up for "+trunc(addr.Key(), 100)+" in "+pw.Args[0].Key(), c.Dump(p, -1))
					continue
				}
				known := p.factIs(len(p.Events), "("+pw.String()+".1 == nil)", true)
				commit := p.HasFact(len(p.Events), func(a *Term, pol bool) bool { return pol && eqAtom(a, vote+".BlockIdFlag", "2") })
				verified := voteVerified(p, vote, addr.Key(), encName)
				if !known || !commit || !verified {
					o.Fail(c.W.Pos(fn.Pos()), fmt.Sprintf("power of %s counted without: validator in stored set [%v], commit flag [%v], verified signature over (chain id, height, round, extension) with the stored key [%v]", vote, known, commit, verified), c.Dump(p, -1))
				}
			}
		}
		if nOK == 0 || nCounted == 0 {
			o.Fail(c.W.Pos(fn.Pos()), fmt.Sprintf("accepting paths=%d, counted votes=%d (floor 1 each)", nOK, nCounted), nil)
		}
		// every vote that survives validation (and therefore reaches vote decoding and
		// aggregation in UpdateOracle) was classified
		o3 := c.Ob("C15.R3", "ValidateVoteExtensions: every vote iterated on an accepting path is unknown to the stored set, or non-commit with an empty extension, or commit with a verified extension signature (no entry reaches aggregation unverified)")
		for _, p := range c.Paths(fn, po) {
			o3.Paths++
			if p.Panic || !p.OK() {
				continue
			}
			for k := 0; ; k++ {
				vote := fmt.Sprintf("extCommit.Votes[%d]", k)
				if !p.factIs(len(p.Events), fmt.Sprintf("(%d < builtin.len(extCommit.Votes))", k), true) {
					break
				}
				o3.Sites++
				var pw *Term
				for i := range p.Events {
					ev := &p.Events[i]
					if ev.Kind == EvCall && strings.HasSuffix(ev.Call.Name, "ValidatorStore).GetPowerByConsAddr") && ev.Call.Args[0].Key() == "valStore" && ev.Call.Args[2].Key() == vote+".Validator.Address" {
						pw = ev.Call
					}
				}
				unknown := pw != nil && p.factIs(len(p.Events), "("+pw.String()+".1 == nil)", false)
				nonCommit := p.HasFact(len(p.Events), func(a *Term, pol bool) bool { return !pol && eqAtom(a, vote+".BlockIdFlag", "2") })
				rel, n := p.Relation(len(p.Events), keyIs("builtin.len("+vote+".VoteExtension)"), keyIs("0"))
				emptyExt := n > 0 && rel == rEQ
				verified := voteVerified(p, vote, vote+".Validator.Address", encName)
				if !(unknown || nonCommit && emptyExt || verified) {
					o3.Fail(c.W.Pos(fn.Pos()), fmt.Sprintf("%s passes validation unclassified: unknown validator [%v], non-commit [%v] with empty extension [%v], verified signature [%v]", vote, unknown, nonCommit, emptyExt, verified), c.Dump(p, -1))
				}
			}
		}
		if o3.Sites == 0 {
			o3.Fail(c.W.Pos(fn.Pos()), "no iterated vote on any accepting path (floor 1)", nil)
		}
		// the marshal closure encodes exactly its argument
		_, mf := signBytesEncoderName(c)
		o2 := c.Ob("C15.R3", "sign-bytes closure: length-delimited encoding of exactly the message it is given")
		if mf == nil {
			o2.Sites = 1
			o2.Note("the encoder is CometBFT's own protoio.MarshalDelimited (the function that produces the signed bytes)")
			return
		}
		for _, p := range c.Paths(mf, PO{Params: []string{"msg"}}) {
			o2.Paths++
			for _, i := range p.Find(func(ev *Event) bool { return ev.Kind == EvCall && strings.HasSuffix(ev.Call.Name, "Writer).WriteMsg") }) {
				o2.Sites++
				if p.Events[i].Call.Args[1].Key() != "msg" {
					o2.Fail(c.evPos(&p.Events[i]), "encodes "+p.Events[i].Call.Args[1].Key(), nil)
				}
				if p.OK() && !p.factIs(len(p.Events), "("+p.Events[i].Call.String()+" == nil)", true) {
					o2.Fail(c.evPos(&p.Events[i]), "encoding error ignored", nil)
				}
			}
		}
		if o2.Sites == 0 {
			o2.Fail(c.W.Pos(mf.Pos()), "no WriteMsg call", nil)
		}
	})

	c.Rule("C15.R4", func() {
		fn := c.Func("opchild/l2connect", "WritePrices")
		o := c.Ob("C15.R4", "WritePrices: SetPriceForCurrencyPair only if no stored price or updatedTime.After(stored timestamp); ordered iteration")
		for _, p := range c.Paths(fn, PO{Params: []string{"ctx", "ok", "updatedTime", "prices"}, Visits: 3}) {
			o.Paths++
			o.Facts += p.NFacts()
			for _, i := range p.Find(func(ev *Event) bool {
				return ev.Kind == EvCall && strings.HasSuffix(ev.Call.Name, "OracleKeeper).SetPriceForCurrencyPair")
			}) {
				o.Sites++
				ev := &p.Events[i]
				cp := ev.Call.Args[2]
				if !strings.HasPrefix(cp.Key(), "(opchild/types.OracleKeeper).GetAllCurrencyPairs(ok, ctx)[") {
					o.Fail(c.evPos(ev), "pair "+trunc(cp.Key(), 100)+" does not come from the keeper's ordered slice", c.Dump(p, i))
				}
				var get *Term
				for j := 0; j < i; j++ {
					e2 := &p.Events[j]
					if e2.Kind == EvCall && strings.HasSuffix(e2.Call.Name, "OracleKeeper).GetPriceForCurrencyPair") && e2.Call.Args[2].String() == cp.String() {
						get = e2.Call
					}
				}
				if get == nil {
					o.Fail(c.evPos(ev), "price written without reading the stored price of the same pair", c.Dump(p, i))
					continue
				}
				none := p.factIs(i, "("+get.String()+".1 == nil)", false)
				rel, n := p.Relation(i, keyIs("updatedTime"), func(t *Term) bool { return t.String() == get.String()+".0.BlockTimestamp" })
				if !none && !(n > 0 && rel == rGT) {
					o.Fail(c.evPos(ev), "price overwritten with relation(update time, stored timestamp) = "+relString(rel)+"; want {>} (strictly newer)", c.Dump(p, i))
				}
				qp := ev.Call.Args[3]
				if got := project(qp, "BlockTimestamp", nil).Key(); got != "updatedTime" {
					o.Fail(c.evPos(ev), "stored timestamp is "+got, c.Dump(p, i))
				}
				if got := project(qp, "Price", nil).Key(); !strings.HasPrefix(got, "sdkmath.NewIntFromBigInt(lookup:(prices, "+cp.Key()+")") {
					o.Fail(c.evPos(ev), "stored price is "+trunc(got, 120)+", want the aggregated price of the same pair", c.Dump(p, i))
				}
				if p.OK() && !p.factIs(len(p.Events), "("+ev.Call.String()+" == nil)", true) {
					o.Fail(c.evPos(ev), "SetPrice error swallowed", c.Dump(p, -1))
				}
			}
		}
		if o.Sites == 0 {
			o.Fail(c.W.Pos(fn.Pos()), "no SetPriceForCurrencyPair reached", nil)
		}
		eff := c.W.BuildEffects()
		o2 := c.Ob("C15.R4", "SetPriceForCurrencyPair is called only from WritePrices; no map range in the oracle path")
		for _, s := range eff.Where(func(s *Site) bool { return s.Kind == SIface && s.Method == "SetPriceForCurrencyPair" }) {
			o2.Sites++
			for _, r := range eff.OwnerNames(s) {
				// (Keeper.ApplyOracleUpdate: the keeper-level forwarder to the same handler, an API root)
				if r != "(opchild/keeper.MsgServer).UpdateOracle" && r != "(opchild/keeper.Keeper).ApplyOracleUpdate" {
					o2.Fail(c.W.Pos(s.Pos), "price written from "+r+attributedNote(s, r), nil)
				}
			}
		}
		for _, s := range eff.ReachSites(c.Method(childKeeper, "L2OracleHandler", "UpdateOracle"), func(s *Site) bool { return s.Kind == SMapIter }) {
			o2.Fail(c.W.Pos(s.Pos), "range over a Go map in the oracle update path ("+fnShort(s.Root())+")", nil)
		}
	})

	// the quorum is counted against the RECORDED set: every answer of the store's readers
	// (total power, a validator's power, key and record, the recorded height) comes from a read
	// of the store made in that very call - a memo held by the store object is not rolled back
	// with a discarded context and answers for a set that was never recorded
	c.Rule("C15.R7", func() {
		for _, rd := range [][2]string{{"TotalBondedTokens", "validators"}, {"GetPowerByConsAddr", "validators"}, {"GetPubKeyByConsAddr", "validators"}, {"ValidatorByConsAddr", "validators"}, {"GetAllValidators", "validators"}, {"GetLastHeight", "lastHeight"}} {
			fn := c.Method(childKeeper, "HostValidatorStore", rd[0])
			o := c.Ob("C15.R7", "HostValidatorStore."+rd[0]+": every answer follows a read of the stored "+rd[1]+" in the same call")
			names := []string{"hv", "ctx", "a", "b", "c"}
			for _, p := range c.Paths(fn, PO{Params: names[:len(fn.Params)], Callbacks: true, Visits: 3}) {
				o.Paths++
				if p.Panic {
					continue
				}
				o.Sites++
				read := false
				for i := range p.Events {
					if f, m, ok := collOp(&p.Events[i]); ok && f == rd[1] && collReads[m] {
						read = true
					}
				}
				if !read {
					o.Fail(c.W.Pos(fn.Pos()), "returns "+trunc(retKey(p), 120)+" without reading the stored "+rd[1], c.Dump(p, -1))
				}
			}
			if o.Sites == 0 {
				o.Fail(c.W.Pos(fn.Pos()), "no returning path", nil)
			}
		}
	})

	// the decoded votes keep the identity the signature check used: vote i of the decoder's
	// result carries commit.Votes[i].Validator.Address VERBATIM (no copy into a fixed-size
	// buffer, no trimming or re-encoding) and the extension decoded from commit.Votes[i] -
	// otherwise an entry the validation skipped as "unknown validator" is weighed as a known one
	c.Rule("C15.R8", func() {
		o := c.Ob("C15.R8", "GetOracleVotes: vote i is {ConsAddress: commit.Votes[i].Validator.Address verbatim, extension decoded from commit.Votes[i].VoteExtension}, one per commit entry")
		fn := voteDecoderOf(c)
		if fn == nil {
			o.Fail("-", "the vote decoder (the l2connect call whose result is aggregated) was not found", nil)
			return
		}
		// parameters by type, wherever they stand
		var names []string
		for _, prm := range fn.Params {
			switch tn := prm.Type().String(); {
			case strings.Contains(tn, "ExtendedCommitInfo"):
				names = append(names, "commit")
			case strings.Contains(tn, "VoteExtensionCodec"):
				names = append(names, "veCodec")
			default:
				names = append(names, prm.Name())
			}
		}
		for _, p := range c.Paths(fn, PO{Params: names, Visits: 3}) {
			o.Paths++
			if !p.OK() || p.Panic || len(p.Ret) == 0 {
				continue
			}
			o.Sites++
			n := 0
			for p.HasFact(len(p.Events), func(a *Term, pol bool) bool {
				return pol && a.Op == "bin" && a.Name == "<" && a.Args[0].Key() == fmt.Sprint(n) && strip(a.Args[1]).Key() == "builtin.len(commit.Votes)"
			}) {
				n++
			}
			ret := p.Ret[0]
			if len(p.RetVal) > 0 && p.RetVal[0] != nil {
				ret = p.RetVal[0]
			}
			for ret.Op == "filled" && len(ret.Args) == 2 {
				ret = ret.Args[1] // the content stored into the made slice
			}
			elems, ok := listOf(ret)
			if !ok || len(elems) != n {
				elems = nil
				for i := 0; i < n; i++ {
					elems = append(elems, projectIdx(ret, intTerm(int64(i)), nil))
				}
			}
			if len(elems) != n {
				o.Fail(c.W.Pos(fn.Pos()), fmt.Sprintf("%d commit entries visited but %d votes returned", n, len(elems)), c.Dump(p, -1))
				continue
			}
			for i, e := range elems {
				fs := fieldsSet(e)
				addr, ext := fs["ConsAddress"], fs["OracleVoteExtension"]
				wantA := fmt.Sprintf("commit.Votes[%d].Validator.Address", i)
				if addr == nil || strip(addr).Key() != wantA {
					got := "unset"
					if addr != nil {
						got = trunc(strip(addr).Key(), 120)
					}
					o.Fail(c.W.Pos(fn.Pos()), fmt.Sprintf("vote %d is attributed to %s, want %s verbatim", i, got, wantA), c.Dump(p, -1))
				}
				wantE := fmt.Sprintf("commit.Votes[%d].VoteExtension", i)
				if ext == nil || !strings.Contains(ext.Key(), wantE) || !strings.Contains(ext.Key(), "Decode(") {
					got := "unset"
					if ext != nil {
						got = trunc(ext.Key(), 120)
					}
					o.Fail(c.W.Pos(fn.Pos()), fmt.Sprintf("vote %d carries extension %s, want the decoding of %s", i, got, wantE), c.Dump(p, -1))
				}
			}
		}
		if o.Sites == 0 {
			o.Fail(c.W.Pos(fn.Pos()), "no returning path", nil)
		}
	})

	c.Rule("C15.R6", func() {
		errorDiscipline(c, "C15.R6", "Keeper.UpdateHostValidatorSet", c.Method(childKeeper, "Keeper", "UpdateHostValidatorSet"), PO{Params: []string{"k", "ctx", "clientID", "height", "vs"}, Visits: 3})
		errorDiscipline(c, "C15.R6", "L2OracleHandler.UpdateOracle", c.Method(childKeeper, "L2OracleHandler", "UpdateOracle"), PO{Params: []string{"k", "ctx", "height", "bz"}, Visits: 2, NoInline: []string{encoderNameOf(c)}, Pure: []string{encoderNameOf(c)}})
	})

	c.Rule("C15.R5", func() {
		for _, ms := range []map[string]bool{setOf("Set"), setOf("Remove", "Clear")} {
			c.writersTable("C15.R5", "opchild/keeper.HostValidatorStore", "validators", ms, []string{"(opchild/keeper.Keeper).UpdateHostValidatorSet"})
		}
		c.writersTable("C15.R5", "opchild/keeper.HostValidatorStore", "lastHeight", setOf("Set", "Remove"), []string{"(opchild/keeper.Keeper).UpdateHostValidatorSet"})
		callersTable(c, "C15.R5", c.Method(childKeeper, "HostValidatorStore", "UpdateValidators"), []string{"(opchild/keeper.Keeper).UpdateHostValidatorSet"})
		uv := c.Method(childKeeper, "HostValidatorStore", "UpdateValidators")
		o := c.Ob("C15.R5", "UpdateValidators: the set and its height are replaced only for a strictly higher height, and the new height is recorded")
		for _, p := range c.Paths(uv, PO{Params: []string{"hv", "ctx", "height", "vs"}, Visits: 3, NoInline: []string{"SetValidator", "DeleteAllValidators", "SetLastHeight"}}) {
			o.Paths++
			o.Facts += p.NFacts()
			lh := "(collections.Item[V]).Get(hv.lastHeight, ctx).0"
			// no stored height yet (Get answered not-found): the stored height is the zero default,
			// whether it is read from Get's zero result or written as the literal 0
			notFound := p.HasFact(len(p.Events), func(a *Term, pol bool) bool {
				return pol && a.Op == "call" && a.Name == "errors.Is" && len(a.Args) == 2 && a.Args[0].Key() == "(collections.Item[V]).Get(hv.lastHeight, ctx).1" && strings.HasSuffix(a.Args[1].Key(), "collections.ErrNotFound")
			})
			isStored := func(t *Term) bool { return t.Key() == lh || (notFound && t.IsConst() && t.Name == "0") }
			for i := range p.Events {
				ev := &p.Events[i]
				if ev.Kind != EvCall || !(strings.HasSuffix(ev.Call.Name, "HostValidatorStore).SetValidator") || strings.HasSuffix(ev.Call.Name, "HostValidatorStore).DeleteAllValidators") || strings.HasSuffix(ev.Call.Name, "HostValidatorStore).SetLastHeight")) {
					continue
				}
				o.Sites++
				rel, n := p.Relation(i, isStored, keyIs("height"))
				if n == 0 || rel != rLT {
					o.Fail(c.evPos(ev), methodOf(ev.Call.Name)+" reachable with relation(stored height, new height) = "+relString(rel)+"; want {<}", c.Dump(p, i))
				}
				if strings.HasSuffix(ev.Call.Name, "SetLastHeight") && ev.Call.Args[2].Key() != "height" {
					o.Fail(c.evPos(ev), "records height "+ev.Call.Args[2].Key(), c.Dump(p, i))
				}
			}
			// replaced, not merged: every SetValidator / SetLastHeight comes after an
			// unconditional DeleteAllValidators on the same path, and each stored record is
			// built from the incoming set's own element (key, power)
			firstDel := -1
			for i := range p.Events {
				ev := &p.Events[i]
				if ev.Kind == EvCall && strings.HasSuffix(ev.Call.Name, "HostValidatorStore).DeleteAllValidators") && firstDel < 0 {
					firstDel = i
				}
				if ev.Kind != EvCall || !(strings.HasSuffix(ev.Call.Name, "HostValidatorStore).SetValidator") || strings.HasSuffix(ev.Call.Name, "HostValidatorStore).SetLastHeight")) {
					continue
				}
				if firstDel < 0 || !p.factIs(i, "("+p.Events[firstDel].Call.String()+" == nil)", true) {
					o.Fail(c.evPos(ev), methodOf(ev.Call.Name)+" without a preceding successful DeleteAllValidators: the stored host set is merged with the new one instead of replaced (retired validators keep their key and power)", c.Dump(p, i))
				}
				if strings.HasSuffix(ev.Call.Name, "SetValidator") {
					v := ev.Call.Args[2]
					el := ""
					v.Walk(func(x *Term) bool {
						if k := x.Key(); el == "" && strings.HasPrefix(k, "(*cmtproto.ValidatorSet).GetValidators(vs)[") && strings.HasSuffix(k, ".PubKey") {
							el = strings.TrimSuffix(k, ".PubKey")
						}
						return el == ""
					})
					if el == "" || !v.Mentions(el+".VotingPower") {
						o.Fail(c.evPos(ev), "stored host validator "+trunc(v.Key(), 160)+" is not built from one element's (PubKey, VotingPower) of the incoming set", c.Dump(p, i))
					}
				}
			}
			if p.OK() && !p.Panic {
				rel, n := p.Relation(len(p.Events), isStored, keyIs("height"))
				sl := p.Find(func(ev *Event) bool {
					return ev.Kind == EvCall && strings.HasSuffix(ev.Call.Name, "HostValidatorStore).SetLastHeight")
				})
				// every element of the incoming set is stored
				nSet := len(p.Find(func(ev *Event) bool {
					return ev.Kind == EvCall && strings.HasSuffix(ev.Call.Name, "HostValidatorStore).SetValidator")
				}))
				if n > 0 && rel == rLT && !factKeyIs(p, len(p.Events), fmt.Sprintf("(%d < builtin.len((*cmtproto.ValidatorSet).GetValidators(vs)))", nSet), false) {
					o.Fail(c.W.Pos(uv.Pos()), fmt.Sprintf("accepting path stores %d validators without having reached the end of the incoming set", nSet), c.Dump(p, -1))
				}
				if n > 0 && rel == rLT && len(sl) != 1 {
					o.Fail(c.W.Pos(uv.Pos()), "set replaced without recording the new height", c.Dump(p, -1))
				}
			}
		}
		if o.Sites == 0 {
			o.Fail(c.W.Pos(uv.Pos()), "no store write found", nil)
		}
		da := c.Method(childKeeper, "HostValidatorStore", "DeleteAllValidators")
		o3 := c.Ob("C15.R5", "DeleteAllValidators clears the whole host validator map (nil range) and returns the store error")
		for _, p := range c.Paths(da, PO{Params: []string{"hv", "ctx"}}) {
			o3.Paths++
			for _, i := range collEvents(p, len(p.Events), "validators", "Clear") {
				o3.Sites++
				ev := &p.Events[i]
				if !ev.Call.Args[2].IsNil() {
					o3.Fail(c.evPos(ev), "clears only the range "+trunc(ev.Call.Args[2].Key(), 100), nil)
				}
				if len(p.Ret) != 1 || p.Ret[0].String() != ev.Call.String() {
					o3.Fail(c.evPos(ev), "the Clear error is not returned", nil)
				}
			}
		}
		if o3.Sites == 0 {
			o3.Fail(c.W.Pos(da.Pos()), "no Clear on the host validator map", nil)
		}
		uh := c.Method(childKeeper, "Keeper", "UpdateHostValidatorSet")
		o2 := c.Ob("C15.R5", "UpdateHostValidatorSet: only for a non-empty client id equal to the bound L1 client id")
		for _, p := range c.Paths(uh, PO{Params: []string{"k", "ctx", "clientID", "height", "vs"}, NoInline: []string{"UpdateValidators"}}) {
			o2.Paths++
			o2.Facts += p.NFacts()
			for _, i := range p.Find(func(ev *Event) bool {
				return ev.Kind == EvCall && strings.HasSuffix(ev.Call.Name, "HostValidatorStore).UpdateValidators")
			}) {
				o2.Sites++
				ev := &p.Events[i]
				nonEmpty := p.HasFact(i, func(a *Term, pol bool) bool { return !pol && eqAtom(a, "clientID", `""`) })
				same := p.HasFact(i, func(a *Term, pol bool) bool {
					return pol && eqAtom(a, "clientID", "(collections.Item[V]).Get(k.BridgeInfo, ctx).0.L1ClientId")
				})
				if !nonEmpty || !same {
					o2.Fail(c.evPos(ev), fmt.Sprintf("host set updated without: non-empty client id [%v], equal to BridgeInfo.L1ClientId [%v]", nonEmpty, same), c.Dump(p, i))
				}
				if ev.Call.Args[2].Key() != "height" || ev.Call.Args[3].Key() != "vs" {
					o2.Fail(c.evPos(ev), "forwards ("+ev.Call.Args[2].Key()+", "+ev.Call.Args[3].Key()+")", nil)
				}
			}
		}
		if o2.Sites == 0 {
			o2.Fail(c.W.Pos(uh.Pos()), "no UpdateValidators call", nil)
		}
	})
}

func encoderNameOf(c *Ctx) string {
	n, _ := signBytesEncoderName(c)
	return n
}

func retKey(p *Path) string {
	var ks []string
	for _, r := range p.Ret {
		ks = append(ks, r.Key())
	}
	return "(" + strings.Join(ks, ", ") + ")"
}

// voteDecoderOf: the l2connect function whose first result L2OracleHandler.UpdateOracle hands to
// the vote aggregator (found by role, whatever it is called).
func voteDecoderOf(c *Ctx) *ssa.Function {
	fn := c.Method(childKeeper, "L2OracleHandler", "UpdateOracle")
	po := PO{Params: []string{"k", "ctx", "height", "bz"}, NoInline: []string{"opchild/l2connect.", "GetLastHeight"}}
	for _, p := range c.Paths(fn, po) {
		agg := p.Find(func(ev *Event) bool {
			return ev.Kind == EvCall && strings.HasSuffix(ev.Call.Name, "VoteAggregator).AggregateOracleVotes")
		})
		if len(agg) != 1 || len(p.Events[agg[0]].Call.Args) < 3 {
			continue
		}
		for i := range p.Events {
			e2 := &p.Events[i]
			if e2.Kind == EvCall && strings.HasPrefix(e2.Call.Name, "opchild/l2connect.") && e2.Call.String()+".0" == p.Events[agg[0]].Call.Args[2].String() {
				if ci, ok := e2.Instr.(ssa.CallInstruction); ok {
					if callee := ci.Common().StaticCallee(); callee != nil && callee.Blocks != nil {
						return callee
					}
				}
			}
		}
	}
	return nil
}
