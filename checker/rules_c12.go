package main

import (
	"fmt"
	"sort"
	"strings"

	"golang.org/x/tools/go/ssa"
)

// C12 — Authorization is complete and follows the current role holder.

const (
	cfgGet    = "(collections.Map[K, V]).Get(ms.Keeper.BridgeConfigs, ctx, req.BridgeId).0"
	paramsGet = "(collections.Item[V]).Get(ms.Keeper.Params, ctx).0"
)

// policy: handler -> allowed roles (empty = permissionless)
var c12Policy = map[string][]string{
	"ophost.RecordBatch":              {},
	"ophost.CreateBridge":             {},
	"ophost.InitiateTokenDeposit":     {},
	"ophost.FinalizeTokenWithdrawal":  {},
	"ophost.ProposeOutput":            {"proposer"},
	"ophost.DeleteOutput":             {"authority", "proposer", "challenger"},
	"ophost.UpdateProposer":           {"authority", "proposer"},
	"ophost.UpdateBatchInfo":          {"authority", "proposer"},
	"ophost.UpdateMetadata":           {"authority", "proposer"},
	"ophost.UpdateOracleConfig":       {"authority", "proposer"},
	"ophost.UpdateChallenger":         {"authority", "challenger"},
	"ophost.UpdateParams":             {"authority"},
	"opchild.InitiateTokenWithdrawal": {},
	"opchild.AddValidator":            {"authority"},
	"opchild.RemoveValidator":         {"authority"},
	"opchild.UpdateParams":            {"authority"},
	"opchild.SpendFeePool":            {"authority"},
	"opchild.ExecuteMessages":         {"admin"},
	"opchild.SetBridgeInfo":           {"executor"},
	"opchild.FinalizeTokenDeposit":    {"executor"},
	"opchild.UpdateOracle":            {"executor"},
}

// roleOfAtom recognises a granting comparison between a freshly loaded role
// holder and the declared signer field of the request.
func roleOfAtom(atom *Term, signer string) string {
	other := eqOther(atom, "req."+signer)
	if other == nil {
		return ""
	}
	switch strip(other).Key() {
	case "ms.Keeper.authority":
		return "authority"
	case cfgGet + ".Proposer":
		return "proposer"
	case cfgGet + ".Challenger":
		return "challenger"
	case paramsGet + ".Admin":
		return "admin"
	}
	return ""
}

// decodedFrom: t is StringToBytes(codec, X).0 -> X (the bech32 string that was decoded).
func decodedFrom(t *Term) *Term {
	t = strip(t)
	if t.Op == "extract" && t.Name == "0" {
		t = t.Args[0]
	}
	if t.Op == "call" && strings.HasSuffix(t.Name, "(address.Codec).StringToBytes") && len(t.Args) == 2 {
		return strip(t.Args[1])
	}
	return nil
}

// executorAtom: bytes.Equal(<element of Params.BridgeExecutors decoded>, StringToBytes(req.<signer>)).
func executorAtom(atom *Term, signerKey string) bool {
	args := callAtom(atom, "bytes.Equal")
	if len(args) != 2 {
		return false
	}
	for i := 0; i < 2; i++ {
		a, b := decodedFrom(args[i]), decodedFrom(args[1-i])
		if a == nil || b == nil || b.Key() != signerKey {
			continue
		}
		// a must be an element of the freshly loaded executor list
		if a.Op == "index" && strip(a.Args[0]).Key() == paramsGet+".BridgeExecutors" {
			return true
		}
	}
	return false
}

func rolesBefore(p *Path, upto int, signer string) map[string]bool {
	roles := map[string]bool{}
	for i := 0; i < upto && i < len(p.Events); i++ {
		ev := &p.Events[i]
		if ev.Kind != EvFact || !ev.Pol {
			continue
		}
		if r := roleOfAtom(ev.Cond, signer); r != "" {
			roles[r] = true
		}
		if executorAtom(ev.Cond, "req."+signer) {
			roles["executor"] = true
		}
	}
	return roles
}

func propC12(c *Ctx) {
	c.Clauses = append(c.Clauses,
		"every MsgServer method of both modules has a policy row (exhaustiveness over the generated gRPC interface)",
		"every persistent effect and every success return of a permissioned handler is preceded, on every bounded path, by a granting comparison of the proto-declared signer field with a freshly loaded allowed role holder; each allowed role alone suffices; no other role grants",
		"role updates store exactly the new holder into the freshly loaded config that is then written back",
		"ExecuteMessages: per inner message exactly one signer equal to the module authority precedes the handler call; handlers run on the cache context; the cache is written only after the loop and no error is returned after it",
		"SetBridgeInfo: the stored binding (bridge id, address, L1 chain id, L1 client id once set) can only be overwritten by an equal one")
	c.NotDecided = append(c.NotDecided, "that the ante handler actually verifies the declared signer's signature (A7 app wiring)")
	c.Assumptions = append(c.Assumptions, "A1", "A2", "A3", "A6", "A7", "A10")

	handlers := map[string]*ssa.Function{}
	signers := map[string]string{}
	c.Rule("C12.R1", func() {
		for _, mod := range []string{"ophost", "opchild"} {
			hs := c.Handlers(mod)
			ps := c.ProtoSigners(mod)
			for n, fn := range hs {
				handlers[mod+"."+n] = fn
				o := c.Ob("C12.R1", "policy row for handler "+mod+"."+n)
				o.Sites = 1
				o.Where = c.W.Pos(fn.Pos())
				if _, ok := c12Policy[mod+"."+n]; !ok {
					o.Fail(c.W.Pos(fn.Pos()), "handler has no authorization policy row (new message type without a declared policy)", nil)
				}
				msg := reqMsgName(fn)
				o2 := c.Ob("C12.R2", "declared signer of "+mod+"."+msg)
				o2.Sites = 1
				if s, ok := ps[msg]; ok {
					signers[mod+"."+n] = s
					o2.Note("signer field = " + s)
				} else {
					o2.Fail(c.W.Pos(fn.Pos()), "no cosmos.msg.v1.signer option found for "+msg, nil)
				}
			}
		}
		for k := range c12Policy {
			if handlers[k] == nil {
				c.Ob("C12.R1", "policy row for handler "+k).Fail("-", "policy row names a handler that no longer exists", nil)
			}
		}
		o := c.Ob("C12.R1", "handler count floor")
		o.Sites = len(handlers)
		if len(handlers) < 21 {
			o.Fail("-", fmt.Sprintf("only %d handlers resolved (floor 21)", len(handlers)), nil)
		}
	})

	names := sortedKeys(handlers)
	for _, hn := range names {
		hn := hn
		fn := handlers[hn]
		allowed := setOf(c12Policy[hn]...)
		if len(allowed) == 0 {
			continue
		}
		signer := signers[hn]
		c.Rule("C12.R3", func() {
			po := PO{Params: hParams, NoInline: []string{"Validate", "handleBridgeHook", "safeDepositToken", "emitWithdrawEvents", "ApplyOracleUpdate", "GetLastFinalizedOutput", "SetBatchInfo", "types.NewValidator"}, Visits: 3}
			paths := c.Paths(fn, po)
			o := c.Ob("C12.R3", hn+": every effect and success return is guarded by an allowed role over req."+signer)
			solo := map[string]bool{}
			granted := map[string]bool{}
			for _, p := range paths {
				o.Paths++
				o.Facts += p.NFacts()
				check := func(upto int, what, where string) {
					roles := rolesBefore(p, upto, signer)
					for r := range roles {
						granted[r] = true
					}
					if len(roles) == 0 {
						o.Fail(where, "reaches "+what+" without any granting role comparison over req."+signer, c.Dump(p, upto))
						return
					}
					for r := range roles {
						if !allowed[r] {
							o.Fail(where, "role "+r+" grants "+what+" but is not allowed by the policy "+fmt.Sprint(keysOf(allowed)), c.Dump(p, upto))
						}
					}
					if len(roles) == 1 {
						for r := range roles {
							solo[r] = true
						}
					}
				}
				for i := range p.Events {
					ev := &p.Events[i]
					if k := effectKind(ev); k != "" {
						o.Sites++
						check(i, "effect "+k, c.evPos(ev))
					}
				}
				if p.OK() && !p.Panic {
					check(len(p.Events), "a success return", c.W.Pos(fn.Pos()))
				}
			}
			for r := range allowed {
				o2 := c.Ob("C12.R3", hn+": role "+r+" alone grants")
				o2.Paths = len(paths)
				o2.Facts = o.Facts
				if !solo[r] {
					o2.Fail(c.W.Pos(fn.Pos()), "no success/effect path is granted by role "+r+" alone (and/or slip or dropped role); roles seen: "+fmt.Sprint(keysOf(granted)), nil)
				}
			}
		})
	}

	// R3b: guards precede every store read that could leak? (not required) — skipped.

	// R4: role rotation stores exactly the new holder into the loaded config.
	type upd struct{ handler, field, from string }
	for _, u := range []upd{
		{"ophost.UpdateProposer", "Proposer", "req.NewProposer"},
		{"ophost.UpdateChallenger", "Challenger", "req.Challenger"},
		{"ophost.UpdateBatchInfo", "BatchInfo", "req.NewBatchInfo"},
		{"ophost.UpdateOracleConfig", "OracleEnabled", "req.OracleEnabled"},
		{"ophost.UpdateMetadata", "Metadata", "req.Metadata"},
	} {
		u := u
		c.Rule("C12.R4", func() {
			fn := handlers[u.handler]
			if fn == nil {
				panic(anchorErr{u.handler})
			}
			o := c.Ob("C12.R4", u.handler+": BridgeConfigs.Set stores loaded config with only "+u.field+" := "+u.from)
			want := cfgGet + "{" + u.field + ":=" + u.from + "}"
			found := 0
			for _, p := range c.Paths(fn, PO{Params: hParams, NoInline: []string{"Validate", "GetLastFinalizedOutput", "SetBatchInfo"}}) {
				o.Paths++
				o.Facts += p.NFacts()
				for i := range p.Events {
					ev := &p.Events[i]
					if f, m, ok := collOp(ev); ok && f == "BridgeConfigs" && m == "Set" {
						found++
						o.Sites++
						key, val := ev.Call.Args[2], ev.Call.Args[3]
						if key.Key() != "req.BridgeId" {
							o.Fail(c.evPos(ev), "config written under key "+key.Key()+" instead of req.BridgeId", c.Dump(p, i))
						}
						if val.Key() != want {
							o.Fail(c.evPos(ev), "stored config is "+trunc(val.Key(), 200)+", want "+want, c.Dump(p, i))
						}
					}
				}
				if p.OK() && len(p.Find(func(ev *Event) bool { f, m, ok := collOp(ev); return ok && f == "BridgeConfigs" && m == "Set" })) != 1 {
					o.Fail(c.W.Pos(fn.Pos()), "success path without exactly one BridgeConfigs.Set", c.Dump(p, -1))
				}
			}
			if found == 0 {
				o.Fail(c.W.Pos(fn.Pos()), "no BridgeConfigs.Set reached", nil)
			}
		})
	}

	// a params update by the authority takes effect as sent: the role-holding fields of the
	// stored params are the request's own (an empty executor list revokes every executor)
	c.Rule("C12.R4", func() {
		fn := handlers["opchild.UpdateParams"]
		if fn == nil {
			panic(anchorErr{"opchild.UpdateParams"})
		}
		o := c.Ob("C12.R4", "opchild.UpdateParams: the stored params carry the request's Admin and BridgeExecutors verbatim")
		for _, p := range c.Paths(fn, PO{Params: hParams, Callbacks: true, NoInline: []string{".Validate", "GetAllValidators"}}) {
			o.Paths++
			sets := collEvents(p, len(p.Events), "Params", "Set")
			if p.OK() && !p.Panic && len(sets) != 1 {
				o.Fail(c.W.Pos(fn.Pos()), fmt.Sprintf("success path with %d Params.Set (want 1)", len(sets)), c.Dump(p, -1))
			}
			for _, i := range sets {
				o.Sites++
				v := strip(p.Events[i].Call.Args[2])
				for _, f := range []string{"Admin", "BridgeExecutors"} {
					if got := strip(project(v, f, nil)).Key(); got != "req.Params."+f {
						o.Fail(c.evPos(&p.Events[i]), "stored "+f+" is "+trunc(got, 120)+", want req.Params."+f+" (the role change must take effect as sent)", c.Dump(p, i))
					}
				}
			}
		}
		if o.Sites == 0 {
			o.Fail(c.W.Pos(fn.Pos()), "no Params.Set reached", nil)
		}
	})

	// the executor role of opchild changes hands at the plan height
	c.Rule("C12.R4", func() { executorHandover(c, "C12.R4") })

	// R5: ExecuteMessages
	c.Rule("C12.R5", func() {
		fn := handlers["opchild.ExecuteMessages"]
		if fn == nil {
			panic(anchorErr{"opchild.ExecuteMessages"})
		}
		paths := c.Paths(fn, PO{Params: hParams, NoInline: []string{"Validate"}, Visits: 4})
		o := c.Ob("C12.R5", "ExecuteMessages: inner handler call guarded by single signer == module authority, on the cache context")
		o2 := c.Ob("C12.R5", "ExecuteMessages: cache written once, after all handlers, and nothing fails after it")
		nHandlerCalls := 0
		for _, p := range paths {
			o.Paths++
			o2.Paths++
			o.Facts += p.NFacts()
			o2.Facts += p.NFacts()
			var cacheCtx, writeCache string
			writeIdx := -1
			for i := range p.Events {
				ev := &p.Events[i]
				if ev.Kind == EvCall && strings.HasSuffix(ev.Call.Name, "(sdk.Context).CacheContext") {
					cacheCtx = ev.Call.String() + ".0"
					writeCache = ev.Call.String() + ".1"
				}
				if ev.Kind != EvCall || ev.Call.Name != "dynamic" {
					continue
				}
				fun := strip(ev.Fun)
				if fun.String() == writeCache {
					if writeIdx >= 0 {
						o2.Fail(c.evPos(ev), "cache written twice", c.Dump(p, i))
					}
					writeIdx = i
					continue
				}
				// an inner message execution: Router().Handler(msg)(cacheCtx, msg) - or any other
				// function value invoked with (context, message), e.g. a handler taken from a
				// per-type cache: whatever the indirection, the message that is EXECUTED must
				// carry the signer facts
				isRouted := fun.Op == "call" && strings.HasSuffix(fun.Name, "MsgServiceRouter).Handler")
				if isRouted || len(ev.Call.Args) == 2 {
					nHandlerCalls++
					o.Sites++
					msg := ev.Call.Args[1]
					if isRouted {
						msg = fun.Args[len(fun.Args)-1]
					}
					if writeIdx >= 0 {
						o2.Fail(c.evPos(ev), "inner handler invoked after the cache was written", c.Dump(p, i))
					}
					if len(ev.Call.Args) < 2 || ev.Call.Args[0].String() != cacheCtx || cacheCtx == "" {
						o.Fail(c.evPos(ev), "inner handler does not receive the cache context (got "+trunc(ev.Call.Args[0].String(), 80)+")", c.Dump(p, i))
					}
					if ev.Call.Args[1].String() != msg.String() {
						o.Fail(c.evPos(ev), "handler invoked with a different message than it was routed for", c.Dump(p, i))
					}
					// signers of this very message
					var signersT *Term
					for j := 0; j < i; j++ {
						e2 := &p.Events[j]
						if e2.Kind == EvCall && strings.HasSuffix(e2.Call.Name, "GetMsgV1Signers") && e2.Call.Args[len(e2.Call.Args)-1].String() == msg.String() {
							signersT = e2.Call
						}
					}
					if signersT == nil {
						o.Fail(c.evPos(ev), "no GetMsgV1Signers call for the routed message before the handler call", c.Dump(p, i))
						continue
					}
					sl := signersT.String() + ".0"
					okLen := p.HasFact(i, func(a *Term, pol bool) bool {
						return pol && a.Op == "bin" && a.Name == "==" && a.Args[0].Key() == "builtin.len("+stripIDs(sl)+")" && a.Args[0].String() == "builtin.len("+sl+")" && a.Args[1].Key() == "1"
					})
					okErr := p.factIs(i, "("+signersT.String()+".2 == nil)", true)
					okEq := p.HasFact(i, func(a *Term, pol bool) bool {
						args := callAtom(a, "bytes.Equal")
						if !pol || len(args) != 2 {
							return false
						}
						x, y := args[0], args[1]
						if y.String() == sl+"[0]" {
							x, y = y, x
						}
						d := decodedFrom(y)
						return x.String() == sl+"[0]" && d != nil && d.Key() == "ms.Keeper.authority"
					})
					if !okLen || !okEq || !okErr {
						o.Fail(c.evPos(ev), fmt.Sprintf("inner handler reachable without: len(signers)==1 [%v], signers err==nil [%v], bytes.Equal(signers[0], StringToBytes(authority)) [%v]", okLen, okErr, okEq), c.Dump(p, i))
					}
					// the handler's error must abort
				}
			}
			if p.OK() {
				if writeIdx < 0 {
					o2.Fail(c.W.Pos(fn.Pos()), "success return without writing the cache", c.Dump(p, -1))
				}
			} else if !p.Panic && writeIdx >= 0 {
				o2.Fail(c.W.Pos(fn.Pos()), "error return after the cache was written (not all-or-nothing)", c.Dump(p, -1))
			}
			// every handler error aborts: a path with handler err != nil must not be OK
			for i := range p.Events {
				ev := &p.Events[i]
				if ev.Kind == EvFact && !ev.Pol && ev.Cond.Op == "bin" && ev.Cond.Name == "==" && ev.Cond.Args[1].IsNil() {
					x := ev.Cond.Args[0]
					if x.Op == "extract" && x.Name == "1" && x.Args[0].Op == "call" && x.Args[0].Name == "dynamic" && p.OK() {
						o2.Fail(c.evPos(ev), "inner handler error does not abort ExecuteMessages", c.Dump(p, -1))
					}
				}
			}
		}
		if nHandlerCalls == 0 {
			o.Fail(c.W.Pos(fn.Pos()), "no routed inner handler call found (floor 1)", nil)
		}
	})

	// R6: bridge binding
	c.Rule("C12.R6", func() {
		fn := handlers["opchild.SetBridgeInfo"]
		if fn == nil {
			panic(anchorErr{"opchild.SetBridgeInfo"})
		}
		o := c.Ob("C12.R6", "SetBridgeInfo: BridgeInfo.Set only when absent or equal in BridgeId, BridgeAddr, L1ChainId and (unset or equal) L1ClientId")
		sets := 0
		for _, p := range c.Paths(fn, PO{Params: hParams, NoInline: []string{"Validate", "checkBridgeExecutorPermission"}}) {
			o.Paths++
			o.Facts += p.NFacts()
			for i := range p.Events {
				ev := &p.Events[i]
				f, m, ok := collOp(ev)
				if !ok || f != "BridgeInfo" || m != "Set" {
					continue
				}
				sets++
				o.Sites++
				if ev.Call.Args[2].Key() != "req.BridgeInfo" {
					o.Fail(c.evPos(ev), "stores "+ev.Call.Args[2].Key()+" instead of req.BridgeInfo", c.Dump(p, i))
				}
				// find Has / Get on this path
				var has, get *Term
				for j := 0; j < i; j++ {
					if f2, m2, ok := collOp(&p.Events[j]); ok && f2 == "BridgeInfo" {
						if m2 == "Has" {
							has = p.Events[j].Call
						}
						if m2 == "Get" {
							get = p.Events[j].Call
						}
					}
				}
				if has == nil {
					o.Fail(c.evPos(ev), "BridgeInfo.Set without a preceding BridgeInfo.Has", c.Dump(p, i))
					continue
				}
				if !p.factIs(i, "("+has.String()+".1 == nil)", true) {
					o.Fail(c.evPos(ev), "BridgeInfo.Has error not checked", c.Dump(p, i))
				}
				if p.factIs(i, has.String()+".0", false) {
					continue // absent: first binding
				}
				if get == nil || !p.factIs(i, "("+get.String()+".1 == nil)", true) {
					o.Fail(c.evPos(ev), "existing binding not loaded (or load error ignored) before overwrite", c.Dump(p, i))
					continue
				}
				g := get.String() + ".0"
				for _, fld := range []string{"BridgeId", "BridgeAddr", "L1ChainId"} {
					if !p.HasFact(i, func(a *Term, pol bool) bool { return pol && eqAtomS(a, g+"."+fld, "req.BridgeInfo."+fld) }) {
						o.Fail(c.evPos(ev), "overwrite possible with a different "+fld, c.Dump(p, i))
					}
				}
				unset := p.HasFact(i, func(a *Term, pol bool) bool { return pol && eqAtomS(a, g+".L1ClientId", `""`) })
				same := p.HasFact(i, func(a *Term, pol bool) bool { return pol && eqAtomS(a, g+".L1ClientId", "req.BridgeInfo.L1ClientId") })
				if !unset && !same {
					o.Fail(c.evPos(ev), "overwrite possible with a different L1ClientId although one is set", c.Dump(p, i))
				}
			}
		}
		if sets == 0 {
			o.Fail(c.W.Pos(fn.Pos()), "no BridgeInfo.Set reached", nil)
		}
		// writers table
		eff := c.W.BuildEffects()
		o2 := c.Ob("C12.R6", "BridgeInfo writers = {SetBridgeInfo handler, InitGenesis}")
		allowedW := setOf("(opchild/keeper.MsgServer).SetBridgeInfo", "(opchild.AppModule).InitGenesis")
		seen := map[string]bool{}
		for _, s := range eff.Where(func(s *Site) bool {
			return s.Kind == SColl && s.Field == "BridgeInfo" && s.IsCollWrite() && strings.HasPrefix(s.Owner, "opchild/")
		}) {
			o2.Sites++
			for _, r := range eff.OwnerNames(s) {
				seen[r] = true
				if !allowedW[r] {
					o2.Fail(c.W.Pos(s.Pos), "BridgeInfo."+s.Method+" in "+r+attributedNote(s, r)+" (not an allowed writer)", nil)
				}
			}
		}
		for w := range allowedW {
			if !seen[w] {
				o2.Fail("-", "expected writer "+w+" not found (floor)", nil)
			}
		}
	})
	sort.SliceStable(c.Obls, func(i, j int) bool { return c.Obls[i].Rule < c.Obls[j].Rule })
}

// eqAtomS: like eqAtom but on String() (instance-exact) for x and Key for y when y has no ids.
func eqAtomS(atom *Term, x, y string) bool {
	if atom.Op != "bin" || atom.Name != "==" {
		return false
	}
	a, b := strip(atom.Args[0]).String(), strip(atom.Args[1]).String()
	return (a == x && b == y) || (a == y && b == x)
}

func stripIDs(s string) string {
	var b strings.Builder
	for i := 0; i < len(s); i++ {
		if s[i] == '#' {
			j := i + 1
			for j < len(s) && s[j] >= '0' && s[j] <= '9' {
				j++
			}
			if j > i+1 {
				i = j - 1
				continue
			}
		}
		b.WriteByte(s[i])
	}
	return b.String()
}
