package main

import (
	"fmt"
	"strings"
)

// C19 — permissioned IBC channel admin follows the challenger

const hookPkg = "ophost/types/hook"

func propC19(c *Ctx) {
	c.Clauses = append(c.Clauses,
		"create / update-metadata: every listed channel is registered to the challenger or already administered by it, list walked to its end; hasPermChannels is false only for empty metadata, a failed parse / strict decode, or an absent key",
		"PermKeeper.SetAdmin is called only from registerChannelAdmin and BridgeChallengerUpdated",
		"registerChannelAdmin reaches SetAdmin only when the channel exists (GetNextSequenceSend ok), has sent nothing (sequence == 1) and IsTaken == (false, nil); the admin is the caller's decoded challenger",
		"every PermKeeper call in the three hooks is gated by hasPermChannels(config.Metadata) == true; hasPermChannels is true only when the key probe is true and strict decoding (DisallowUnknownFields applied to that decoder) succeeded; BridgeMetadataUpdated skips channels the challenger already administers",
		"handlers: the hook result is checked and returned; in Update* handlers the hook precedes the config store; UpdateChallenger passes a config whose Challenger is req.Challenger; the BridgeHooks fan-out returns the first error")
	c.NotDecided = append(c.NotDecided, "behaviour of the external IBC perm/channel keepers (A4)", "JSON decoding semantics for duplicate / differently-cased keys (encoding/json, trusted)")
	c.Assumptions = append(c.Assumptions, "A1", "A2", "A4", "A10")
	eff := c.W.BuildEffects()

	c.Rule("C19.R1", func() {
		o := c.Ob("C19.R1", "SetAdmin is reached only from the three bridge hooks {BridgeCreated, BridgeMetadataUpdated (both via the fresh-and-free registration), BridgeChallengerUpdated}")
		al := setOf("(ophost/types/hook.BridgeHook).BridgeCreated", "(ophost/types/hook.BridgeHook).BridgeMetadataUpdated", "(ophost/types/hook.BridgeHook).BridgeChallengerUpdated")
		seen := map[string]bool{}
		for _, s := range eff.Where(func(s *Site) bool { return s.Kind == SIface && s.Method == "SetAdmin" }) {
			o.Sites++
			for _, r := range eff.OwnerNames(s) {
				seen[r] = true
				if !al[r] {
					o.Fail(c.W.Pos(s.Pos), "SetAdmin called from "+r+attributedNote(s, r), nil)
				}
			}
		}
		for a := range al {
			if !seen[a] {
				o.Fail("-", "expected site "+a+" not found (floor 2)", nil)
			}
		}
	})

	c.Rule("C19.R2", func() {
		// decided at the hooks (the registration helper, whatever it is called and whichever
		// receiver or parameters it has, is inlined): in BridgeCreated and BridgeMetadataUpdated
		// every SetAdmin needs, for the very same (port, channel): the channel exists, its next
		// send sequence is 1, and IsTaken == (false, nil)
		for _, hn := range []string{"BridgeCreated", "BridgeMetadataUpdated"} {
			fn := c.Method(hookPkg, "BridgeHook", hn)
			o := c.Ob("C19.R2", hn+": SetAdmin only for an existing, unused, untaken channel (fresh-and-free registration)")
			for _, p := range c.Paths(fn, PO{Params: []string{"h", "ctx", "bridgeId", "cfg"}, NoInline: []string{"hasPermChannels"}, Pure: []string{"hasPermChannels"}, Visits: 3}) {
				o.Paths++
				o.Facts += p.NFacts()
				for _, i := range p.Find(func(ev *Event) bool {
					return ev.Kind == EvCall && strings.HasSuffix(ev.Call.Name, "PermKeeper).SetAdmin")
				}) {
					o.Sites++
					ev := &p.Events[i]
					n := len(ev.Call.Args)
					port, ch := ev.Call.Args[n-3].Key(), ev.Call.Args[n-2].Key()
					var seq, taken *Term
					for j := 0; j < i; j++ {
						e2 := &p.Events[j]
						if e2.Kind != EvCall {
							continue
						}
						m := len(e2.Call.Args)
						if strings.HasSuffix(e2.Call.Name, "ChannelKeeper).GetNextSequenceSend") && m >= 2 && e2.Call.Args[m-2].Key() == port && e2.Call.Args[m-1].Key() == ch {
							seq = e2.Call
						}
						if strings.HasSuffix(e2.Call.Name, "PermKeeper).IsTaken") && m >= 2 && e2.Call.Args[m-2].Key() == port && e2.Call.Args[m-1].Key() == ch {
							taken = e2.Call
						}
					}
					exists := seq != nil && p.factIs(i, seq.String()+".1", true)
					fresh := false
					if seq != nil {
						rel, nr := p.Relation(i, func(t *Term) bool { return t.String() == seq.String()+".0" }, keyIs("1"))
						fresh = nr > 0 && rel == rEQ
					}
					free := taken != nil && p.factIs(i, taken.String()+".0", false) && p.factIs(i, "("+taken.String()+".1 == nil)", true)
					if !exists || !fresh || !free {
						o.Fail(c.evPos(ev), fmt.Sprintf("admin granted without (same port/channel): channel exists [%v], next send sequence == 1 [%v], IsTaken == (false,nil) [%v]", exists, fresh, free), c.Dump(p, i))
					}
				}
			}
			if o.Sites == 0 {
				o.Fail(c.W.Pos(fn.Pos()), "no SetAdmin reached", nil)
			}
		}
	})

	c.Rule("C19.R3", func() {
		hp := c.Func(hookPkg, "hasPermChannels")
		o := c.Ob("C19.R3", "hasPermChannels: true only with key probe true and strict Decode == nil on a decoder with DisallowUnknownFields")
		nT := 0
		for _, p := range c.Paths(hp, PO{Params: []string{"metadata"}}) {
			o.Paths++
			o.Facts += p.NFacts()
			if p.Panic || len(p.Ret) != 2 || p.Ret[0].IsFalse() {
				continue
			}
			o.Sites++
			nT++
			if !p.Ret[0].IsTrue() {
				o.Fail(c.W.Pos(hp.Pos()), "result is not a constant: "+p.Ret[0].Key(), c.Dump(p, -1))
				continue
			}
			probe := p.HasFact(len(p.Events), func(a *Term, pol bool) bool {
				return pol && a.Op == "extract" && a.Name == "1" && a.Args[0].Op == "lookup" && a.Args[0].Args[1].Key() == `"perm_channels"`
			})
			var dec, strict *Term
			for i := range p.Events {
				ev := &p.Events[i]
				if ev.Kind == EvCall && strings.HasSuffix(ev.Call.Name, "json.Decoder).DisallowUnknownFields") {
					strict = ev.Call
				}
				if ev.Kind == EvCall && strings.HasSuffix(ev.Call.Name, "json.Decoder).Decode") {
					dec = ev.Call
				}
			}
			decoded := dec != nil && p.factIs(len(p.Events), "("+dec.String()+" == nil)", true)
			isStrict := dec != nil && strict != nil && strict.Args[0].String() == dec.Args[0].String() && strict.ID < dec.ID
			// the decoder reads the metadata itself: NewDecoder(strings.NewReader(string(metadata))) or NewDecoder(bytes.NewReader(metadata))
			src := dec != nil && (strings.Contains(dec.Args[0].Key(), "strings.NewReader(string(metadata))") || strings.Contains(dec.Args[0].Key(), "bytes.NewReader(metadata)") || strings.Contains(dec.Args[0].Key(), "bytes.NewBuffer(metadata)"))
			if !probe || !decoded || !isStrict || !src {
				o.Fail(c.W.Pos(hp.Pos()), fmt.Sprintf("returns true without: key probe [%v], Decode == nil [%v], DisallowUnknownFields on the same decoder before Decode [%v], decoding the metadata itself [%v]", probe, decoded, isStrict, src), c.Dump(p, -1))
			}
			if len(p.Ret) == 2 && dec != nil && !strings.Contains(p.Ret[1].Key(), "Decoder).Decode") {
				o.Fail(c.W.Pos(hp.Pos()), "returned data is not the strictly decoded value", c.Dump(p, -1))
			}
		}
		if nT == 0 {
			o.Fail(c.W.Pos(hp.Pos()), "no path returns true", nil)
		}
		for _, hn := range []string{"BridgeCreated", "BridgeChallengerUpdated", "BridgeMetadataUpdated"} {
			fn := c.Method(hookPkg, "BridgeHook", hn)
			o := c.Ob("C19.R3", hn+": every perm-keeper call is gated by hasPermChannels(config.Metadata); admin is the decoded config challenger")
			po := PO{Params: []string{"h", "ctx", "bridgeId", "cfg"}, NoInline: []string{"hasPermChannels"}, Pure: []string{"hasPermChannels"}, Visits: 3}
			for _, p := range c.Paths(fn, po) {
				o.Paths++
				o.Facts += p.NFacts()
				for i := range p.Events {
					ev := &p.Events[i]
					if ev.Kind != EvCall {
						continue
					}
					isPerm := strings.Contains(ev.Call.Name, "PermKeeper).")
					if !isPerm {
						continue
					}
					o.Sites++
					gated := p.HasFact(i, func(a *Term, pol bool) bool {
						return pol && a.Key() == "ophost/types/hook.hasPermChannels(cfg.Metadata).0"
					})
					if !gated {
						o.Fail(c.evPos(ev), methodOf(ev.Call.Name)+" reachable without hasPermChannels(cfg.Metadata) == true", c.Dump(p, i))
					}
					na := len(ev.Call.Args)
					port, ch := ev.Call.Args[na-3], ev.Call.Args[na-2]
					if m := methodOf(ev.Call.Name); m == "IsTaken" {
						port, ch = ev.Call.Args[na-2], ev.Call.Args[na-1] // IsTaken(ctx, port, channel): no admin operand
					} else {
						admin := ev.Call.Args[na-1]
						if d := decodedFromH(admin); d == nil || d.Key() != "cfg.Challenger" {
							o.Fail(c.evPos(ev), m+" uses admin "+trunc(admin.Key(), 100)+", want the decoded cfg.Challenger", c.Dump(p, i))
						}
					}
					// channel operands come from the decoded metadata list
					if !strings.HasPrefix(port.Key(), "ophost/types/hook.hasPermChannels(cfg.Metadata).1.PermChannels[") || !strings.HasSuffix(port.Key(), ".PortID") ||
						!strings.HasSuffix(ch.Key(), ".ChannelID") || strings.TrimSuffix(port.Key(), ".PortID") != strings.TrimSuffix(ch.Key(), ".ChannelID") {
						o.Fail(c.evPos(ev), "channel operands ("+trunc(port.Key(), 80)+", "+trunc(ch.Key(), 80)+") are not one element of the decoded perm_channels", c.Dump(p, i))
					}
					if hn == "BridgeMetadataUpdated" && strings.HasSuffix(ev.Call.Name, "PermKeeper).SetAdmin") {
						// only when the challenger is not yet admin of this very channel
						ok := p.HasFact(i, func(a *Term, pol bool) bool {
							if pol || a.Op != "extract" || a.Name != "0" || !strings.HasSuffix(a.Args[0].Name, "PermKeeper).HasAdminPermission") {
								return false
							}
							ha := a.Args[0].Args
							return ha[2].Key() == port.Key() && ha[3].Key() == ch.Key()
						})
						if !ok {
							o.Fail(c.evPos(ev), "registration attempted without HasAdminPermission(same channel, challenger) == false", c.Dump(p, i))
						}
					}
				}
				// every hook error aborts
				if p.OK() && !p.Panic {
					for i := range p.Events {
						ev := &p.Events[i]
						if ev.Kind == EvFact && !ev.Pol {
							if x := eqOther(ev.Cond, "nil"); x != nil && x.Op == "call" && strings.Contains(x.Name, "PermKeeper).SetAdmin") {
								o.Fail(c.evPos(ev), "a failed grant does not fail the hook", c.Dump(p, -1))
							}
						}
					}
				}
			}
			if o.Sites == 0 {
				o.Fail(c.W.Pos(fn.Pos()), "no perm-keeper call found", nil)
			}
		}
	})

	// hand-over completeness: after a challenger update that has perm channels, EVERY listed
	// channel is administered by the new challenger - each visited element gets its SetAdmin and
	// the list is walked to its end on every success path
	c.Rule("C19.R6", func() {
		fn := c.Method(hookPkg, "BridgeHook", "BridgeChallengerUpdated")
		o := c.Ob("C19.R6", "BridgeChallengerUpdated: every listed perm channel is handed to the new challenger on every success path (no early exit, no skipped element)")
		list := "ophost/types/hook.hasPermChannels(cfg.Metadata).1.PermChannels"
		po := PO{Params: []string{"h", "ctx", "bridgeId", "cfg"}, NoInline: []string{"hasPermChannels"}, Pure: []string{"hasPermChannels"}, Visits: 3}
		for _, p := range c.Paths(fn, po) {
			o.Paths++
			if !p.OK() || p.Panic {
				continue
			}
			if !p.HasFact(len(p.Events), func(a *Term, pol bool) bool { return pol && a.Key() == "ophost/types/hook.hasPermChannels(cfg.Metadata).0" }) {
				continue // no perm channels: nothing to hand over
			}
			o.Sites++
			at := func(i int, want bool) bool {
				return p.HasFact(len(p.Events), func(a *Term, pol bool) bool {
					return pol == want && a.Op == "bin" && a.Name == "<" && a.Args[0].Key() == fmt.Sprint(i) && strip(a.Args[1]).Key() == "builtin.len("+list+")"
				})
			}
			n := 0
			for at(n, true) {
				n++
			}
			if !at(n, false) {
				o.Fail(c.W.Pos(fn.Pos()), fmt.Sprintf("success after %d channel(s) without reaching the end of the list: the remaining channels stay with the old challenger", n), c.Dump(p, -1))
				continue
			}
			for i := 0; i < n; i++ {
				el := fmt.Sprintf("%s[%d]", list, i)
				granted := len(p.Find(func(ev *Event) bool {
					if ev.Kind != EvCall || !strings.HasSuffix(ev.Call.Name, "PermKeeper).SetAdmin") {
						return false
					}
					na := len(ev.Call.Args)
					return na >= 3 && ev.Call.Args[na-3].Key() == el+".PortID" && ev.Call.Args[na-2].Key() == el+".ChannelID"
				})) > 0
				if !granted {
					o.Fail(c.W.Pos(fn.Pos()), "channel "+el+" is visited but not handed to the new challenger", c.Dump(p, -1))
				}
			}
		}
		if o.Sites == 0 {
			o.Fail(c.W.Pos(fn.Pos()), "no success path with perm channels", nil)
		}
	})

	// registration completeness: a create / update-metadata that succeeds has put EVERY listed
	// channel under the challenger - each visited element is registered (SetAdmin on the very same
	// port and channel, which R2 ties to the fresh-and-free checks) or is already administered by
	// that challenger, and the list is walked to its end. An element skipped because an EQUAL
	// (port, channel) element was registered earlier on the path (a map keyed by the whole
	// element or by both fields) is covered by that registration.
	c.Rule("C19.R7", func() {
		list := "ophost/types/hook.hasPermChannels(cfg.Metadata).1.PermChannels"
		po := PO{Params: []string{"h", "ctx", "bridgeId", "cfg"}, NoInline: []string{"hasPermChannels"}, Pure: []string{"hasPermChannels"}, Visits: 3}
		for _, hn := range []string{"BridgeCreated", "BridgeMetadataUpdated"} {
			fn := c.Method(hookPkg, "BridgeHook", hn)
			o := c.Ob("C19.R7", hn+": every listed perm channel is registered to the challenger (or already administered by it) on every success path (no early exit, no skipped element)")
			for _, p := range c.Paths(fn, po) {
				o.Paths++
				if !p.OK() || p.Panic {
					continue
				}
				if !p.HasFact(len(p.Events), func(a *Term, pol bool) bool { return pol && a.Key() == "ophost/types/hook.hasPermChannels(cfg.Metadata).0" }) {
					continue
				}
				o.Sites++
				at := func(i int, want bool) bool {
					return p.HasFact(len(p.Events), func(a *Term, pol bool) bool {
						return pol == want && a.Op == "bin" && a.Name == "<" && a.Args[0].Key() == fmt.Sprint(i) && strip(a.Args[1]).Key() == "builtin.len("+list+")"
					})
				}
				n := 0
				for at(n, true) {
					n++
				}
				if !at(n, false) {
					o.Fail(c.W.Pos(fn.Pos()), fmt.Sprintf("success after %d channel(s) without reaching the end of the list: the remaining channels are not registered", n), c.Dump(p, -1))
					continue
				}
				covered := make([]bool, n)
				for i := 0; i < n; i++ {
					el := fmt.Sprintf("%s[%d]", list, i)
					for _, j := range p.Find(func(ev *Event) bool { return ev.Kind == EvCall }) {
						ev := &p.Events[j]
						na := len(ev.Call.Args)
						if na < 3 || ev.Call.Args[na-3].Key() != el+".PortID" || ev.Call.Args[na-2].Key() != el+".ChannelID" {
							continue
						}
						if strings.HasSuffix(ev.Call.Name, "PermKeeper).SetAdmin") {
							covered[i] = true
						}
						if strings.HasSuffix(ev.Call.Name, "PermKeeper).HasAdminPermission") && p.factIs(len(p.Events), ev.Call.String()+".0", true) {
							covered[i] = true
						}
					}
				}
				for i := 0; i < n; i++ {
					if covered[i] {
						continue
					}
					el := fmt.Sprintf("%s[%d]", list, i)
					if !dupOfCovered(p, list, i, covered) {
						o.Fail(c.W.Pos(fn.Pos()), "channel "+el+" is visited but neither registered to the challenger nor already administered by it", c.Dump(p, -1))
					}
				}
			}
			if o.Sites == 0 {
				o.Fail(c.W.Pos(fn.Pos()), "no success path with perm channels", nil)
			}
		}
	})

	// the converse of R3: metadata is declared to carry NO perm channels only for a stated
	// reason - it is empty, it does not parse (a JSON library call failed), the key is absent, or
	// the strict decode failed.  Any other test on the bytes (a first-byte check, a length cap, a
	// prefix) makes well-formed metadata skip registration and hand-over silently.
	c.Rule("C19.R8", func() {
		hp := c.Func(hookPkg, "hasPermChannels")
		o := c.Ob("C19.R8", "hasPermChannels: false only for empty metadata, a failed JSON parse / strict decode, or an absent perm_channels key")
		for _, p := range c.Paths(hp, PO{Params: []string{"metadata"}}) {
			o.Paths++
			if p.Panic || len(p.Ret) != 2 || !p.Ret[0].IsFalse() {
				continue
			}
			o.Sites++
			// empty, spelled through the length (== 0, < 1, !(> 0) ...): no fact allows len > 0
			emptyLen := false
			for i := range p.Events {
				ev := &p.Events[i]
				if ev.Kind != EvFact || ev.Cond == nil || ev.Cond.Op != "bin" || len(ev.Cond.Args) != 2 {
					continue
				}
				for _, side := range ev.Cond.Args {
					if k := strip(side).Key(); k == "builtin.len(metadata)" || k == "builtin.len(string(metadata))" {
						if rel, n := p.RelationLin(len(p.Events), side, &Term{Op: "const", Name: "0", Typ: side.Typ}); n > 0 && rel&rGT == 0 {
							emptyLen = true
						}
					}
				}
			}
			reason := emptyLen || p.HasFact(len(p.Events), func(a *Term, pol bool) bool {
				// empty: len(..metadata..) == 0 or string(metadata) == ""
				if a.Op == "bin" && a.Name == "==" && pol {
					for k := 0; k < 2; k++ {
						x, y := a.Args[k], a.Args[1-k]
						if y.IsConst() && (y.Name == "0" || y.Name == `""`) && strings.Contains(x.Key(), "metadata") && !strings.Contains(x.Key(), "[") {
							return true
						}
					}
				}
				// absent key
				if !pol && a.Op == "extract" && a.Name == "1" && a.Args[0].Op == "lookup" && a.Args[0].Args[1].Key() == `"perm_channels"` {
					return true
				}
				// a JSON library call failed: (call == nil) is false, or json.Valid(..) is false
				if x := eqOther(a, "nil"); x != nil && !pol {
					for x.Op == "extract" {
						x = x.Args[0]
					}
					if x.Op == "call" && strings.Contains(x.Name, "json.") {
						return true
					}
				}
				if !pol && a.Op == "call" && strings.HasSuffix(a.Name, "json.Valid") {
					return true
				}
				return false
			})
			if !reason {
				o.Fail(c.W.Pos(hp.Pos()), "metadata is declared to have no perm channels without being empty, failing to parse or lacking the key", c.Dump(p, -1))
			}
		}
		if o.Sites < 3 {
			o.Fail(c.W.Pos(hp.Pos()), fmt.Sprintf("only %d rejecting path(s) found (floor 3: empty, unparseable, key absent / strict decode failed)", o.Sites), nil)
		}
	})

	c.Rule("C19.R5", func() {
		for _, hn := range []string{"BridgeCreated", "BridgeChallengerUpdated", "BridgeMetadataUpdated"} {
			errorDiscipline(c, "C19.R5", "hook."+hn, c.Method(hookPkg, "BridgeHook", hn), PO{Params: []string{"h", "ctx", "bridgeId", "cfg"}, NoInline: []string{"hasPermChannels"}, Pure: []string{"hasPermChannels"}, Visits: 3})
		}
	})

	c.Rule("C19.R4", func() {
		type hk struct{ handler, hook, challenger string }
		for _, h := range []hk{
			{"CreateBridge", "BridgeCreated", "req.Config.Challenger"},
			{"UpdateChallenger", "BridgeChallengerUpdated", "req.Challenger"},
			{"UpdateMetadata", "BridgeMetadataUpdated", cfgGet + ".Challenger"},
			{"UpdateProposer", "BridgeProposerUpdated", cfgGet + ".Challenger"},
			{"UpdateBatchInfo", "BridgeBatchInfoUpdated", cfgGet + ".Challenger"},
		} {
			fn := hostHandler(c, h.handler)
			o := c.Ob("C19.R4", h.handler+": "+h.hook+" result is checked and returned; hook precedes the config store (Update*); config passed carries the right challenger and metadata")
			for _, p := range c.Paths(fn, PO{Params: hParams, NoInline: []string{".Validate", "GetLastFinalizedOutput", "SetBatchInfo"}}) {
				o.Paths++
				o.Facts += p.NFacts()
				hooks := p.Find(func(ev *Event) bool {
					return ev.Kind == EvCall && strings.HasSuffix(ev.Call.Name, "BridgeHook)."+h.hook)
				})
				sets := collEvents(p, len(p.Events), "BridgeConfigs", "Set")
				for _, i := range hooks {
					o.Sites++
					ev := &p.Events[i]
					cfg := ev.Call.Args[3]
					if ev.Call.Args[1].Key() != "ctx" {
						o.Fail(c.evPos(ev), "hook runs on a different context", nil)
					}
					wantID := "req.BridgeId"
					if h.handler == "CreateBridge" {
						wantID = ""
					}
					if wantID != "" && ev.Call.Args[2].Key() != wantID {
						o.Fail(c.evPos(ev), "hook called for bridge "+ev.Call.Args[2].Key(), c.Dump(p, i))
					}
					if got := project(cfg, "Challenger", nil).Key(); got != h.challenger {
						o.Fail(c.evPos(ev), "hook sees challenger "+trunc(got, 120)+", want "+h.challenger, c.Dump(p, i))
					}
					if h.handler == "UpdateMetadata" {
						if got := project(cfg, "Metadata", nil).Key(); got != "req.Metadata" {
							o.Fail(c.evPos(ev), "hook sees metadata "+trunc(got, 120)+", want req.Metadata", c.Dump(p, i))
						}
					}
					if h.handler != "CreateBridge" && len(sets) > 0 && sets[0] < i {
						o.Fail(c.evPos(ev), "config stored before the hook ran", c.Dump(p, i))
					}
					if p.OK() && !p.factIs(len(p.Events), "("+ev.Call.String()+" == nil)", true) {
						o.Fail(c.evPos(ev), "hook error does not abort the message", c.Dump(p, -1))
					}
				}
				if p.OK() && !p.Panic && len(hooks) != 1 {
					o.Fail(c.W.Pos(fn.Pos()), fmt.Sprintf("success path with %d %s calls", len(hooks), h.hook), c.Dump(p, -1))
				}
			}
			if o.Sites == 0 {
				o.Fail(c.W.Pos(fn.Pos()), "hook call not found", nil)
			}
		}
		// fan-out returns the first error
		for _, m := range []string{"BridgeCreated", "BridgeChallengerUpdated", "BridgeMetadataUpdated", "BridgeProposerUpdated", "BridgeBatchInfoUpdated"} {
			fn := c.Method(hostTypes, "BridgeHooks", m)
			o := c.Ob("C19.R4", "BridgeHooks."+m+": every element is invoked with the same arguments and the first error is returned")
			for _, p := range c.Paths(fn, PO{Params: []string{"hooks", "ctx", "bridgeId", "cfg"}, Visits: 4}) {
				o.Paths++
				o.Facts += p.NFacts()
				calls := p.Find(func(ev *Event) bool { return ev.Kind == EvCall && strings.HasSuffix(ev.Call.Name, "BridgeHook)."+m) })
				for k, i := range calls {
					o.Sites++
					a := p.Events[i].Call.Args
					if a[0].Key() != fmt.Sprintf("hooks[%d]", k) || a[1].Key() != "ctx" || a[2].Key() != "bridgeId" || a[3].Key() != "cfg" {
						o.Fail(c.evPos(&p.Events[i]), "element call "+trunc(p.Events[i].Call.Key(), 160), nil)
					}
				}
				if p.OK() && !p.Panic {
					for _, i := range calls {
						if !p.factIs(len(p.Events), "("+p.Events[i].Call.String()+" == nil)", true) {
							o.Fail(c.evPos(&p.Events[i]), "a hook error is swallowed by the fan-out", c.Dump(p, -1))
						}
					}
					// all elements visited
					if !p.HasFact(len(p.Events), func(a *Term, pol bool) bool {
						return !pol && a.Op == "bin" && a.Name == "<" && a.Args[0].Key() == fmt.Sprint(len(calls)) && a.Args[1].Key() == "builtin.len(hooks)"
					}) {
						o.Fail(c.W.Pos(fn.Pos()), "fan-out returns nil before visiting every hook", c.Dump(p, -1))
					}
				}
			}
			if o.Sites == 0 {
				o.Fail(c.W.Pos(fn.Pos()), "no element call", nil)
			}
		}
	})
}

// decodedFromH: StringToBytes(h.ac, X).0 -> X
func decodedFromH(t *Term) *Term { return decodedFrom(t) }

// dupOfCovered: element i of list was skipped on p because it EQUALS an element whose
// registration is covered: a true equality fact between a key over the whole element i (the
// element itself, or a value built from both its port and its channel) and the same-shaped key
// over a covered element j (the probes of a scratch map are enumerated as such equalities).
func dupOfCovered(p *Path, list string, i int, covered []bool) bool {
	el := fmt.Sprintf("%s[%d]", list, i)
	shape := func(k string, idx int) string {
		return strings.ReplaceAll(k, fmt.Sprintf("%s[%d]", list, idx), list+"[#]")
	}
	whole := func(k, el string) bool {
		return k == el || (strings.Contains(k, el+".PortID") && strings.Contains(k, el+".ChannelID"))
	}
	return p.HasFact(len(p.Events), func(a *Term, pol bool) bool {
		if !pol || a.Op != "bin" || a.Name != "==" {
			return false
		}
		x, y := a.Args[0].Key(), a.Args[1].Key()
		if whole(y, el) {
			x, y = y, x
		}
		if !whole(x, el) {
			return false
		}
		for j := range covered {
			ej := fmt.Sprintf("%s[%d]", list, j)
			if j != i && covered[j] && whole(y, ej) && shape(y, j) == shape(x, i) {
				return true
			}
		}
		return false
	})
}
