package main

import (
	"encoding/json"
	"flag"
	"fmt"
	"os"
	"sort"
	"strconv"
	"strings"
	"time"

	"golang.org/x/tools/go/ssa"
)

var props = map[string]func(*Ctx){
	"C01": propC01,
	"C02": propC02,
	"C03": propC03,
	"C04": propC04,
	"C05": propC05,
	"C06": propC06,
	"C07": propC07,
	"C08": propC08,
	"C09": propC09,
	"C10": propC10,
	"C11": propC11,
	"C12": propC12,
	"C13": propC13,
	"C14": propC14,
	"C15": propC15,
	"C16": propC16,
	"C17": propC17,
	"C18": propC18,
	"C19": propC19,
	"C20": propC20,
}

type multiFlag []string

func (m *multiFlag) String() string     { return strings.Join(*m, ";") }
func (m *multiFlag) Set(v string) error { *m = append(*m, v); return nil }

// buildOverlay applies "relpath:::old:::new" text edits (each must match exactly once).
func buildOverlay(muts []string) (map[string][]byte, error) {
	ov := map[string][]byte{}
	for _, m := range muts {
		parts := strings.SplitN(m, ":::", 3)
		if len(parts) != 3 {
			return nil, fmt.Errorf("bad -mutate %q", m)
		}
		path := repoDir() + "/" + parts[0]
		src, ok := ov[path]
		if !ok {
			b, err := os.ReadFile(path)
			if err != nil {
				if os.IsNotExist(err) && parts[1] == "" {
					ov[path] = []byte(parts[2]) // a file the variant adds
					continue
				}
				return nil, err
			}
			src = b
		}
		if n := strings.Count(string(src), parts[1]); n != 1 {
			return nil, fmt.Errorf("mutation anchor matches %d times in %s (want 1): %q", n, parts[0], parts[1])
		}
		ov[path] = []byte(strings.Replace(string(src), parts[1], parts[2], 1))
	}
	return ov, nil
}

var scratchMode bool

func main() {
	var muts multiFlag
	flag.Var(&muts, "mutate", "debug/selftest: overlay edit relpath:::old:::new (repeatable); no evidence is written")
	var mutsAt multiFlag
	flag.Var(&mutsAt, "mutate-at", "audit: overlay edit relpath@@start@@end@@replacement (byte offsets; repeatable)")
	auditOnly := flag.Bool("audit", false, "debug: run only the sensitivity audit of -prop and print survivors")
	auditAll := flag.Bool("audit-all", false, "exploration: judge every systematic mutant of every analysed function with ALL properties (JSON lines)")
	shard := flag.String("shard", "", "audit-all: k/n")
	outF := flag.String("out", "", "audit-all: output file")
	selftest := flag.Bool("selftest", false, "run the pinned witness mutants and benign variants of -prop (or all)")
	prop := flag.String("prop", "", "property id (C01..C20)")
	tier := flag.String("tier", "quick", "quick|thorough")
	replay := flag.String("replay", "", "violation file to re-evaluate")
	list := flag.Bool("list", false, "list implemented properties")
	ssaFn := flag.String("ssa", "", "debug: dump SSA of functions with this name")
	pathsFn := flag.String("paths", "", "debug: dump paths of function")
	pinCanon := flag.Bool("pin-canon", false, "developer action: write the name-independent fingerprints of the present tree's functions to stdout (canon_pinned.json)")
	depth := flag.Int("depth", 6, "debug: inline depth")
	visits := flag.Int("visits", 2, "debug: max block visits")
	cb := flag.Bool("cb", false, "debug: callbacks")
	maxp := flag.Int("maxprint", 20, "debug: max paths to print")
	noinl := flag.String("noinline", "", "debug: comma list of callee substrings kept opaque")
	flag.Parse()

	if *list {
		for _, k := range sortedKeys(props) {
			fmt.Println(k)
		}
		return
	}
	if t := os.Getenv("VERIF_TIER"); t != "" && !isFlagSet("tier") {
		*tier = t
	}
	seed := int64(1)
	if s := os.Getenv("VERIF_SEED"); s != "" {
		if v, err := strconv.ParseInt(s, 10, 64); err == nil {
			seed = v
		}
	}
	var replayID string
	if *replay != "" {
		b, err := os.ReadFile(*replay)
		if err != nil {
			fmt.Println("cannot read replay file:", err)
			os.Exit(2)
		}
		var v struct{ Property, ID, Tier string }
		if err := json.Unmarshal(b, &v); err != nil {
			fmt.Println("bad replay file:", err)
			os.Exit(2)
		}
		*prop, replayID = v.Property, v.ID
		if v.Tier != "" {
			*tier = v.Tier
		}
	}

	if *selftest {
		os.Exit(runSelftest(*prop, *tier))
	}
	if *auditAll {
		os.Exit(runAuditAll(*shard, *outF))
	}
	t0 := time.Now()
	lo := LoadOpts{}
	if len(muts) > 0 {
		ov, err := buildOverlay(muts)
		if err != nil {
			fmt.Println("MUTATION-NOT-APPLICABLE:", err)
			os.Exit(3)
		}
		lo.Overlay = ov
		scratchMode = true
	}
	if len(mutsAt) > 0 {
		if lo.Overlay == nil {
			lo.Overlay = map[string][]byte{}
		}
		for _, m := range mutsAt {
			parts := strings.SplitN(m, "@@", 4)
			if len(parts) != 4 {
				fmt.Println("MUTATION-NOT-APPLICABLE: bad -mutate-at")
				os.Exit(3)
			}
			path := repoDir() + "/" + parts[0]
			src, ok := lo.Overlay[path]
			if !ok {
				b, err := os.ReadFile(path)
				if err != nil {
					fmt.Println("MUTATION-NOT-APPLICABLE:", err)
					os.Exit(3)
				}
				src = b
			}
			st, _ := strconv.Atoi(parts[1])
			en, _ := strconv.Atoi(parts[2])
			if st < 0 || en > len(src) || st > en {
				fmt.Println("MUTATION-NOT-APPLICABLE: offsets out of range")
				os.Exit(3)
			}
			lo.Overlay[path] = []byte(string(src[:st]) + parts[3] + string(src[en:]))
		}
		scratchMode = true
	}
	if *tier == "thorough" {
		lo.Patterns = []string{"./x/...", "./contrib/..."}
	}
	w, err := Load(lo)
	if err != nil {
		fmt.Println("LOAD ERROR:", err)
		if *prop != "" {
			fmt.Printf("VIOLATION property=%s replay=%s\n", *prop, "none:load-error")
		}
		os.Exit(1)
	}

	if *pinCanon {
		os.Stdout.Write(w.canonPin())
		return
	}
	if *ssaFn != "" || *pathsFn != "" {
		debugDump(w, *ssaFn, *pathsFn, *depth, *visits, *cb, *maxp, *noinl)
		return
	}
	f, ok := props[*prop]
	if !ok {
		fmt.Printf("unknown or unimplemented property %q\n", *prop)
		os.Exit(2)
	}
	c := NewCtx(w, *prop, *tier, seed)
	if len(w.canonNotes) > 0 {
		c.Extra["canonical_names"] = w.canonNotes
	}
	func() {
		defer func() {
			if r := recover(); r != nil {
				c.Ob(*prop+".R0", "property-execution").Undecide(fmt.Sprintf("internal error: %v", r))
				if os.Getenv("VERIF_DEBUG") != "" {
					panic(r)
				}
			}
		}()
		f(c)
	}()
	if *auditOnly {
		c.runAudit(100000)
		for _, sv := range c.Extra["sensitivity_audit"].(map[string]any)["survivors"].([]string) {
			fmt.Println("SURVIVOR", sv)
		}
		for _, sv := range c.Extra["sensitivity_audit"].(map[string]any)["killed_list"].([]string) {
			fmt.Println("KILLED", sv)
		}
		return
	}
	if *tier == "thorough" && replayID == "" && !scratchMode {
		thoroughExtras(c, f)
		// pinned witnesses + sensitivity audit: informational, never change the exit status
		wr := runWitnesses(c.Prop, "quick")
		det, app := 0, 0
		for _, r := range wr {
			if strings.HasPrefix(r.Outcome, "skipped") {
				continue
			}
			app++
			if r.Outcome == "detected" || r.Outcome == "silent" {
				det++
			}
		}
		c.Extra["witnesses"] = map[string]any{"applied": app, "as_expected": det, "results": wr}
		fmt.Printf("%s witnesses: %d applied, %d as expected\n", c.Prop, app, det)
		c.runAudit(auditBudget())
	}
	sort.SliceStable(c.Obls, func(i, j int) bool { return c.Obls[i].Rule < c.Obls[j].Rule })
	os.Exit(c.Finish(time.Since(t0), replayID))
}

func auditBudget() int {
	if v := os.Getenv("VERIF_AUDIT_BUDGET"); v != "" {
		if n, err := strconv.Atoi(v); err == nil {
			return n
		}
	}
	return 150
}

func isFlagSet(name string) bool {
	set := false
	flag.Visit(func(f *flag.Flag) {
		if f.Name == name {
			set = true
		}
	})
	return set
}

// thoroughExtras: second load with GOARCH=386 (int-width dependent shapes) and
// re-evaluation of the same rules there; obligations are merged by id.
func thoroughExtras(c *Ctx, f func(*Ctx)) {
	w2, err := Load(LoadOpts{Patterns: []string{"./x/..."}, GOARCH: "386"}) // contrib/launchtools does not type-check on 386 (dependency constants overflow int)
	if err != nil {
		c.Ob(c.Prop+".R0", "GOARCH=386 load").Undecide(err.Error())
		return
	}
	c2 := NewCtx(w2, c.Prop, c.Tier, c.Seed)
	func() {
		defer func() {
			if r := recover(); r != nil {
				c2.Ob(c.Prop+".R0", "property-execution(386)").Undecide(fmt.Sprintf("internal error: %v", r))
			}
		}()
		f(c2)
	}()
	n := 0
	primary := map[string]Status{}
	for _, o := range c.Obls {
		primary[o.ID()] = o.Status
	}
	for _, o := range c2.Obls {
		// an obligation that already failed identically on the primary load is not reported twice
		if o.Status != Discharged && primary[o.ID()] != o.Status {
			o.Key += " [GOARCH=386]"
			c.Obls = append(c.Obls, o)
		}
		n++
	}
	c.Extra["goarch386_obligations"] = n
	c.PathsTotal += c2.PathsTotal
}

func debugDump(w *World, ssaFn, pathsFn string, depth, visits int, cb bool, maxp int, noinl string) {
	match := func(f *ssa.Function, s string) bool {
		return f.String() == s || f.Name() == s || strings.HasSuffix(f.String(), s)
	}
	if ssaFn != "" {
		for _, f := range w.Funcs {
			if match(f, ssaFn) {
				f.WriteTo(os.Stdout)
			}
		}
	}
	if pathsFn == "" {
		return
	}
	var ni []string
	if noinl != "" {
		ni = strings.Split(noinl, ",")
	}
	for _, f := range w.Funcs {
		if !match(f, pathsFn) {
			continue
		}
		fmt.Println("=====", f.String())
		n := 0
		t1 := time.Now()
		np, err := Enumerate(w, f, Opts{MaxDepth: depth, MaxVisits: visits, Callbacks: cb,
			Inline: func(fn *ssa.Function) bool {
				n := funcName(fn)
				return !containsAny(n, derivationFns) && !containsAny(n, ni)
			},
			PureFns: func(n string) bool { return containsAny(n, derivationFns) }}, func(p *Path) bool {
			n++
			if n <= maxp {
				fmt.Printf("--- path %d (events %d) panic=%v\n", n, len(p.Events), p.Panic)
				for _, ev := range p.Events {
					if ev.Kind == EvCall && ev.Pure {
						continue
					}
					fmt.Println("   ", w.fmtEvent(ev))
				}
				for i, r := range p.Ret {
					fmt.Printf("    RET[%d] %s\n", i, r)
				}
			}
			return true
		})
		fmt.Printf("paths=%d err=%v %.2fs\n", np, err, time.Since(t1).Seconds())
	}
}

func (w *World) fmtEvent(ev Event) string {
	ind := strings.Repeat("  ", ev.Depth)
	switch ev.Kind {
	case EvFact:
		pol := "T"
		if !ev.Pol {
			pol = "F"
		}
		return fmt.Sprintf("%s%s %s   @%s", ind, pol, ev.Cond, w.Pos(ev.Pos))
	case EvCall:
		s := ev.Call.String()
		if ev.Fun != nil && ev.Call.Name == "dynamic" {
			s = "dyn " + ev.Fun.String() + " " + s
		}
		return fmt.Sprintf("%scall %s   @%s", ind, s, w.Pos(ev.Instr.Pos()))
	case EvEnter:
		return fmt.Sprintf("%senter %s", ind, ev.Call)
	case EvExit:
		return fmt.Sprintf("%sexit %s => %s", ind, ev.Call.Name, ev.Res)
	case EvStore, EvGlobalStore:
		return fmt.Sprintf("%s%s %s := %s", ind, ev.Kind, ev.Place, ev.Val)
	case EvMapUpdate:
		return fmt.Sprintf("%smapupdate %s[%s] = %s", ind, ev.Place, ev.Cond, ev.Val)
	case EvMapDelete:
		return fmt.Sprintf("%smapdelete %s[%s]", ind, ev.Place, ev.Cond)
	case EvPanic:
		return fmt.Sprintf("%spanic %s", ind, ev.Val)
	case EvDefer:
		return fmt.Sprintf("%sdefer %s fun=%s", ind, ev.Call, ev.Fun)
	case EvCbBegin:
		return fmt.Sprintf("%scb-begin %s", ind, ev.Fun)
	case EvCbEnd:
		return fmt.Sprintf("%scb-end => %s", ind, ev.Res)
	}
	return ind + ev.Kind.String()
}
