package main

import (
	"fmt"
	"go/token"
	"go/types"
	"strings"

	"golang.org/x/tools/go/ssa"
)

// ---------------------------------------------------------------------------
// C13.R9 — per-height historical record: exactly the bonded set, within the
// configured retention.
//
// Decided on TrackHistoricalInfo (the only writer, called once per block from
// BeginBlocker):
//   - the record written is keyed by the current block height and built from
//     GetLastValidators (the bonded set), element by element;
//   - nothing is written when HistoricalEntries == 0;
//   - pruning starts at height - entries and walks downwards one height at a
//     time, deleting only entries it found, and stops only at the first missing
//     height (or below height 0): so after the call exactly the heights
//     (height-entries, height] can hold a record.
func c13Historical(c *Ctx) {
	K := "opchild/keeper.Keeper"
	c.Rule("C13.R9", func() {
		c.writersTable("C13.R9", K, "HistoricalInfos", setOf("Set"), []string{"(opchild.AppModule).BeginBlock"})
		c.writersTable("C13.R9", K, "HistoricalInfos", setOf("Remove", "Clear"), []string{"(opchild.AppModule).BeginBlock"})
		callersTable(c, "C13.R9", c.Method(childKeeper, "Keeper", "TrackHistoricalInfo"), []string{"(opchild.AppModule).BeginBlock"})

		fn := c.Method(childKeeper, "Keeper", "TrackHistoricalInfo")
		H := "(sdk.Context).BlockHeight(ctx)"
		E := "(collections.Item[V]).Get(k.Params, ctx).0.HistoricalEntries"
		start := "(" + H + " - int64(" + E + "))"
		keyAt := func(n int) string {
			k := start
			for i := 0; i < n; i++ {
				k = "(" + k + " - 1)"
			}
			return k
		}
		o := c.Ob("C13.R9", "TrackHistoricalInfo: record at the current height = the bonded set (GetLastValidators); none when retention is 0; pruning deletes heights height-entries, -1, ... while found and stops only at the first gap")
		po := PO{Params: []string{"k", "ctx"}, Visits: 4, NoInline: []string{"GetLastValidators", "ConsensusPower"}, Pure: []string{"ConsensusPower"}}
		nSet, nRem, nOK := 0, 0, 0
		for _, p := range c.Paths(fn, po) {
			o.Paths++
			o.Facts += p.NFacts()
			if p.Panic {
				continue
			}
			// removals: i-th removal has key start-i and follows a successful Get of the same key
			rems := collEvents(p, len(p.Events), "HistoricalInfos", "Remove")
			for n, i := range rems {
				o.Sites++
				nRem++
				ev := &p.Events[i]
				key := ev.Call.Args[2]
				if key.Key() != keyAt(n) {
					o.Fail(c.evPos(ev), fmt.Sprintf("removal #%d deletes height %s, want %s (retention window shifted or not contiguous)", n+1, trunc(key.Key(), 120), trunc(keyAt(n), 120)), c.Dump(p, i))
					continue
				}
				found := false
				for _, j := range collEvents(p, i, "HistoricalInfos", "Get") {
					g := p.Events[j].Call
					if g.Args[2].Key() == key.Key() && p.factIs(i, "("+g.String()+".1 == nil)", true) {
						found = true
					}
				}
				if !found {
					o.Fail(c.evPos(ev), "height removed without having been found first", c.Dump(p, i))
				}
			}
			sets := collEvents(p, len(p.Events), "HistoricalInfos", "Set")
			for _, i := range sets {
				o.Sites++
				nSet++
				ev := &p.Events[i]
				if ev.Call.Args[2].Key() != H {
					o.Fail(c.evPos(ev), "historical record stored under "+trunc(ev.Call.Args[2].Key(), 100)+", want the current block height", c.Dump(p, i))
				}
				v := ev.Call.Args[3]
				if !(v.Op == "call" && strings.HasSuffix(v.Name, "NewHistoricalInfo")) {
					o.Fail(c.evPos(ev), "stored value is not NewHistoricalInfo(...): "+trunc(v.Key(), 120), c.Dump(p, i))
					continue
				}
				if v.Args[0].Key() != "(sdk.Context).BlockHeader(ctx)" {
					o.Fail(c.evPos(ev), "record header is "+trunc(v.Args[0].Key(), 100), c.Dump(p, i))
				}
				// every element of the validator list comes from GetLastValidators, field by field
				lastV := "(opchild/keeper.Keeper).GetLastValidators(k, ctx).0"
				vals := project(v.Args[1], "Validators", nil)
				if elems, ok := appendList(vals); ok {
					for n, e := range elems {
						src := fmt.Sprintf("%s[%d]", lastV, n)
						if got := project(e, "ConsensusPubkey", nil).Key(); got != src+".ConsensusPubkey" {
							o.Fail(c.evPos(ev), fmt.Sprintf("historical validator #%d has key %s, want %s.ConsensusPubkey", n, trunc(got, 100), src), c.Dump(p, i))
						}
						if tok := project(e, "Tokens", nil); !tok.Mentions("(opchild/types.Validator).ConsensusPower(" + src + ")") {
							o.Fail(c.evPos(ev), fmt.Sprintf("historical validator #%d tokens %s do not derive from the power of %s", n, trunc(tok.Key(), 100), src), c.Dump(p, i))
						}
						if st := project(e, "Status", nil).Key(); st != "3" {
							o.Fail(c.evPos(ev), fmt.Sprintf("historical validator #%d has status %s, want Bonded(3)", n, st), c.Dump(p, i))
						}
					}
					// the list covers every bonded validator: the fill loop ran to len(lastVals)
					if !factKeyIs(p, i, fmt.Sprintf("(%d < builtin.len(%s))", len(elems), lastV), false) {
						o.Fail(c.evPos(ev), "historical record built from a truncated bonded set", c.Dump(p, i))
					}
				} else if !v.Args[1].MentionsCall("GetLastValidators") && !factKeyIs(p, i, "(0 < builtin.len("+lastV+"))", false) {
					o.Fail(c.evPos(ev), "validator list of the record does not derive from GetLastValidators: "+trunc(vals.Key(), 140), c.Dump(p, i))
				}
				if !p.nonZeroOn(i, E) {
					rel, _ := p.Relation(i, keyIs(E), keyIs("0"))
					o.Fail(c.evPos(ev), "record written although the retention may be 0 (relation(entries, 0) = "+relString(rel)+")", c.Dump(p, i))
				}
			}
			if !p.OK() {
				continue
			}
			nOK++
			// exactly one record unless retention is 0
			if p.zeroOn(len(p.Events), E) {
				if len(sets) != 0 {
					o.Fail(c.W.Pos(fn.Pos()), "record written with retention 0", c.Dump(p, -1))
				}
			} else if len(sets) != 1 {
				o.Fail(c.W.Pos(fn.Pos()), fmt.Sprintf("success path with retention != 0 writes %d records, want 1", len(sets)), c.Dump(p, -1))
			}
			// why did pruning stop?  first gap (not-found at the next height) or below height 0
			next := keyAt(len(rems))
			gap := false
			for _, j := range collEvents(p, len(p.Events), "HistoricalInfos", "Get") {
				g := p.Events[j].Call
				if g.Args[2].Key() == next && p.HasFact(len(p.Events), func(a *Term, pol bool) bool {
					return pol && a.Op == "call" && a.Name == "errors.Is" && a.Args[0].String() == g.String()+".1" && strings.HasSuffix(a.Args[1].Key(), "collections.ErrNotFound")
				}) {
					gap = true
				}
			}
			relB, nB := p.Relation(len(p.Events), keyIs(next), keyIs("0"))
			below := nB > 0 && relB == rLT
			if !gap && !below {
				o.Fail(c.W.Pos(fn.Pos()), fmt.Sprintf("pruning stops after %d removals without reaching a missing height (next candidate %s): older records survive beyond the retention", len(rems), trunc(next, 100)), c.Dump(p, -1))
			}
		}
		if nOK == 0 || nSet == 0 || nRem == 0 {
			o.Fail(c.W.Pos(fn.Pos()), fmt.Sprintf("floor: success paths=%d, record writes=%d, removals=%d (each >= 1)", nOK, nSet, nRem), nil)
		}
	})

	// C13.R10 — no negative power: the power of a stored validator is only ever
	// one of the constants written at the tabled sites (1 on creation, 0 on
	// removal / executor change); genesis validation bounds imported powers.
	// "bonded validators never exceed the maximum (so block processing never aborts)": the
	// sanity panic of GetLastValidators (reached from BeginBlock through TrackHistoricalInfo)
	// may fire only when MORE than MaxValidators entries were collected - a set of exactly
	// MaxValidators, which AddValidator and SetParams admit, must pass
	c.Rule("C13.R11", func() {
		fn := c.Method(childKeeper, "Keeper", "GetLastValidators")
		o := c.Ob("C13.R11", "GetLastValidators: the capacity panic needs strictly more collected validators than MaxValidators")
		po := PO{Params: []string{"k", "ctx"}, Callbacks: true, WalkRounds: 2, NoInline: []string{"mustGetValidator", "Keeper).MaxValidators", "Keeper).GetValidator"}}
		maxIs := func(t *Term) bool {
			k := strip(t).Key()
			return strings.HasSuffix(k, "MaxValidators(k, ctx).0") || strings.HasSuffix(k, "MaxValidators(k, ctx).0)")
		}
		nPanic, nOK := 0, 0
		for _, p := range c.Paths(fn, po) {
			o.Paths++
			o.Facts += p.NFacts()
			if !p.Panic {
				if p.OK() {
					nOK++
				}
				continue
			}
			nPanic++
			o.Sites++
			// elements collected when the panic fires = callback invocations begun
			k := len(p.Find(func(ev *Event) bool { return ev.Kind == EvCbBegin }))
			rel, n := p.Relation(len(p.Events), maxIs, keyIs(fmt.Sprint(k)))
			if n == 0 || rel != rLT {
				o.Fail(c.W.Pos(fn.Pos()), fmt.Sprintf("panics after collecting %d validator(s) with relation(MaxValidators, %d) = %s (want <): a bonded set of exactly MaxValidators aborts block processing", k, k, relString(rel)), c.Dump(p, -1))
			}
		}
		if nOK == 0 {
			o.Fail(c.W.Pos(fn.Pos()), "no returning path", nil)
		}
		_ = nPanic
	})

	c.Rule("C13.R10", func() {
		o := c.Ob("C13.R10", "Validator.ConsPower is written only at the tabled sites with the constants 1 (NewValidator) and 0 (RemoveValidator, ChangeExecutor): a stored power is never negative and updates told to consensus are 0 or positive")
		allowed := map[string]string{
			"(opchild/keeper.MsgServer).AddValidator":            "1", // via NewValidator
			"(opchild/keeper.Keeper).RegisterExecutorChangePlan": "1", // via NewValidator (plan validator)
			"(opchild/keeper.MsgServer).RemoveValidator":         "0",
			"(opchild.AppModule).EndBlock":                       "0", // ChangeExecutor zeroes every stored power
			// off-chain launcher (only in the thorough tier's wider scope): builds the genesis validator through NewValidator
			"contrib/launchtools/steps.InitializeGenesis": "1",
		}
		eff := c.W.BuildEffects()
		seen := map[string]bool{}
		for _, f := range c.W.Funcs {
			for _, b := range f.Blocks {
				for _, in := range b.Instrs {
					st, ok := in.(*ssa.Store)
					if !ok {
						continue
					}
					fa, ok := st.Addr.(*ssa.FieldAddr)
					if !ok {
						continue
					}
					if fn := fieldName(fa); fn != "opchild/types.Validator.ConsPower" {
						continue
					}
					o.Sites++
					k, isConst := st.Val.(*ssa.Const)
					got := strings.TrimSpace(st.Val.String())
					if isConst && k.Value != nil {
						got = k.Value.ExactString()
					}
					// the site belongs to its owners (closures and private helpers are transparent)
					for _, of := range eff.Owners(f) {
						name := fnShort(of)
						want, ok := allowed[name]
						o.Note(name + ": ConsPower = " + got + " @" + c.W.Pos(st.Pos()))
						if !ok {
							o.Fail(c.W.Pos(st.Pos()), "ConsPower written in "+name+" (not in the table)", nil)
						} else if !isConst || got != want {
							o.Fail(c.W.Pos(st.Pos()), "ConsPower = "+got+" in "+name+", want the constant "+want, nil)
						}
						seen[name] = true
					}
				}
			}
		}
		for n := range allowed {
			if !seen[n] && !strings.HasPrefix(n, "contrib/") {
				o.Fail("-", "expected ConsPower write in "+n+" not found (floor)", nil)
			}
		}
		// whole-struct stores of a Validator that bypass the field table are
		// covered by C13.R1/R2 (SetValidator call sites); ConsensusPower() returns the field
		cp := c.Method(childTypes, "Validator", "ConsensusPower")
		o2 := c.Ob("C13.R10", "Validator.ConsensusPower() returns the stored ConsPower unchanged; ABCIValidatorUpdate reports exactly that power")
		for _, p := range c.Paths(cp, PO{Params: []string{"v"}}) {
			o2.Paths++
			o2.Sites++
			if len(p.Ret) != 1 || p.Ret[0].Key() != "v.ConsPower" {
				o2.Fail(c.W.Pos(cp.Pos()), "ConsensusPower returns "+p.Ret[0].Key(), nil)
			}
		}
		au := c.Method(childTypes, "Validator", "ABCIValidatorUpdate")
		for _, p := range c.Paths(au, PO{Params: []string{"v"}, NoInline: []string{"TmConsPublicKey"}}) {
			o2.Paths++
			if p.Panic || len(p.Ret) != 1 {
				continue
			}
			o2.Sites++
			if got := project(p.Ret[0], "Power", nil).Key(); got != "v.ConsPower" {
				o2.Fail(c.W.Pos(au.Pos()), "ABCIValidatorUpdate reports power "+trunc(got, 100), nil)
			}
		}
	})
}

// factKeyIs: a fact whose atom renders (without call-instance ids) as key, with polarity pol, before upto.
func factKeyIs(p *Path, upto int, key string, pol bool) bool {
	return p.HasFact(upto, func(a *Term, q bool) bool { return q == pol && a.Key() == key })
}

var _ = token.NoPos
var _ types.Type
