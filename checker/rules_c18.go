package main

import (
	"fmt"
	"go/constant"
	"go/token"
	"go/types"
	"path/filepath"
	"strings"

	"golang.org/x/tools/go/packages"
	"golang.org/x/tools/go/ssa"
	"golang.org/x/tools/go/ssa/ssautil"
)

// C18 — state transitions are deterministic.
// Scanners work on a list of functions so that the same code runs on /repo's
// consensus packages and on the positive-control package.

type finding struct {
	kind string
	fn   *ssa.Function
	pos  token.Pos
	msg  string
}

func staticName(c *ssa.CallCommon) string {
	if c.IsInvoke() {
		return shortName(c.Method.FullName())
	}
	switch v := c.Value.(type) {
	case *ssa.Function:
		return funcName(v)
	case *ssa.Builtin:
		return "builtin." + v.Name()
	}
	return ""
}

// loopBlocks: the natural loop whose header contains instr.
func loopBlocks(header *ssa.BasicBlock) map[*ssa.BasicBlock]bool {
	// blocks dominated by header that can reach header
	canReach := map[*ssa.BasicBlock]bool{}
	var back func(b *ssa.BasicBlock)
	back = func(b *ssa.BasicBlock) {
		if canReach[b] {
			return
		}
		canReach[b] = true
		if b == header {
			return
		}
		for _, p := range b.Preds {
			back(p)
		}
	}
	for _, p := range header.Preds {
		if header.Dominates(p) {
			back(p)
		}
	}
	out := map[*ssa.BasicBlock]bool{}
	for b := range canReach {
		if header.Dominates(b) {
			out[b] = true
		}
	}
	out[header] = true
	return out
}

// scanMapRanges: R1.  pureFn decides whether a static callee may be called in a body.
func scanMapRanges(fns []*ssa.Function, okCall func(name string, target *ssa.Function) bool) (sites int, bad []finding, good []finding) {
	for _, fn := range fns {
		for _, b := range fn.Blocks {
			for _, in := range b.Instrs {
				rg, ok := in.(*ssa.Range)
				if !ok {
					continue
				}
				if _, isMap := rg.X.Type().Underlying().(*types.Map); !isMap {
					continue
				}
				sites++
				// header: the block holding the Next of this range
				var header *ssa.BasicBlock
				for _, r := range *rg.Referrers() {
					if nx, ok := r.(*ssa.Next); ok {
						header = nx.Block()
					}
				}
				if header == nil {
					bad = append(bad, finding{"maprange", fn, rg.Pos(), "range without Next"})
					continue
				}
				body := loopBlocks(header)
				var filled []ssa.Value
				problem := ""
				for bb := range body {
					for _, bi := range bb.Instrs {
						switch x := bi.(type) {
						case *ssa.Store:
							switch a := x.Addr.(type) {
							case *ssa.IndexAddr:
								if _, isSlice := a.X.Type().Underlying().(*types.Slice); isSlice {
									filled = append(filled, a.X)
								} // else: a local array (e.g. the varargs array of append)
							case *ssa.Alloc:
							default:
								if _, isG := x.Addr.(*ssa.Global); isG {
									problem = "store to a package variable inside a map range"
								} else if fa, ok := x.Addr.(*ssa.FieldAddr); ok {
									if _, isAlloc := fa.X.(*ssa.Alloc); !isAlloc {
										problem = "store through a pointer inside a map range"
									}
								}
							}
						case *ssa.MapUpdate:
							// writing another map is order-insensitive
						case *ssa.Send, *ssa.Go, *ssa.Defer:
							problem = fmt.Sprintf("%T inside a map range", x)
						case ssa.CallInstruction:
							cc := x.Common()
							name := staticName(cc)
							switch {
							case name == "builtin.append":
								if v, ok := bi.(ssa.Value); ok {
									filled = append(filled, v)
								}
							case strings.HasPrefix(name, "builtin."):
							case name == "":
								problem = "dynamic call inside a map range"
							default:
								var tgt *ssa.Function
								if f, ok := cc.Value.(*ssa.Function); ok {
									tgt = f
								}
								if !okCall(name, tgt) {
									problem = "call of " + name + " inside a map range (may emit / write in iteration order)"
								}
							}
						}
					}
				}
				if problem != "" {
					bad = append(bad, finding{"maprange", fn, rg.Pos(), problem})
					continue
				}
				// every filled slice must be sorted in this function before it is used otherwise
				unsorted := ""
				for _, s := range filled {
					if !sortedLater(fn, s, body) {
						unsorted = "a slice filled in map-iteration order is not sorted afterwards"
					}
				}
				if unsorted != "" {
					bad = append(bad, finding{"maprange", fn, rg.Pos(), unsorted})
				} else {
					good = append(good, finding{"maprange", fn, rg.Pos(), "order-insensitive body"})
				}
			}
		}
	}
	return
}

// rootSlice follows phis/appends/slices back to the made slice.
func sliceRoots(v ssa.Value, seen map[ssa.Value]bool, out map[ssa.Value]bool) {
	if v == nil || seen[v] {
		return
	}
	seen[v] = true
	switch x := v.(type) {
	case *ssa.Phi:
		for _, e := range x.Edges {
			sliceRoots(e, seen, out)
		}
	case *ssa.Call:
		if b, ok := x.Call.Value.(*ssa.Builtin); ok && b.Name() == "append" {
			sliceRoots(x.Call.Args[0], seen, out)
			out[v] = true
			return
		}
		out[v] = true
	case *ssa.Slice:
		sliceRoots(x.X, seen, out)
	case *ssa.UnOp:
		out[v] = true
		if a, ok := x.X.(*ssa.Alloc); ok {
			out[a] = true
		}
	default:
		out[v] = true
	}
}

func sortedLater(fn *ssa.Function, s ssa.Value, body map[*ssa.BasicBlock]bool) bool {
	roots := map[ssa.Value]bool{}
	sliceRoots(s, map[ssa.Value]bool{}, roots)
	for _, b := range fn.Blocks {
		if body[b] {
			continue
		}
		for _, in := range b.Instrs {
			call, ok := in.(*ssa.Call)
			if !ok {
				continue
			}
			name := staticName(call.Common())
			if !strings.HasPrefix(name, "sort.") && !strings.HasPrefix(name, "slices.Sort") {
				continue
			}
			for _, a := range call.Call.Args {
				ar := map[ssa.Value]bool{}
				sliceRoots(a, map[ssa.Value]bool{}, ar)
				if mi, ok := a.(*ssa.MakeInterface); ok {
					sliceRoots(mi.X, map[ssa.Value]bool{}, ar)
				}
				for r := range ar {
					if roots[r] {
						return true
					}
				}
				// same phi family: both derive from a common value
				for r := range ar {
					rr := map[ssa.Value]bool{}
					sliceRoots(r, map[ssa.Value]bool{}, rr)
					for x := range rr {
						if roots[x] {
							return true
						}
					}
				}
			}
		}
	}
	return false
}

// scanSources: R2.
func scanSources(fns []*ssa.Function) (bad []finding, exempt []finding) {
	forbidden := func(name string) string {
		switch {
		case name == "time.Now" || name == "time.Since" || name == "time.Until" || name == "time.After" || name == "time.Tick" || name == "time.NewTimer" || name == "time.Sleep":
			return "wall clock"
		case strings.HasPrefix(name, "math/rand.") || strings.HasPrefix(name, "(*math/rand.") || strings.HasPrefix(name, "math/rand/v2."):
			return "pseudo randomness"
		case strings.HasPrefix(name, "crypto/rand."):
			return "randomness"
		case name == "os.Getenv" || name == "os.Hostname" || name == "os.Getpid" || name == "os.Environ" || name == "os.LookupEnv" || name == "os.Getwd":
			return "process environment"
		case strings.HasPrefix(name, "runtime.") && name != "runtime.KeepAlive":
			return "runtime introspection"
		case strings.HasPrefix(name, "unsafe."):
			return "unsafe"
		}
		return ""
	}
	for _, fn := range fns {
		for _, b := range fn.Blocks {
			for _, in := range b.Instrs {
				switch x := in.(type) {
				case *ssa.Go:
					bad = append(bad, finding{"source", fn, x.Pos(), "go statement"})
				case *ssa.Select:
					if len(x.States) > 1 || !x.Blocking {
						bad = append(bad, finding{"source", fn, x.Pos(), "multi-way select"})
					}
				case *ssa.BinOp:
					if bt, ok := x.X.Type().Underlying().(*types.Basic); ok && bt.Info()&types.IsFloat != 0 {
						// a float that only ever reaches the telemetry package (a metrics counter) never
						// reaches state, events or responses
						if feedsOnlyTelemetry(x, map[ssa.Value]bool{}) {
							exempt = append(exempt, finding{"source", fn, x.Pos(), "float -> telemetry only"})
						} else {
							bad = append(bad, finding{"source", fn, x.Pos(), "floating-point arithmetic"})
						}
					}
				case *ssa.Convert:
					if bt, ok := x.Type().Underlying().(*types.Basic); ok && bt.Kind() == types.UnsafePointer {
						bad = append(bad, finding{"source", fn, x.Pos(), "unsafe.Pointer conversion"})
					}
				}
				ci, ok := in.(ssa.CallInstruction)
				if !ok {
					continue
				}
				if _, isGo := in.(*ssa.Go); isGo {
					continue
				}
				cc := ci.Common()
				name := staticName(cc)
				if why := forbidden(name); why != "" {
					// exemption: time.Now() as the direct argument of telemetry.ModuleMeasureSince
					if name == "time.Now" {
						if v, ok := in.(ssa.Value); ok && onlyFeedsTelemetry(v) {
							exempt = append(exempt, finding{"source", fn, in.Pos(), "time.Now() -> telemetry.ModuleMeasureSince"})
							continue
						}
					}
					bad = append(bad, finding{"source", fn, in.Pos(), why + ": " + name})
				}
				// %p verbs
				if strings.HasPrefix(name, "fmt.") {
					for _, a := range cc.Args {
						if k, ok := a.(*ssa.Const); ok && k.Value != nil && k.Value.Kind() == constant.String && strings.Contains(constant.StringVal(k.Value), "%p") {
							bad = append(bad, finding{"source", fn, in.Pos(), "%p verb prints an address"})
						}
					}
				}
			}
		}
	}
	return
}

// feedsOnlyTelemetry: every (transitive, through phi / arithmetic / conversion) use of v is an
// argument of a telemetry call.
func feedsOnlyTelemetry(v ssa.Value, seen map[ssa.Value]bool) bool {
	if seen[v] {
		return true
	}
	seen[v] = true
	refs := v.Referrers()
	if refs == nil {
		return false
	}
	for _, r := range *refs {
		switch x := r.(type) {
		case *ssa.DebugRef:
		case ssa.CallInstruction:
			if !strings.HasPrefix(staticName(x.Common()), "github.com/cosmos/cosmos-sdk/telemetry.") {
				return false
			}
		case *ssa.Phi:
			if !feedsOnlyTelemetry(x, seen) {
				return false
			}
		case *ssa.BinOp:
			if !feedsOnlyTelemetry(x, seen) {
				return false
			}
		case *ssa.Convert:
			if !feedsOnlyTelemetry(x, seen) {
				return false
			}
		case *ssa.MakeInterface:
			if !feedsOnlyTelemetry(x, seen) {
				return false
			}
		default:
			return false
		}
	}
	return true
}

func onlyFeedsTelemetry(v ssa.Value) bool {
	refs := v.Referrers()
	if refs == nil || len(*refs) == 0 {
		return false
	}
	for _, r := range *refs {
		switch x := r.(type) {
		case *ssa.DebugRef:
		case ssa.CallInstruction:
			if !strings.HasPrefix(staticName(x.Common()), "github.com/cosmos/cosmos-sdk/telemetry.") {
				return false
			}
		default:
			return false
		}
	}
	return true
}

// scanProcessState: R3.
func scanProcessState(fns []*ssa.Function) (globals []finding, maps []finding) {
	for _, fn := range fns {
		if fn.Name() == "init" || strings.HasPrefix(fn.Name(), "init#") {
			continue
		}
		for _, b := range fn.Blocks {
			for _, in := range b.Instrs {
				switch x := in.(type) {
				case *ssa.Store:
					addr := x.Addr
					for {
						if fa, ok := addr.(*ssa.FieldAddr); ok {
							addr = fa.X
							continue
						}
						if ia, ok := addr.(*ssa.IndexAddr); ok {
							addr = ia.X
							continue
						}
						break
					}
					if g, ok := addr.(*ssa.Global); ok {
						globals = append(globals, finding{"global", fn, x.Pos(), "store to package variable " + shortName(g.String())})
					}
				case *ssa.MapUpdate:
					if o, f, ok := fieldOf(x.Map); ok {
						maps = append(maps, finding{"mapfield", fn, x.Pos(), typeName(o) + "." + f})
					} else if _, isG := x.Map.(*ssa.UnOp); isG {
						if g, ok := x.Map.(*ssa.UnOp).X.(*ssa.Global); ok {
							globals = append(globals, finding{"global", fn, x.Pos(), "update of package-level map " + shortName(g.String())})
						}
					}
				}
			}
		}
	}
	return
}

// scanProcessMemory: R3 (second part).  Memory that outlives a state transition and
// is not the store: sync/atomic primitives, and writes through pointers that live in
// (or are) long-lived module structs (keepers, handlers, hooks - any module struct
// that is not a protobuf message).  A value cached there survives a discarded
// branch (simulation, failed tx, aborted optimistic execution), so later results
// depend on the node's process history.
func scanProcessMemory(fns []*ssa.Function, modPrefix string) (bad []finding) {
	// long-lived struct types: module structs (not protobuf messages) that carry exported
	// methods (keepers, message servers, queriers, hooks, decorators, lane handlers: the
	// objects the app holds for the life of the process) and every module struct reachable
	// from them through fields.  Private carrier structs that only travel between the
	// helpers of one call are not process memory.
	modStruct := func(t types.Type) (*types.Named, bool) {
		for {
			switch u := t.(type) {
			case *types.Pointer:
				t = u.Elem()
				continue
			}
			break
		}
		n, ok := t.(*types.Named)
		if !ok || n.Obj().Pkg() == nil || !strings.HasPrefix(n.Obj().Pkg().Path(), modPrefix) {
			return nil, false
		}
		if _, ok := n.Underlying().(*types.Struct); !ok {
			return nil, false
		}
		if types.NewMethodSet(types.NewPointer(n)).Lookup(nil, "ProtoMessage") != nil {
			return nil, false
		}
		return n, true
	}
	long := map[*types.TypeName]bool{}
	var reach func(n *types.Named)
	reach = func(n *types.Named) {
		if long[n.Obj()] {
			return
		}
		long[n.Obj()] = true
		st := n.Underlying().(*types.Struct)
		for i := 0; i < st.NumFields(); i++ {
			ft := st.Field(i).Type()
			switch u := ft.Underlying().(type) {
			case *types.Slice:
				ft = u.Elem()
			case *types.Map:
				ft = u.Elem()
			}
			if m, ok := modStruct(ft); ok {
				reach(m)
			}
		}
	}
	for _, fn := range fns {
		if fn.Signature.Recv() == nil || !token.IsExported(fn.Name()) {
			continue
		}
		if n, ok := modStruct(fn.Signature.Recv().Type()); ok {
			reach(n)
		}
	}
	isLongLived := func(t types.Type) (string, bool) {
		n, ok := modStruct(t)
		if !ok || !long[n.Obj()] {
			return "", false
		}
		return shortName(n.Obj().Pkg().Path() + "." + n.Obj().Name()), true
	}
	syncMutator := func(name string) bool {
		if strings.HasPrefix(name, "sync/atomic.") || strings.HasPrefix(name, "(*sync/atomic.") {
			return !strings.Contains(name, ".Load")
		}
		for _, p := range []string{"(*sync.Map).", "(*sync.Once).", "(*sync.Pool).", "(*sync.WaitGroup).", "(*sync.Cond)."} {
			if strings.HasPrefix(name, p) {
				return true
			}
		}
		return false
	}
	for _, fn := range fns {
		if fn.Name() == "init" || strings.HasPrefix(fn.Name(), "init#") {
			continue
		}
		for _, b := range fn.Blocks {
			for _, in := range b.Instrs {
				if ci, ok := in.(ssa.CallInstruction); ok {
					if name := staticName(ci.Common()); syncMutator(name) {
						bad = append(bad, finding{"procmem", fn, in.Pos(), "process memory: " + name + " (state outside the store survives discarded branches)"})
					}
					if bi, ok := ci.Common().Value.(*ssa.Builtin); ok && bi.Name() == "delete" {
						// (a map held by a private carrier struct that lives for one call is local working
						// memory; only long-lived structs - keepers, servers, hooks and what they hold - count)
						if o, f, ok := fieldOf(ci.Common().Args[0]); ok {
							if _, ll := isLongLived(o); !ll {
								continue
							}
							bad = append(bad, finding{"procmem", fn, in.Pos(), "delete on struct-held map " + typeName(o) + "." + f})
						}
					}
					continue
				}
				st, ok := in.(*ssa.Store)
				if !ok {
					continue
				}
				addr := st.Addr
				depth := 0
				for {
					if fa, ok := addr.(*ssa.FieldAddr); ok {
						addr = fa.X
						depth++
						continue
					}
					if ia, ok := addr.(*ssa.IndexAddr); ok {
						addr = ia.X
						depth++
						continue
					}
					break
				}
				if depth == 0 {
					continue
				}
				switch r := addr.(type) {
				case *ssa.Parameter:
					if n, ok := isLongLived(r.Type()); ok {
						if _, isPtr := r.Type().Underlying().(*types.Pointer); isPtr {
							bad = append(bad, finding{"procmem", fn, st.Pos(), "store into a field of the long-lived struct " + n + " (through parameter " + r.Name() + ")"})
						}
					}
				case *ssa.UnOp:
					if r.Op != token.MUL {
						break
					}
					if _, isPtr := r.Type().Underlying().(*types.Pointer); !isPtr {
						break // element of a slice held in a struct: ordinary data, not a shared cell
					}
					if fa, ok := r.X.(*ssa.FieldAddr); ok {
						if n, ok := isLongLived(fa.X.Type()); ok {
							bad = append(bad, finding{"procmem", fn, st.Pos(), "store through the pointer field " + fieldName(fa) + " of the long-lived struct " + n})
						}
					}
				}
			}
		}
	}
	return
}

// scanSorts: R5.  Comparators of sort.Slice* must be a total order on the elements.
func scanSorts(fns []*ssa.Function) (ok []finding, bad []finding) {
	for _, fn := range fns {
		for _, b := range fn.Blocks {
			for _, in := range b.Instrs {
				call, isCall := in.(*ssa.Call)
				if !isCall {
					continue
				}
				name := staticName(call.Common())
				switch name {
				case "slices.Sort", "sort.Strings", "sort.Ints":
					// the natural order of an ordered element type: total
					ok = append(ok, finding{"sort", fn, call.Pos(), "natural order"})
					continue
				case "slices.SortFunc", "slices.SortStableFunc":
					// three-way comparators: a library total order over the whole element
					// (bytes.Compare, strings.Compare, cmp.Compare), directly or wrapped
					if threeWayTotal(call.Call.Args[1]) {
						ok = append(ok, finding{"sort", fn, call.Pos(), "total three-way order"})
					} else {
						bad = append(bad, finding{"sort", fn, call.Pos(), "three-way comparator is not recognised as a total order over the whole element (bytes.Compare / strings.Compare / cmp.Compare on the elements)"})
					}
					continue
				}
				if name != "sort.Slice" && name != "sort.SliceStable" {
					continue
				}
				var cmp *ssa.Function
				if mc, isMC := call.Call.Args[1].(*ssa.MakeClosure); isMC {
					cmp, _ = mc.Fn.(*ssa.Function)
				} else if f, isF := call.Call.Args[1].(*ssa.Function); isF {
					cmp = f
				}
				if cmp == nil || !totalOrderCmp(cmp) {
					bad = append(bad, finding{"sort", fn, call.Pos(), "comparator is not recognised as a total order over the whole element (bytes.Compare / < on the elements)"})
				} else {
					ok = append(ok, finding{"sort", fn, call.Pos(), "total order"})
				}
			}
		}
	}
	return
}

// totalOrderCmp: func(i, j) bool { return bytes.Compare(s[i], s[j]) == -1 } or s[i] < s[j].
func totalOrderCmp(f *ssa.Function) bool {
	if len(f.Blocks) != 1 {
		return false
	}
	var ret *ssa.Return
	for _, in := range f.Blocks[0].Instrs {
		if r, ok := in.(*ssa.Return); ok {
			ret = r
		}
	}
	if ret == nil || len(ret.Results) != 1 {
		return false
	}
	elem := func(v ssa.Value, idx ssa.Value) bool {
		// (conversions between a named byte-slice type and []byte do not change the element)
		for {
			if ct, ok := v.(*ssa.ChangeType); ok {
				v = ct.X
				continue
			}
			if cv, ok := v.(*ssa.Convert); ok {
				v = cv.X
				continue
			}
			break
		}
		// *(&s[idx]) or s[idx]
		if u, ok := v.(*ssa.UnOp); ok && u.Op == token.MUL {
			if ia, ok := u.X.(*ssa.IndexAddr); ok {
				return ia.Index == idx
			}
		}
		if ix, ok := v.(*ssa.Index); ok {
			return ix.Index == idx
		}
		return false
	}
	i, j := ssa.Value(f.Params[0]), ssa.Value(f.Params[1])
	bo, ok := ret.Results[0].(*ssa.BinOp)
	if !ok {
		return false
	}
	if bo.Op == token.LSS && elem(bo.X, i) && elem(bo.Y, j) {
		return true
	}
	if call, ok := bo.X.(*ssa.Call); ok && staticName(call.Common()) == "bytes.Compare" && elem(call.Call.Args[0], i) && elem(call.Call.Args[1], j) {
		if k, ok := bo.Y.(*ssa.Const); ok && k.Value != nil {
			v := k.Value.ExactString()
			return (bo.Op == token.EQL && v == "-1") || (bo.Op == token.LSS && v == "0")
		}
	}
	return false
}

// ---------------------------------------------------------------------------
// C18.R6: a Go map value may be handed only to callees whose behaviour does not
// depend on the map's iteration order.  A map passed to a dependency function
// (directly or boxed in an interface) is an order leak the range scanner of R1
// cannot see (e.g. maps.Keys(m) returns the keys in iteration order).

var mapSafeCallees = map[string]string{
	"builtin.len":    "size only",
	"builtin.delete": "point update",
	"builtin.clear":  "order-free",
}

// mapSafePrefix: dependency callees that enumerate a map in sorted key order or only look keys up.
var mapSafePrefix = map[string]string{
	"encoding/json.Marshal":           "encoding/json sorts map keys",
	"fmt.":                            "fmt prints maps in sorted key order",
	"(*encoding/json.Encoder).Encode": "encoding/json sorts map keys",
	"encoding/json.Unmarshal":         "decoder fills the map; nothing is enumerated",
	"(*encoding/json.Decoder).Decode": "decoder fills the map; nothing is enumerated",
}

func isMapType(t types.Type) bool {
	if t == nil {
		return false
	}
	if p, ok := t.Underlying().(*types.Pointer); ok {
		t = p.Elem()
	}
	_, ok := t.Underlying().(*types.Map)
	return ok
}

func scanMapEscapes(fns []*ssa.Function, inScope func(*ssa.Function) bool) (sites int, bad []finding, okf []finding) {
	safe := func(name string) (string, bool) {
		if why, ok := mapSafeCallees[name]; ok {
			return why, true
		}
		for p, why := range mapSafePrefix {
			if strings.HasPrefix(name, p) {
				return why, true
			}
		}
		return "", false
	}
	for _, fn := range fns {
		for _, b := range fn.Blocks {
			for _, in := range b.Instrs {
				if mi, ok := in.(*ssa.MakeInterface); ok && isMapType(mi.X.Type()) {
					sites++
					// boxed map: every use must be an argument of an order-safe callee
					for _, r := range *mi.Referrers() {
						ci, isCall := r.(ssa.CallInstruction)
						name := ""
						if isCall {
							name = staticName(ci.Common())
						}
						if why, ok := safe(name); isCall && ok {
							okf = append(okf, finding{"mapescape", fn, r.Pos(), "boxed map -> " + name + " (" + why + ")"})
						} else {
							bad = append(bad, finding{"mapescape", fn, r.Pos(), "map value boxed into an interface and used by " + strings.TrimSpace(name+" "+r.String()) + ": iteration order may leak"})
						}
					}
					continue
				}
				ci, ok := in.(ssa.CallInstruction)
				if !ok {
					continue
				}
				cc := ci.Common()
				hasMap := false
				for _, a := range cc.Args {
					if isMapType(a.Type()) {
						hasMap = true
					}
				}
				if !hasMap {
					continue
				}
				sites++
				name := staticName(cc)
				if why, ok := safe(name); ok {
					okf = append(okf, finding{"mapescape", fn, in.Pos(), "map -> " + name + " (" + why + ")"})
					continue
				}
				if tgt := cc.StaticCallee(); tgt != nil && tgt.Blocks != nil && inScope(tgt) {
					// module function in the scanned scope: its own ranges are judged by R1
					okf = append(okf, finding{"mapescape", fn, in.Pos(), "map -> " + name + " (module function, scanned by R1)"})
					continue
				}
				if name == "" {
					name = "dynamic callee " + cc.Value.String()
				}
				bad = append(bad, finding{"mapescape", fn, in.Pos(), "map value passed to " + name + " (not in the order-safe table): iteration order may leak"})
			}
		}
	}
	return
}

// ---------------------------------------------------------------------------

func loadControl() ([]*ssa.Function, error) {
	dir := filepath.Join(verifDir(), "checker")
	cfg := &packages.Config{Mode: packages.NeedName | packages.NeedFiles | packages.NeedCompiledGoFiles | packages.NeedImports | packages.NeedTypes | packages.NeedTypesSizes | packages.NeedSyntax | packages.NeedTypesInfo,
		Dir: dir, Env: append(loadEnv(""), "GOFLAGS=-mod=mod", "GOWORK=off")}
	pkgs, err := packages.Load(cfg, "./testdata/control")
	if err != nil {
		return nil, err
	}
	if len(pkgs) != 1 || len(pkgs[0].Errors) > 0 {
		return nil, fmt.Errorf("control package does not load: %v", pkgs[0].Errors)
	}
	_, sp := ssautil.Packages(pkgs, ssa.InstantiateGenerics)
	sp[0].Build()
	var out []*ssa.Function
	for _, m := range sp[0].Members {
		if f, ok := m.(*ssa.Function); ok && f.Blocks != nil {
			out = append(out, f)
			out = append(out, f.AnonFuncs...)
		}
		if t, ok := m.(*ssa.Type); ok {
			for _, recv := range []types.Type{types.NewPointer(t.Type()), t.Type()} {
				ms := sp[0].Prog.MethodSets.MethodSet(recv)
				for i := 0; i < ms.Len(); i++ {
					if f := sp[0].Prog.MethodValue(ms.At(i)); f != nil && f.Blocks != nil && f.Synthetic == "" {
						out = append(out, f)
					}
				}
			}
		}
	}
	return out, nil
}

func propC18(c *Ctx) {
	c.Clauses = append(c.Clauses,
		"every range over a Go map in the consensus packages has an order-insensitive body (no effects, no order-dependent calls) and any slice it fills is sorted before use",
		"no wall clock, randomness, environment, runtime introspection, goroutine, multi-way select, float arithmetic, %p or unsafe in consensus code (exemption: time.Now() feeding telemetry only)",
		"no store to package-level variables outside init; the only Keeper-held Go map written is ExecutorChangePlans in RegisterExecutorChangePlan",
		"all state enumeration goes through collections (the raw store service only reaches collections.NewSchemaBuilder; collection values escape only to the read-only paginator)",
		"sorts use a total order over the whole element")
	c.NotDecided = append(c.NotDecided, "determinism inside dependencies (e.g. connect's aggregator ranges over maps internally - A8)", "node-local ExecutorChangePlans being registered identically on all nodes (by design)")
	c.Assumptions = append(c.Assumptions, "A1", "A8")
	eff := c.W.BuildEffects()
	// scope: the consensus packages only.  The thorough tier also loads
	// contrib/launchtools (an off-chain launcher CLI: clocks, randomness and
	// maps are legitimate there and never run inside a state transition).
	var fns []*ssa.Function
	for _, f := range c.W.Funcs {
		if pk := f.Package(); pk != nil && strings.Contains(pk.Pkg.Path(), "/contrib/") {
			continue
		}
		fns = append(fns, f)
	}
	for _, f := range fns {
		c.FuncsAnalysed[fnShort(f)] = true
	}

	okCall := func(name string, tgt *ssa.Function) bool {
		if isPure(name) {
			return true
		}
		if tgt != nil && tgt.Blocks != nil {
			// module function: must be effect-free
			for _, s := range eff.ReachSites(tgt, func(s *Site) bool { return true }) {
				switch s.Kind {
				case SColl:
					if s.IsCollWrite() {
						return false
					}
				case SIface:
					if (isKeeperIface(s.Callee) && !ifaceReads[s.Method]) || strings.Contains(s.Callee, "EventManager") {
						return false
					}
				case SDyn, SGlobal, SGo, SMapSet:
					return false
				}
			}
			return true
		}
		return false
	}

	ctl, cerr := loadControl()

	c.Rule("C18.R1", func() {
		sites, bad, good := scanMapRanges(fns, okCall)
		o := c.Ob("C18.R1", "map ranges in consensus code are order-insensitive")
		o.Sites = sites
		for _, g := range good {
			o.Note(fnShort(g.fn) + " @" + c.W.Pos(g.pos) + ": " + g.msg)
		}
		for _, b := range bad {
			o.Fail(c.W.Pos(b.pos), b.msg+" in "+fnShort(b.fn), nil)
		}
		of := c.Ob("C18.R1", "instance floor: the map range of the validator diff (filling the no-longer-bonded slice that is sorted before use) is found and accepted")
		of.Sites = len(good)
		if len(good) == 0 {
			of.Fail("-", "no accepted map range found in the consensus packages (anchor lost or idiom changed)", nil)
		}
		oc := c.Ob("C18.R1", "positive control: the scanner flags the bad map range and accepts the good one in the control package")
		if cerr != nil {
			oc.Undecide("control package: " + cerr.Error())
		} else {
			n, cb, cg := scanMapRanges(ctl, func(string, *ssa.Function) bool { return false })
			oc.Sites = n
			if len(cb) != 1 || len(cg) != 1 {
				oc.Fail("-", fmt.Sprintf("control expected 1 bad + 1 good map range, scanner found %d bad + %d good", len(cb), len(cg)), nil)
			}
		}
	})

	c.Rule("C18.R2", func() {
		bad, exempt := scanSources(fns)
		o := c.Ob("C18.R2", "no nondeterminism source in consensus code")
		o.Sites = len(fns)
		for _, b := range bad {
			o.Fail(c.W.Pos(b.pos), b.msg+" in "+fnShort(b.fn), nil)
		}
		// structural exemption (not a name table): a clock read or a float whose every use is an
		// argument of a telemetry call cannot reach state, events or responses
		oe := c.Ob("C18.R2", "exemption: time.Now() / float values that feed the telemetry package only")
		oe.Sites = len(exempt)
		for _, e := range exempt {
			oe.Note(fnShort(e.fn) + " @" + c.W.Pos(e.pos) + ": " + e.msg)
		}
		oc := c.Ob("C18.R2", "positive control: every forbidden source kind is flagged in the control package")
		if cerr != nil {
			oc.Undecide("control package: " + cerr.Error())
		} else {
			cb, _ := scanSources(ctl)
			oc.Sites = len(cb)
			kinds := map[string]bool{}
			for _, b := range cb {
				kinds[strings.SplitN(b.msg, ":", 2)[0]] = true
			}
			for _, k := range []string{"wall clock", "pseudo randomness", "randomness", "process environment", "go statement", "floating-point arithmetic", "%p verb prints an address", "unsafe.Pointer conversion", "multi-way select"} {
				if !kinds[k] {
					oc.Fail("-", "control for '"+k+"' not detected", nil)
				}
			}
		}
	})

	c.Rule("C18.R6", func() {
		scope := map[*ssa.Function]bool{}
		for _, f := range fns {
			scope[f] = true
		}
		sites, bad, okf := scanMapEscapes(fns, func(f *ssa.Function) bool { return scope[f] })
		o := c.Ob("C18.R6", "Go map values reach only order-insensitive callees (builtins, sorted encoders, module functions judged by R1) - never a dependency that enumerates them")
		o.Sites = sites
		for _, g := range okf {
			o.Note(fnShort(g.fn) + ": " + g.msg + " @" + c.W.Pos(g.pos))
		}
		for _, b := range bad {
			o.Fail(c.W.Pos(b.pos), b.msg+" in "+fnShort(b.fn), nil)
		}
		oc := c.Ob("C18.R6", "positive control: a map handed to maps.Keys-style dependency code and a boxed map are flagged in the control package")
		if cerr != nil {
			oc.Undecide("control package: " + cerr.Error())
		} else {
			_, cb, cok := scanMapEscapes(ctl, func(*ssa.Function) bool { return false })
			oc.Sites = len(cb)
			direct, boxed := false, false
			for _, b := range cb {
				if strings.Contains(b.msg, "passed to") {
					direct = true
				}
				if strings.Contains(b.msg, "boxed") {
					boxed = true
				}
			}
			if !direct || !boxed || len(cok) == 0 {
				oc.Fail("-", fmt.Sprintf("control: direct escape flagged=%v, boxed escape flagged=%v, safe uses accepted=%d", direct, boxed, len(cok)), nil)
			}
		}
	})

	c.Rule("C18.R3", func() {
		globals, maps := scanProcessState(fns)
		o := c.Ob("C18.R3", "no store to package-level variables outside init")
		o.Sites = len(fns)
		for _, g := range globals {
			o.Fail(c.W.Pos(g.pos), g.msg+" in "+fnShort(g.fn), nil)
		}
		om := c.Ob("C18.R3", "Go maps held in structs are written only at the tabled site (ExecutorChangePlans in RegisterExecutorChangePlan)")
		om.Sites = len(maps)
		seen := false
		for _, m := range maps {
			if m.msg == "opchild/keeper.Keeper.ExecutorChangePlans" && fnShort(m.fn) == "(opchild/keeper.Keeper).RegisterExecutorChangePlan" {
				seen = true
				continue
			}
			// local (non-struct-field) maps are not process state; struct-held maps are
			om.Fail(c.W.Pos(m.pos), "struct-held map "+m.msg+" written in "+fnShort(m.fn), nil)
		}
		if !seen {
			om.Fail("-", "the tabled exception was not found (anchor lost)", nil)
		}
		op := c.Ob("C18.R3", "no process memory outside the store: no sync/atomic primitive, no delete on struct-held maps, no write through pointers held by keepers/handlers/hooks")
		pm := scanProcessMemory(fns, modPath)
		op.Sites = len(fns)
		for _, b := range pm {
			op.Fail(c.W.Pos(b.pos), b.msg+" in "+fnShort(b.fn), nil)
		}
		oc := c.Ob("C18.R3", "positive control: global store and struct-held map write are flagged in the control package")
		if cerr != nil {
			oc.Undecide("control package: " + cerr.Error())
		} else {
			g, m := scanProcessState(ctl)
			oc.Sites = len(g) + len(m)
			if len(g) == 0 || len(m) == 0 {
				oc.Fail("-", fmt.Sprintf("control: %d global stores, %d struct map writes detected (want >= 1 each)", len(g), len(m)), nil)
			}
			kinds := map[string]bool{}
			for _, b := range scanProcessMemory(ctl, "opverify/") {
				oc.Sites++
				switch {
				case strings.Contains(b.msg, "sync.Map"):
					kinds["sync"] = true
				case strings.Contains(b.msg, "delete on struct-held map"):
					kinds["delete"] = true
				case strings.Contains(b.msg, "pointer field"):
					kinds["ptrfield"] = true
				case strings.Contains(b.msg, "through parameter"):
					kinds["param"] = true
				}
			}
			for _, k := range []string{"sync", "delete", "ptrfield", "param"} {
				if !kinds[k] {
					oc.Fail("-", "process-memory control '"+k+"' not detected", nil)
				}
			}
		}
	})

	c.Rule("C18.R4", func() {
		// G.closure: storeService only flows into collections.NewSchemaBuilder; collection values escape only to the paginator
		o := c.Ob("C18.R4", "the raw KVStoreService is used only to build the collections schema")
		for _, fn := range fns {
			for _, b := range fn.Blocks {
				for _, in := range b.Instrs {
					var fieldName string
					switch x := in.(type) {
					case *ssa.FieldAddr:
						st := deref(x.X.Type()).Underlying().(*types.Struct)
						fieldName = st.Field(x.Field).Name()
						if fieldName != "storeService" {
							continue
						}
						o.Sites++
						for _, r := range *x.Referrers() {
							if _, isStore := r.(*ssa.Store); isStore && fn.Name() == "NewKeeper" {
								continue
							}
							o.Fail(c.W.Pos(in.Pos()), "storeService field accessed in "+fnShort(fn)+" (raw store access bypasses collections ordering and the effect model)", nil)
						}
					case *ssa.Field:
						st := x.X.Type().Underlying().(*types.Struct)
						if st.Field(x.Field).Name() == "storeService" {
							o.Sites++
							o.Fail(c.W.Pos(in.Pos()), "storeService field read in "+fnShort(fn), nil)
						}
					}
				}
			}
		}
		// parameters of type KVStoreService: only passed to NewSchemaBuilder or stored in the keeper
		for _, fn := range fns {
			for _, p := range fn.Params {
				if !strings.HasSuffix(types.TypeString(p.Type(), nil), "store.KVStoreService") {
					continue
				}
				for _, r := range *p.Referrers() {
					o.Sites++
					switch x := r.(type) {
					case *ssa.Store, *ssa.DebugRef:
					case ssa.CallInstruction:
						if n := staticName(x.Common()); n != "collections.NewSchemaBuilder" && !strings.HasSuffix(n, "keeper.NewKeeper") {
							o.Fail(c.W.Pos(r.Pos()), "KVStoreService passed to "+n+" in "+fnShort(fn), nil)
						}
					case *ssa.MakeInterface, *ssa.ChangeInterface:
					default:
						o.Fail(c.W.Pos(r.Pos()), fmt.Sprintf("KVStoreService used by %T in %s", r, fnShort(fn)), nil)
					}
				}
			}
		}
		if o.Sites < 2 {
			o.Fail("-", "storeService uses not found (floor 2: both NewKeeper functions)", nil)
		}
		o2 := c.Ob("C18.R4", "collections are accessed only through their methods, their read-only cursors or the read-only paginator")
		for _, s := range eff.Where(func(s *Site) bool { return s.Kind == SColl }) {
			o2.Sites++
			if !collReads[s.Method] && !collWrites[s.Method] {
				o2.Fail(c.W.Pos(s.Pos), "collections method "+s.Method+" in "+fnShort(s.Root())+" is not in the read/write table", nil)
			}
			// Iterate / IterateRaw are ordered reads (key order of the store); a cursor that is kept
			// beyond the call is process memory and is reported by C18.R3
		}
		if o2.Sites < 60 {
			o2.Fail("-", fmt.Sprintf("only %d collection access sites resolved (floor 60)", o2.Sites), nil)
		}
	})

	c.Rule("C18.R5", func() {
		ok, bad := scanSorts(fns)
		o := c.Ob("C18.R5", "sort comparators are total orders over the element")
		o.Sites = len(ok) + len(bad)
		for _, b := range bad {
			o.Fail(c.W.Pos(b.pos), b.msg+" in "+fnShort(b.fn), nil)
		}
		if len(ok) == 0 {
			o.Fail("-", "the known sort (sortNoLongerBonded) was not found (floor 1)", nil)
		}
		oc := c.Ob("C18.R5", "positive control: a partial-order comparator is flagged in the control package")
		if cerr != nil {
			oc.Undecide("control package: " + cerr.Error())
		} else {
			_, cb := scanSorts(ctl)
			oc.Sites = len(cb)
			if len(cb) < 2 {
				oc.Fail("-", fmt.Sprintf("%d of the 2 control comparators (less-form and three-way partial orders) flagged", len(cb)), nil)
			}
		}
	})
	c.Extra["functions_scanned"] = len(fns)
}

// threeWayTotal: v is bytes.Compare / strings.Compare / cmp.Compare itself, or a one-block
// function (a, b) that returns one of them applied to exactly (a, b).
func threeWayTotal(v ssa.Value) bool {
	lib := func(f *ssa.Function) bool {
		switch funcName(f) {
		case "bytes.Compare", "strings.Compare", "cmp.Compare":
			return true
		}
		return false
	}
	var f *ssa.Function
	switch x := v.(type) {
	case *ssa.Function:
		f = x
	case *ssa.MakeClosure:
		f, _ = x.Fn.(*ssa.Function)
	case *ssa.ChangeType:
		return threeWayTotal(x.X)
	}
	if f == nil {
		return false
	}
	if lib(f) {
		return true
	}
	if len(f.Blocks) != 1 || len(f.Params) != 2 {
		return false
	}
	for _, in := range f.Blocks[0].Instrs {
		r, ok := in.(*ssa.Return)
		if !ok || len(r.Results) != 1 {
			continue
		}
		call, ok := r.Results[0].(*ssa.Call)
		if !ok {
			return false
		}
		cal := call.Common().StaticCallee()
		return cal != nil && lib(cal) && len(call.Common().Args) == 2 && call.Common().Args[0] == ssa.Value(f.Params[0]) && call.Common().Args[1] == ssa.Value(f.Params[1])
	}
	return false
}
