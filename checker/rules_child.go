package main

import (
	"go/token"
	"fmt"
	"go/constant"
	"go/types"
	"strings"

	"golang.org/x/tools/go/ssa"
)

// ---------------------------------------------------------------------------
// shared: opchild deposit finalisation

// handler-level view: helpers with their own rules stay opaque
// parameter roles of the two private deposit helpers, by type: their names, order and
// packaging (separate parameters or a parameter object) are not part of any property
var hookRoles = map[string]string{"uint64": "hookMaxGas", "[]byte": "data", "sdk.Context": "ctx", "context.Context": "ctx"}
var depRoles = map[string]string{"context.Context": "ctx", "sdk.Context": "ctx", "sdk.AccAddress": "toAddr", "sdk.Coins": "coins"}

var ftdPO = PO{Params: hParams, NoInline: []string{".Validate", "checkBridgeExecutorPermission", "handleBridgeHook", "safeDepositToken", "setDenomMetadata"}}

func (c *Ctx) constVal(pkg, name string) string {
	p := c.W.ByPath[modPath+"/x/"+pkg]
	if p == nil {
		panic(anchorErr{"package " + pkg})
	}
	k, ok := p.Types.Scope().Lookup(name).(*types.Const)
	if !ok {
		panic(anchorErr{"constant " + pkg + "." + name})
	}
	if k.Val().Kind() == constant.String {
		return constant.StringVal(k.Val())
	}
	return k.Val().ExactString()
}

// gateOf: relation between req.Sequence and the next expected L1 sequence on a path.
func gateOf(p *Path, upto int) (next *Term, rel uint8, nf int) {
	for i := range p.Events {
		ev := &p.Events[i]
		if ev.Kind == EvExit && isCall2(ev, "Keeper).GetNextL1Sequence") && ev.Res.Op == "tuple" {
			if !ev.Res.Args[1].IsNil() && !p.factIs(len(p.Events), "("+ev.Res.Args[1].String()+" == nil)", true) {
				return nil, rAny, 0 // the load itself failed: the path ends before the gate
			}
			next = ev.Res.Args[0]
			break
		}
	}
	if next == nil {
		return nil, rAny, 0
	}
	rel, nf = p.Relation(upto, keyIs("req.Sequence"), keyIs(next.Key()))
	return
}

func nextIsLoaded(next *Term) bool {
	k := next.Key()
	return k == "1" || k == "(collections.Sequence).Peek(ms.Keeper.NextL1Sequence, ctx).0"
}

// depositOutcome: (credited, hookRan, hookOK) as established by the facts of the path.
type depOutcome struct {
	known     bool
	credited  bool
	hookRan   bool
	hookOK    bool
	addrError bool
}

func outcomeOf(p *Path) depOutcome {
	var d depOutcome
	for i := range p.Events {
		ev := &p.Events[i]
		if ev.Kind == EvFact {
			a := ev.Cond
			if a.Op == "extract" && a.Name == "0" && a.Args[0].Op == "call" {
				n := a.Args[0].Name
				if strings.HasSuffix(n, ").safeDepositToken") {
					d.known, d.credited = true, ev.Pol
				}
				if strings.HasSuffix(n, ").handleBridgeHook") {
					d.hookOK = ev.Pol
				}
			}
			if x := eqOther(a, "nil"); x != nil && !ev.Pol && x.Op == "extract" && x.Name == "1" {
				if dd := decodedFrom(x.Args[0]); dd != nil && dd.Key() == "req.To" {
					d.known, d.credited, d.addrError = true, false, true
				}
			}
		}
		if ev.Kind == EvCall && strings.HasSuffix(ev.Call.Name, ").handleBridgeHook") {
			d.hookRan = true
		}
	}
	return d
}

// readOnlyFn: the function's transitive effect summary contains no write.
func (c *Ctx) readOnlyFn(rule string, fn *ssa.Function) {
	eff := c.W.BuildEffects()
	o := c.Ob(rule, fnShort(fn)+" is read-only (transitive effect summary)")
	for _, s := range eff.ReachSites(fn, func(s *Site) bool { return true }) {
		o.Sites++
		bad := ""
		switch s.Kind {
		case SColl:
			if s.IsCollWrite() {
				bad = "collections write " + s.Field + "." + s.Method
			}
		case SIface:
			if isKeeperIface(s.Callee) && !ifaceReads[s.Method] {
				bad = "keeper mutator " + s.Callee
			}
			if strings.Contains(s.Callee, "EventManager") && strings.HasPrefix(s.Method, "Emit") {
				bad = "event emission"
			}
		case SDyn:
			bad = "dynamic call of " + s.Field
		case SMapSet, SMapDel, SGlobal, SGo:
			bad = string(s.Kind)
		}
		if bad != "" {
			o.Fail(c.W.Pos(s.Pos), bad+" reachable from "+fnShort(fn), nil)
		}
	}
}

// ---------------------------------------------------------------------------
// C06 — L2 credits each L1 deposit exactly once, in order

func propC06(c *Ctx) {
	c.Clauses = append(c.Clauses,
		"a deposit message is never answered (NOOP or SUCCESS) without loading the stored next L1 sequence in that call",
		"three-way gate on (req.Sequence ? next): '<' returns (NOOP, nil) with no effect at all, '>' returns an error with no effect, every effect lies on '=' paths",
		"every success path with '=' increments the L1 sequence exactly once; NextL1Sequence has no writer other than the increment helper and the genesis setter",
		"the executor check precedes the gate and is read-only",
		"GetNextL1Sequence / IncreaseNextL1Sequence agree on the default (1) and the helper stores default+1 on first use; Query/NextL1Sequence returns the getter unmodified")
	c.NotDecided = append(c.NotDecided, "exactly-once over delivery schedules as a history statement (follows from the per-message step rule under A2/A3)")
	c.Assumptions = append(c.Assumptions, "A1", "A2", "A3 (Sequence.Next returns the stored value and stores +1)", "A10")
	// the deposit counter survives a genesis import: the importer stores data.NextL1Sequence (and
	// nothing else) into NextL1Sequence, whichever helper performs the write
	c.Rule("C06.R5", func() {
		imp := c.Method(childKeeper, "Keeper", "InitGenesis")
		o := c.Ob("C06.R5", "opchild InitGenesis: NextL1Sequence := data.NextL1Sequence and NextL2Sequence := data.NextL2Sequence on every returning path")
		po := PO{Params: []string{"k", "ctx", "data"}, Visits: 2, NoInline: []string{"SetParams", "Keeper).SetValidator", "SetValidatorByConsAddr", "SetLastValidatorPower", "Keeper).GetValidator", "ApplyAndReturnValidatorSetUpdates", "ABCIValidatorUpdate", ".Validate"}}
		for _, p := range c.Paths(imp, po) {
			o.Paths++
			if p.Panic {
				continue
			}
			o.Sites++
			for _, f := range []string{"NextL1Sequence", "NextL2Sequence"} {
				sets := collEvents(p, len(p.Events), f, "Set")
				if len(sets) != 1 || strip(p.Events[sets[0]].Call.Args[2]).Key() != "data."+f {
					got := "nothing"
					if len(sets) > 0 {
						got = trunc(strip(p.Events[sets[0]].Call.Args[2]).Key(), 80)
					}
					o.Fail(c.W.Pos(imp.Pos()), fmt.Sprintf("%s restored %d time(s) from %s (want once, from data.%s)", f, len(sets), got, f), c.Dump(p, -1))
				}
			}
		}
		if o.Sites == 0 {
			o.Fail(c.W.Pos(imp.Pos()), "no returning import path", nil)
		}
	})
	fn := childHandler(c, "FinalizeTokenDeposit")
	noop := c.constVal(childTypes, "NOOP")

	c.Rule("C06.R1", func() {
		oLT := c.Ob("C06.R1", "FinalizeTokenDeposit: req.Sequence < next => (NOOP, nil) and no effect")
		oGT := c.Ob("C06.R1", "FinalizeTokenDeposit: req.Sequence > next => error and no effect")
		oEQ := c.Ob("C06.R1", "FinalizeTokenDeposit: every effect carries req.Sequence = next")
		oDet := c.Ob("C06.R1", "FinalizeTokenDeposit: past the gate the order relation is decided (<, = or >)")
		nLT, nGT, nEQ := 0, 0, 0
		for _, p := range c.Paths(fn, ftdPO) {
			for _, o := range []*Obl{oLT, oGT, oEQ, oDet} {
				o.Paths++
				o.Facts += p.NFacts()
			}
			next, relEnd, _ := gateOf(p, len(p.Events))
			if next != nil && !nextIsLoaded(next) {
				oDet.Fail(c.W.Pos(fn.Pos()), "next expected sequence is "+next.Key()+", not the loaded NextL1Sequence (default 1)", c.Dump(p, -1))
			}
			for i := range p.Events {
				ev := &p.Events[i]
				k := effectKind(ev)
				if k == "" {
					continue
				}
				oEQ.Sites++
				_, rel, nf := gateOf(p, i)
				if next == nil || nf == 0 || rel != rEQ {
					oEQ.Fail(c.evPos(ev), "effect "+k+" reachable with relation(req.Sequence, next) = "+relString(rel), c.Dump(p, i))
				}
			}
			if next == nil {
				// the stored counter was never consulted: only an error may end here - an answer
				// (NOOP or SUCCESS) decided from anything but the stored next sequence (a cache, a
				// hint, a field of the keeper) is not rolled back with the store
				if p.OK() && !p.Panic {
					oDet.Fail(c.W.Pos(fn.Pos()), "the message is answered without loading the stored next L1 sequence", c.Dump(p, -1))
				}
				continue
			}
			switch relEnd {
			case rLT:
				nLT++
				oLT.Sites++
				if !p.OK() || p.Panic {
					oLT.Fail(c.W.Pos(fn.Pos()), "an already processed sequence is answered with an error instead of a no-op", c.Dump(p, -1))
				} else if got := project(p.RetVal[0], "Result", nil); got.Key() != noop {
					oLT.Fail(c.W.Pos(fn.Pos()), "replayed sequence answered with Result="+got.Key()+", want NOOP("+noop+")", c.Dump(p, -1))
				}
			case rGT:
				nGT++
				oGT.Sites++
				if p.OK() && !p.Panic {
					oGT.Fail(c.W.Pos(fn.Pos()), "a sequence ahead of the next expected one is accepted (gap)", c.Dump(p, -1))
				}
			case rEQ:
				nEQ++
				if p.OK() && !p.Panic {
					if got := project(p.RetVal[0], "Result", nil); got.Key() == noop {
						oLT.Fail(c.W.Pos(fn.Pos()), "the expected sequence is answered with NOOP", c.Dump(p, -1))
					}
				}
			default:
				// undetermined: only legal if the path ended before/at the gate with an error
				if p.OK() && !p.Panic {
					oDet.Fail(c.W.Pos(fn.Pos()), "success with undetermined relation "+relString(relEnd)+" between req.Sequence and next", c.Dump(p, -1))
				}
			}
		}
		if nLT == 0 {
			oLT.Fail(c.W.Pos(fn.Pos()), "no path handles req.Sequence < next (floor)", nil)
		}
		if nGT == 0 {
			oGT.Fail(c.W.Pos(fn.Pos()), "no path handles req.Sequence > next (floor)", nil)
		}
		if nEQ == 0 {
			oEQ.Fail(c.W.Pos(fn.Pos()), "no path handles req.Sequence = next (floor)", nil)
		}
	})

	c.Rule("C06.R2", func() {
		o := c.Ob("C06.R2", "FinalizeTokenDeposit: exactly one IncreaseNextL1Sequence on every '=' success path, not in a loop")
		for _, p := range c.Paths(fn, ftdPO) {
			o.Paths++
			o.Facts += p.NFacts()
			incs := p.Find(func(ev *Event) bool { return ev.Kind == EvEnter && isCall(ev, "Keeper).IncreaseNextL1Sequence") })
			o.Sites += len(incs)
			_, rel, _ := gateOf(p, len(p.Events))
			if p.OK() && !p.Panic && rel == rEQ && len(incs) != 1 {
				o.Fail(c.W.Pos(fn.Pos()), fmt.Sprintf("processed deposit with %d sequence increments", len(incs)), c.Dump(p, -1))
			}
			if rel != rEQ && len(incs) > 0 {
				o.Fail(c.W.Pos(fn.Pos()), "sequence incremented on a path that does not process the expected sequence", c.Dump(p, -1))
			}
		}
		c.writersTable("C06.R2", "opchild/keeper.Keeper", "NextL1Sequence", setOf("Set", "Next", "Remove", "Clear"),
			[]string{"(opchild/keeper.MsgServer).FinalizeTokenDeposit", "(opchild.AppModule).InitGenesis"})
		eff := c.W.BuildEffects()
		o3 := c.Ob("C06.R2", "SetNextL1Sequence only from InitGenesis; IncreaseNextL1Sequence only from FinalizeTokenDeposit")
		for _, f := range eff.Callers(c.Method(childKeeper, "Keeper", "SetNextL1Sequence")) {
			o3.Sites++
			if fnShort(f) != "(opchild.AppModule).InitGenesis" {
				o3.Fail(c.W.Pos(f.Pos()), "SetNextL1Sequence called from "+fnShort(f), nil)
			}
		}
		for _, f := range eff.Callers(c.Method(childKeeper, "Keeper", "IncreaseNextL1Sequence")) {
			o3.Sites++
			if fnShort(f) != "(opchild/keeper.MsgServer).FinalizeTokenDeposit" {
				o3.Fail(c.W.Pos(f.Pos()), "IncreaseNextL1Sequence called from "+fnShort(f), nil)
			}
		}
	})

	c.Rule("C06.R3", func() {
		o := c.Ob("C06.R3", "FinalizeTokenDeposit: executor check on req.Sender succeeds before the sequence is read")
		for _, p := range c.Paths(fn, ftdPO) {
			o.Paths++
			o.Facts += p.NFacts()
			for _, i := range collEvents(p, len(p.Events), "NextL1Sequence", "Peek") {
				o.Sites++
				if !p.HasFact(i, func(a *Term, pol bool) bool {
					x := eqOther(a, "nil")
					return pol && x != nil && x.Op == "call" && strings.HasSuffix(x.Name, "checkBridgeExecutorPermission") && x.Args[len(x.Args)-1].Key() == "req.Sender"
				}) {
					o.Fail(c.evPos(&p.Events[i]), "sequence gate evaluated before the executor check passed", c.Dump(p, i))
				}
			}
		}
		c.readOnlyFn("C06.R3", c.Method(childKeeper, "MsgServer", "checkBridgeExecutorPermission"))
		c.readOnlyFn("C06.R3", c.Method(childTypes, "MsgFinalizeTokenDeposit", "Validate"))
	})

	c.Rule("C06.R4", func() {
		g := c.Method(childKeeper, "Keeper", "GetNextL1Sequence")
		inc := c.Method(childKeeper, "Keeper", "IncreaseNextL1Sequence")
		o := c.Ob("C06.R4", "GetNextL1Sequence: Peek, default 1 when the stored value is the collections default")
		def := c.constVal(hostTypes, "DefaultL1SequenceStart")
		for _, p := range c.Paths(g, PO{Params: []string{"k", "ctx"}}) {
			o.Paths++
			o.Facts += p.NFacts()
			if !p.OK() || p.Panic {
				continue
			}
			o.Sites++
			r := p.Ret[0].Key()
			peek := "(collections.Sequence).Peek(k.NextL1Sequence, ctx).0"
			isDef := p.HasFact(len(p.Events), func(a *Term, pol bool) bool { return pol && eqAtom(a, peek, "0") })
			notDef := p.nonZeroOn(len(p.Events), peek)
			if !isDef && !notDef {
				o.Fail(c.W.Pos(g.Pos()), "returns without distinguishing the fresh counter (collections default 0) from a stored one: a fresh chain would report "+r+" instead of "+def, c.Dump(p, -1))
			}
			if isDef && r != def {
				o.Fail(c.W.Pos(g.Pos()), "fresh counter reported as "+r+", want "+def, c.Dump(p, -1))
			}
			if !isDef && r != peek {
				o.Fail(c.W.Pos(g.Pos()), "reports "+r+" instead of the stored value", c.Dump(p, -1))
			}
		}
		o2 := c.Ob("C06.R4", "IncreaseNextL1Sequence: returns the pre-increment value; first use returns 1 and stores 2")
		for _, p := range c.Paths(inc, PO{Params: []string{"k", "ctx"}}) {
			o2.Paths++
			o2.Facts += p.NFacts()
			if !p.OK() || p.Panic {
				continue
			}
			o2.Sites++
			nx := collEvents(p, len(p.Events), "NextL1Sequence", "Next")
			if len(nx) != 1 {
				o2.Fail(c.W.Pos(inc.Pos()), "success without exactly one Sequence.Next", c.Dump(p, -1))
				continue
			}
			nv := p.Events[nx[0]].Call.String() + ".0"
			sets := collEvents(p, len(p.Events), "NextL1Sequence", "Set")
			isDef := p.HasFact(len(p.Events), func(a *Term, pol bool) bool { return pol && eqAtomS(a, nv, "0") })
			r := p.Ret[0]
			if isDef {
				if r.Key() != def || len(sets) != 1 || p.Events[sets[0]].Call.Args[2].Key() != binopPlus1(r) {
					o2.Fail(c.W.Pos(inc.Pos()), "first use must return "+def+" and store "+def+"+1", c.Dump(p, -1))
				}
			} else if r.String() != nv || len(sets) != 0 {
				o2.Fail(c.W.Pos(inc.Pos()), "must return the value Sequence.Next produced and not overwrite the counter", c.Dump(p, -1))
			}
		}
		q := c.Method(childKeeper, "Querier", "NextL1Sequence")
		o3 := c.Ob("C06.R4", "Query/NextL1Sequence returns GetNextL1Sequence unmodified")
		for _, p := range c.Paths(q, PO{Params: []string{"q", "ctx", "req"}, NoInline: []string{"GetNextL1Sequence"}}) {
			o3.Paths++
			if !p.OK() || p.Panic {
				continue
			}
			o3.Sites++
			got := project(p.RetVal[0], "NextL1Sequence", nil)
			if got.Op != "extract" || got.Name != "0" || !strings.HasSuffix(got.Args[0].Name, "Keeper).GetNextL1Sequence") {
				o3.Fail(c.W.Pos(q.Pos()), "response carries "+trunc(got.Key(), 120), c.Dump(p, -1))
			}
		}
	})
}

// ---------------------------------------------------------------------------
// C07 — a deposit can neither be lost nor block the bridge; hooks contained

func isRecoveringClosure(t *Term) bool {
	if t == nil || t.Fn == nil || len(t.Fn.Blocks) == 0 {
		return false
	}
	for _, in := range t.Fn.Blocks[0].Instrs {
		if call, ok := in.(*ssa.Call); ok {
			if b, ok := call.Call.Value.(*ssa.Builtin); ok && b.Name() == "recover" {
				return true
			}
		}
	}
	return false
}

// errOrigin classifies where a returned error value comes from.
func errOrigin(t *Term) string {
	t = strip(t)
	if t.Op == "extract" {
		t = t.Args[0]
	}
	switch t.Op {
	case "global":
		return "sentinel:" + t.Name
	case "call":
		n := t.Name
		if strings.HasPrefix(n, "(collections.") || strings.HasPrefix(n, "(*collections.") {
			f := "?"
			if len(t.Args) > 0 && strip(t.Args[0]).Op == "field" {
				f = strip(t.Args[0]).Name
			}
			return "store:" + f
		}
		if isKeeperIface(n) {
			return "keeper:" + n
		}
		if strings.Contains(n, "Wrap") && len(t.Args) > 0 {
			return "wrap(" + errOrigin(t.Args[0]) + ")"
		}
		return "call:" + n
	}
	if t.Op == "opaque" && strings.HasPrefix(t.Name, "iter") && len(t.Args) > 0 {
		return errOrigin(t.Args[0]) // decoding / close error of a cursor: the store it was opened on
	}
	return "other:" + trunc(t.Key(), 60)
}

func propC07(c *Ctx) {
	c.Clauses = append(c.Clauses,
		"handleBridgeHook: a routed message runs only after the payload decoded and the ante decorators accepted the hook tx",
		"who-may-fail: after the sequence gate the handler returns an error only from store I/O on its own counters/maps/params or from the reclaim send/burn; results of recipient decoding, safeDepositToken and handleBridgeHook never become the handler's error",
		"safeDepositToken: mint and send run on the cache context; commit only after both succeeded; success only after commit; a recovering defer precedes them",
		"handleBridgeHook: zero max gas => nothing runs; decoder/ante/handlers run under a recovering defer on a context whose gas meter is bounded by min(remaining, hookMaxGas); handlers run on the cache context; commit only after all handlers succeeded; consumed gas is charged to the outer meter in the deferred closure",
		"the L1 sequence advances on every '=' path; exactly one of two outcomes: credited (no refund, no burn) or one refund withdrawal (req.To -> req.From, full req.Amount) under exactly one new L2 sequence, with reclaim+burn of the full amount iff the credit had succeeded",
		"the hook runs only after a successful credit with non-empty data and Params.HookMaxGas")
	c.NotDecided = append(c.NotDecided, "behaviour of injected faults inside the bank/auth keepers and the gas numbers themselves (runtime quantities)", "panics outside the recovered region (account creation for zero-amount deposits)")
	c.Assumptions = append(c.Assumptions, "A1", "A2", "A3", "A4", "A10")
	fn := childHandler(c, "FinalizeTokenDeposit")

	c.Rule("C07.R1", func() {
		o := c.Ob("C07.R1", "FinalizeTokenDeposit: post-gate error returns originate only in store I/O or the reclaim send/burn")
		allowedStore := setOf("store:NextL1Sequence", "store:NextL2Sequence", "store:DenomPairs", "store:Params")
		allowedKeeper := setOf("keeper:(opchild/types.BankKeeper).SendCoinsFromAccountToModule", "keeper:(opchild/types.BankKeeper).BurnCoins")
		for _, p := range c.Paths(fn, ftdPO) {
			o.Paths++
			o.Facts += p.NFacts()
			_, rel, _ := gateOf(p, len(p.Events))
			if rel != rEQ || p.Panic || p.OK() {
				continue
			}
			o.Sites++
			org := errOrigin(p.Ret[len(p.Ret)-1])
			if allowedStore[org] || allowedKeeper[org] || org == "sentinel:opchild/types.ErrNonL1Token" {
				continue
			}
			o.Fail(c.W.Pos(fn.Pos()), "a processed deposit can fail the handler with an error from "+org+" (would stall every later deposit)", c.Dump(p, -1))
		}
		// the three user-influenced results are consumed as data, never returned
		o2 := c.Ob("C07.R1", "FinalizeTokenDeposit: safeDepositToken / handleBridgeHook return (bool,string), not error")
		for _, nm := range []struct{ t, m string }{{"MsgServer", "safeDepositToken"}, {"Keeper", "handleBridgeHook"}} {
			f := c.Method(childKeeper, nm.t, nm.m)
			o2.Sites++
			res := f.Signature.Results()
			var comps []string
			for i := 0; i < res.Len(); i++ {
				if st, ok := carrierStruct(res.At(i).Type()); ok { // a result object: its components
					for k := 0; k < st.NumFields(); k++ {
						comps = append(comps, types.TypeString(st.Field(k).Type(), nil))
					}
					continue
				}
				comps = append(comps, types.TypeString(res.At(i).Type(), nil))
			}
			if len(comps) != 2 || comps[0] != "bool" || comps[1] != "string" {
				o2.Fail(c.W.Pos(f.Pos()), nm.m+" result type changed to "+res.String(), nil)
			}
		}
	})

	c.Rule("C07.R2", func() {
		for _, nm := range []struct{ t, m string }{{"MsgServer", "safeDepositToken"}, {"Keeper", "handleBridgeHook"}} {
			successAfterCommit(c, c.Ob("C07.R2", nm.m+": inside the cached region the success flag is raised only after commit() (a panicking commit must report failure)"), c.Method(childKeeper, nm.t, nm.m))
		}
		sd := c.Method(childKeeper, "MsgServer", "safeDepositToken")
		o := c.Ob("C07.R2", "safeDepositToken: mint+send on the cache context; commit only after both succeeded; success only after commit")
		o3 := c.Ob("C07.R3", "safeDepositToken: a recovering defer precedes mint, send and commit")
		for _, p := range c.Paths(sd, PO{Params: []string{"ms"}, Roles: depRoles}) {
			o.Paths++
			o3.Paths++
			o.Facts += p.NFacts()
			var cache *Term
			commitIdx := -1
			recovering := -1
			var mint, send *Term
			for i := range p.Events {
				ev := &p.Events[i]
				if ev.Kind == EvDefer && isRecoveringClosure(ev.Fun) && ev.Depth == 0 {
					recovering = i
				}
				if ev.Kind != EvCall {
					continue
				}
				n := ev.Call.Name
				switch {
				case strings.HasSuffix(n, "(sdk.Context).CacheContext"):
					cache = ev.Call
				case strings.HasSuffix(n, "BankKeeper).MintCoins"), strings.HasSuffix(n, "BankKeeper).SendCoinsFromModuleToAccount"):
					o.Sites++
					o3.Sites++
					if cache == nil || ev.Call.Args[1].String() != cache.String()+".0" {
						o.Fail(c.evPos(ev), methodOf(n)+" runs on "+trunc(ev.Call.Args[1].Key(), 80)+", not on the cache context", c.Dump(p, i))
					}
					if recovering < 0 {
						o3.Fail(c.evPos(ev), methodOf(n)+" is not preceded by a recovering defer", c.Dump(p, i))
					}
					if strings.HasSuffix(n, "MintCoins") {
						mint = ev.Call
						if ev.Call.Args[2].Key() != `"opchild"` || ev.Call.Args[3].Key() != "coins" {
							o.Fail(c.evPos(ev), "mints "+ev.Call.Args[3].Key()+" to "+ev.Call.Args[2].Key(), c.Dump(p, i))
						}
					} else {
						send = ev.Call
						if ev.Call.Args[2].Key() != `"opchild"` || ev.Call.Args[3].Key() != "toAddr" || ev.Call.Args[4].Key() != "coins" {
							o.Fail(c.evPos(ev), "sends "+ev.Call.Args[4].Key()+" from "+ev.Call.Args[2].Key()+" to "+ev.Call.Args[3].Key(), c.Dump(p, i))
						}
						if mint == nil || !p.factIs(i, "("+mint.String()+" == nil)", true) {
							o.Fail(c.evPos(ev), "send attempted although the mint did not succeed", c.Dump(p, i))
						}
					}
				case n == "dynamic" && cache != nil && strip(ev.Fun).String() == cache.String()+".1":
					commitIdx = i
					o.Sites++
					if mint == nil || send == nil || !p.factIs(i, "("+mint.String()+" == nil)", true) || !p.factIs(i, "("+send.String()+" == nil)", true) {
						o.Fail(c.evPos(ev), "cache committed although mint or send did not both succeed", c.Dump(p, i))
					}
					if recovering < 0 {
						o3.Fail(c.evPos(ev), "commit is not preceded by a recovering defer", c.Dump(p, i))
					}
				}
			}
			if !p.Panic && len(p.Ret) == 2 && !p.Ret[0].IsFalse() {
				// success may be true only after commit, or on the zero-coin branch
				zero := p.HasFact(len(p.Events), func(a *Term, pol bool) bool { return pol && a.Key() == "(sdk.Coins).IsZero(coins)" })
				if !p.Ret[0].IsTrue() {
					o.Fail(c.W.Pos(sd.Pos()), "success flag is not a constant on this path: "+p.Ret[0].Key(), c.Dump(p, -1))
				} else if !zero && commitIdx < 0 {
					o.Fail(c.W.Pos(sd.Pos()), "reports success without committing the cache", c.Dump(p, -1))
				}
			}
			if !p.Panic && len(p.Ret) == 2 && p.Ret[0].IsFalse() && commitIdx >= 0 {
				// a recovered panic after commit legitimately reports failure only via the recover branch
				rec := p.HasFact(len(p.Events), func(a *Term, pol bool) bool {
					x := eqOther(a, "nil")
					return !pol && x != nil && x.Op == "call" && x.Name == "builtin.recover"
				})
				if !rec {
					o.Fail(c.W.Pos(sd.Pos()), "reports failure although the cache was committed (credit without acknowledgement => double payout with the refund)", c.Dump(p, -1))
				}
			}
		}
		if o.Sites < 3 {
			o.Fail(c.W.Pos(sd.Pos()), "mint/send/commit not all found (floor 3)", nil)
		}

		hb := c.Method(childKeeper, "Keeper", "handleBridgeHook")
		oh := c.Ob("C07.R2", "handleBridgeHook: handlers on the cache context; commit only after every handler succeeded; success only after commit")
		oh3 := c.Ob("C07.R3", "handleBridgeHook: a recovering defer precedes decoder, ante decorators, handlers and commit")
		oa := c.Ob("C07.R12", "handleBridgeHook: hook messages run only after the payload decoded and the ante decorators accepted the hook tx")
		og := c.Ob("C07.R4", "handleBridgeHook: zero max gas runs nothing; inner context metered by min(remaining, hookMaxGas); consumed gas charged to the outer meter")
		for _, p := range c.Paths(hb, PO{Params: []string{"k"}, Roles: hookRoles, Visits: 3}) {
			oh.Paths++
			oh3.Paths++
			og.Paths++
			oh.Facts += p.NFacts()
			og.Facts += p.NFacts()
			recovering := -1
			var cache *Term
			commitIdx := -1
			zeroGas := p.HasFact(len(p.Events), func(a *Term, pol bool) bool { return pol && eqAtom(a, "hookMaxGas", "0") })
			var handlerCalls []*Term
			var decCall, anteCall *Term
			charged := false
			for i := range p.Events {
				ev := &p.Events[i]
				if ev.Kind == EvDefer && isRecoveringClosure(ev.Fun) && ev.Depth == 0 {
					recovering = i
				}
				if ev.Kind != EvCall {
					continue
				}
				n := ev.Call.Name
				if strings.HasSuffix(n, "GasMeter).ConsumeGas") {
					og.Sites++
					// originGasMeter.ConsumeGas(ctx'.GasMeter().GasConsumedToLimit(), ..)
					a := ev.Call.Args
					if a[0].Key() == "(sdk.Context).GasMeter(ctx)" && strings.HasPrefix(a[1].Key(), "(storetypes.GasMeter).GasConsumedToLimit((sdk.Context).GasMeter(") && strings.Contains(a[1].Key(), "storetypes.NewGasMeter(") {
						charged = true
					} else {
						og.Fail(c.evPos(ev), "gas charged as "+trunc(a[1].Key(), 120)+" to "+a[0].Key(), c.Dump(p, i))
					}
				}
				if strings.HasSuffix(n, "(sdk.Context).CacheContext") {
					cache = ev.Call
				}
				if n != "dynamic" {
					continue
				}
				fun := strip(ev.Fun)
				kind := ""
				switch {
				case fun.Key() == "k.txDecoder":
					kind = "decoder"
				case fun.Key() == "k.decorators":
					kind = "decorators"
				case fun.Op == "call" && strings.HasSuffix(fun.Name, "MsgServiceRouter).Handler"):
					kind = "handler"
				case cache != nil && fun.String() == cache.String()+".1":
					kind = "commit"
				default:
					oh.Fail(c.evPos(ev), "unclassified dynamic call of "+trunc(fun.Key(), 80), c.Dump(p, i))
					continue
				}
				oh.Sites++
				oh3.Sites++
				nonZero := p.HasFact(i, func(a *Term, pol bool) bool { return !pol && eqAtom(a, "hookMaxGas", "0") })
				if r, n := p.Relation(i, keyIs("hookMaxGas"), keyIs("0")); n > 0 && r&rEQ == 0 {
					nonZero = true
				}
				if zeroGas || !nonZero {
					og.Fail(c.evPos(ev), kind+" runs without hookMaxGas != 0 being established (a zero limit must run nothing)", c.Dump(p, i))
				}
				if recovering < 0 {
					oh3.Fail(c.evPos(ev), kind+" is not preceded by a recovering defer", c.Dump(p, i))
				}
				if kind == "decorators" || kind == "handler" {
					ctxArg := ev.Call.Args[0]
					if !gasBounded(p, i, ctxArg) {
						og.Fail(c.evPos(ev), kind+" runs on a context whose gas meter is not bounded by min(remaining, hookMaxGas): "+trunc(ctxArg.Key(), 160), c.Dump(p, i))
					}
				}
				if kind == "decoder" {
					decCall = ev.Call
				}
				if kind == "decorators" {
					anteCall = ev.Call
				}
				if kind == "handler" {
					oa.Sites++
					okDec := decCall != nil && p.factIs(i, "("+decCall.String()+".1 == nil)", true)
					okAnte := anteCall != nil && p.factIs(i, "("+anteCall.String()+".1 == nil)", true)
					if !okDec || !okAnte {
						oa.Fail(c.evPos(ev), fmt.Sprintf("a hook message runs without: payload decoded [%v], ante decorators accepted the hook tx [%v] (a badly signed or undecodable payload must run nothing)", okDec, okAnte), c.Dump(p, i))
					}
					handlerCalls = append(handlerCalls, ev.Call)
					if cache == nil || ev.Call.Args[0].String() != cache.String()+".0" {
						oh.Fail(c.evPos(ev), "hook message handler does not run on the cache context", c.Dump(p, i))
					}
					if commitIdx >= 0 {
						oh.Fail(c.evPos(ev), "handler invoked after commit", c.Dump(p, i))
					}
					if !p.HasFact(i, func(a *Term, pol bool) bool { return !pol && eqAtomS(a, fun.String(), "nil") }) {
						oh.Fail(c.evPos(ev), "handler invoked without a nil check of the routed handler", c.Dump(p, i))
					}
				}
				if kind == "commit" {
					commitIdx = i
					for _, h := range handlerCalls {
						if !p.factIs(i, "("+h.String()+".1 == nil)", true) {
							oh.Fail(c.evPos(ev), "commit although a hook message failed", c.Dump(p, i))
						}
					}
				}
			}
			if !p.Panic && len(p.Ret) == 2 {
				if p.Ret[0].IsTrue() && commitIdx < 0 {
					oh.Fail(c.W.Pos(hb.Pos()), "hook reports success without committing", c.Dump(p, -1))
				}
				if !p.Ret[0].IsTrue() && !p.Ret[0].IsFalse() {
					oh.Fail(c.W.Pos(hb.Pos()), "success flag not constant on this path: "+p.Ret[0].Key(), c.Dump(p, -1))
				}
				if !zeroGas && !charged {
					og.Fail(c.W.Pos(hb.Pos()), "path returns without charging the hook's gas to the outer meter", c.Dump(p, -1))
				}
			}
		}
		if oh.Sites < 4 {
			oh.Fail(c.W.Pos(hb.Pos()), "decoder/decorators/handler/commit not all found (floor 4)", nil)
		}
	})

	c.Rule("C07.R8", func() {
		o := c.Ob("C07.R8", "FinalizeTokenDeposit: exactly one finalize_token_deposit event per processed deposit, with request provenance and the outcome flag")
		for _, p := range c.Paths(fn, ftdPO) {
			o.Paths++
			if !p.OK() || p.Panic {
				continue
			}
			_, rel, _ := gateOf(p, len(p.Events))
			if rel != rEQ {
				continue
			}
			idx, views, und := emitted(p)
			if len(und) > 0 {
				o.Undecide("event not decodable")
				continue
			}
			var dep []int
			for k, v := range views {
				if v.Type == "finalize_token_deposit" {
					dep = append(dep, k)
				}
			}
			if len(dep) != 1 {
				o.Fail(c.W.Pos(fn.Pos()), fmt.Sprintf("processed deposit emits %d finalize_token_deposit events", len(dep)), c.Dump(p, -1))
				continue
			}
			o.Sites++
			v := views[dep[0]]
			checkEvent(c, o, p, idx[dep[0]], v, map[string]string{
				"l1_sequence": "strconv.FormatUint(req.Sequence, 10)", "sender": "req.From", "recipient": "req.To",
				"denom": "req.Amount.Denom", "base_denom": "req.BaseDenom", "amount": "(sdkmath.Int).String(req.Amount.Amount)",
				"finalize_height": "strconv.FormatUint(req.Height, 10)",
			})
			d := outcomeOf(p)
			want := d.credited && (!d.hookRan || d.hookOK)
			if sc, ok := v.Attrs["success"]; !ok {
				o.Fail(c.evPos(&p.Events[idx[dep[0]]]), "event lacks the success attribute", c.Dump(p, -1))
			} else {
				k := strip(sc).Key()
				okFlag := strings.HasPrefix(k, "strconv.FormatBool(")
				inner := strings.TrimSuffix(strings.TrimPrefix(k, "strconv.FormatBool("), ")")
				if k == `"true"` || k == `"false"` { // a formatter applied to a constant folds to the literal
					okFlag, inner = true, strings.Trim(k, `"`)
				}
				switch {
				case !okFlag:
					o.Fail(c.evPos(&p.Events[idx[dep[0]]]), "success attribute is "+trunc(k, 100), c.Dump(p, -1))
				case inner == "true" && !want, inner == "false" && want:
					o.Fail(c.evPos(&p.Events[idx[dep[0]]]), "success attribute says "+inner+" but the deposit outcome on this path is "+fmt.Sprint(want), c.Dump(p, -1))
				case inner != "true" && inner != "false":
					// a symbolic flag: must be the helper result the path branched on
					if !(strings.Contains(inner, "safeDepositToken") || strings.Contains(inner, "handleBridgeHook")) {
						o.Fail(c.evPos(&p.Events[idx[dep[0]]]), "success attribute is "+trunc(inner, 100), c.Dump(p, -1))
					}
				}
			}
		}
		if o.Sites == 0 {
			o.Fail(c.W.Pos(fn.Pos()), "no processed success path", nil)
		}
	})

	c.Rule("C07.R9", func() { hookEffectsContained(c, "C07.R9") })
	c.Rule("C07.R10", func() { routedEventsForwarded(c, "C07.R10", "handleBridgeHook") })

	// the refund's base-denom lookup cannot come back "not an L1 token": by the time a refund
	// is announced, this very deposit has made sure the denom pair exists
	c.Rule("C07.R11", func() {
		fn := childHandler(c, "FinalizeTokenDeposit")
		o := c.Ob("C07.R11", "FinalizeTokenDeposit: before a refund is announced the denom pair of req.Amount.Denom exists (Has == true) or was just set to req.BaseDenom - the base-denom lookup of the refund cannot fail the handler")
		po := PO{Params: hParams, NoInline: []string{".Validate", "checkBridgeExecutorPermission", "handleBridgeHook", "safeDepositToken", "GetBaseDenom"}}
		for _, p := range c.Paths(fn, po) {
			o.Paths++
			o.Facts += p.NFacts()
			for _, i := range p.Find(func(ev *Event) bool { return ev.Kind == EvCall && strings.HasSuffix(ev.Call.Name, "Keeper).GetBaseDenom") }) {
				o.Sites++
				ev := &p.Events[i]
				if ev.Call.Args[len(ev.Call.Args)-1].Key() != "req.Amount.Denom" {
					continue
				}
				ensured := false
				for _, j := range collEvents(p, i, "DenomPairs", "Has") {
					h := p.Events[j].Call
					if h.Args[2].Key() == "req.Amount.Denom" && p.factIs(i, h.String()+".0", true) {
						ensured = true
					}
				}
				for _, j := range collEvents(p, i, "DenomPairs", "Set") {
					st := p.Events[j].Call
					if st.Args[2].Key() == "req.Amount.Denom" && st.Args[3].Key() == "req.BaseDenom" && p.factIs(i, "("+st.String()+" == nil)", true) {
						ensured = true
					}
				}
				if !ensured {
					o.Fail(c.evPos(ev), "the refund looks up the base denom of req.Amount.Denom on a path where this deposit neither found nor registered the denom pair: the lookup fails with ErrNonL1Token, the handler errors and the bridge stalls at this sequence", c.Dump(p, i))
				}
			}
		}
		if o.Sites == 0 {
			o.Fail(c.W.Pos(fn.Pos()), "no base-denom lookup on any path (floor 1)", nil)
		}
	})

	c.Rule("C07.R5", func() {
		o := c.Ob("C07.R5", "FinalizeTokenDeposit: every '=' path that reaches a return has advanced the L1 sequence (independent of credit/hook outcome)")
		seenCredited, seenFailed := false, false
		for _, p := range c.Paths(fn, ftdPO) {
			o.Paths++
			o.Facts += p.NFacts()
			_, rel, _ := gateOf(p, len(p.Events))
			if rel != rEQ || p.Panic {
				continue
			}
			o.Sites++
			incs := p.Find(func(ev *Event) bool { return ev.Kind == EvEnter && isCall(ev, "Keeper).IncreaseNextL1Sequence") })
			d := outcomeOf(p)
			if len(incs) == 0 {
				o.Fail(c.W.Pos(fn.Pos()), "a processed deposit returns without advancing the L1 sequence", c.Dump(p, -1))
				continue
			}
			if d.known && d.credited {
				seenCredited = true
			}
			if d.known && !d.credited {
				seenFailed = true
			}
			// the increment may not be preceded by a return that depends on the outcome: covered by the 'every path' check
		}
		if !seenCredited || !seenFailed {
			o.Fail(c.W.Pos(fn.Pos()), "did not observe both a credited and a failed deposit path (anchor floor)", nil)
		}
	})

	c.Rule("C07.R6", func() {
		o := c.Ob("C07.R6", "FinalizeTokenDeposit: credited XOR exactly one full refund withdrawal; reclaim+burn iff credited then failed")
		o7 := c.Ob("C07.R7", "FinalizeTokenDeposit: hook runs only after a successful credit with non-empty data and Params.HookMaxGas")
		po := PO{Params: hParams, NoInline: []string{".Validate", "checkBridgeExecutorPermission", "handleBridgeHook", "safeDepositToken", "setDenomMetadata", "GetBaseDenom"}}
		nRefund, nCredit := 0, 0
		for _, p := range c.Paths(fn, po) {
			o.Paths++
			o7.Paths++
			o.Facts += p.NFacts()
			o7.Facts += p.NFacts()
			// R7
			for i := range p.Events {
				ev := &p.Events[i]
				if ev.Kind == EvCall && strings.HasSuffix(ev.Call.Name, ").handleBridgeHook") {
					o7.Sites++
					a := callRoles(ev, hookRoles)
					if a["data"] == nil || a["hookMaxGas"] == nil || a["data"].Key() != "req.Data" || a["hookMaxGas"].Key() != paramsGet+".HookMaxGas" {
						o7.Fail(c.evPos(ev), "hook called with (data: "+trunc(a["data"].Key(), 80)+", max gas: "+trunc(a["hookMaxGas"].Key(), 80)+")", c.Dump(p, i))
					}
					cred := p.HasFact(i, func(at *Term, pol bool) bool {
						return pol && at.Op == "extract" && at.Name == "0" && strings.HasSuffix(at.Args[0].Name, "safeDepositToken")
					})
					data := p.nonZeroOn(i, "builtin.len(req.Data)") // a length: != 0 is > 0
					if !cred || !data {
						o7.Fail(c.evPos(ev), fmt.Sprintf("hook reachable without credited=%v / non-empty data=%v", cred, data), c.Dump(p, i))
					}
				}
			}
			if !p.OK() || p.Panic {
				continue
			}
			_, rel, _ := gateOf(p, len(p.Events))
			if rel != rEQ {
				continue
			}
			o.Sites++
			d := outcomeOf(p)
			if !d.known {
				o.Fail(c.W.Pos(fn.Pos()), "processed deposit succeeds without a determined credit outcome", c.Dump(p, -1))
				continue
			}
			l2 := p.Find(func(ev *Event) bool { return ev.Kind == EvEnter && isCall(ev, "Keeper).IncreaseNextL2Sequence") })
			reclaim := p.Find(func(ev *Event) bool {
				return ev.Kind == EvCall && isCall(ev, "BankKeeper).SendCoinsFromAccountToModule")
			})
			burn := p.Find(func(ev *Event) bool { return ev.Kind == EvCall && isCall(ev, "BankKeeper).BurnCoins") })
			_, views, und := emitted(p)
			if len(und) > 0 {
				o.Undecide("event not decodable at " + c.evPos(&p.Events[und[0]]))
				continue
			}
			var wd []*evtView
			for _, v := range views {
				if v.Type == "initiate_token_withdrawal" {
					wd = append(wd, v)
				}
			}
			success := d.credited && (!d.hookRan || d.hookOK)
			if success {
				nCredit++
				if len(l2) != 0 || len(wd) != 0 || len(reclaim) != 0 || len(burn) != 0 {
					o.Fail(c.W.Pos(fn.Pos()), fmt.Sprintf("credited deposit also produces refund artefacts (l2seq=%d, withdraw events=%d, reclaim=%d, burn=%d)", len(l2), len(wd), len(reclaim), len(burn)), c.Dump(p, -1))
				}
				continue
			}
			nRefund++
			if len(l2) != 1 || len(wd) != 1 {
				o.Fail(c.W.Pos(fn.Pos()), fmt.Sprintf("failed deposit with %d new L2 sequences and %d refund withdrawal events (want 1 and 1)", len(l2), len(wd)), c.Dump(p, -1))
				continue
			}
			// the sequence value
			var seq *Term
			for _, i := range p.Find(func(ev *Event) bool { return ev.Kind == EvExit && isCall2(ev, "Keeper).IncreaseNextL2Sequence") }) {
				if r := p.Events[i].Res; r.Op == "tuple" {
					seq = r.Args[0]
				}
			}
			v := wd[0]
			want := map[string]string{"from": "req.To", "to": "req.From", "denom": "req.Amount.Denom", "amount": "(sdkmath.Int).String(req.Amount.Amount)"}
			if seq != nil {
				want["l2_sequence"] = "strconv.FormatUint(" + seq.Key() + ", 10)"
			}
			for k, w := range want {
				if g, ok := v.Attrs[k]; !ok || strip(g).Key() != w {
					gk := "<missing>"
					if ok {
						gk = strip(g).Key()
					}
					o.Fail(c.W.Pos(fn.Pos()), "refund withdrawal attribute "+k+" is "+trunc(gk, 100)+", want "+w, c.Dump(p, -1))
				}
			}
			if d.credited {
				if len(reclaim) != 1 || len(burn) != 1 {
					o.Fail(c.W.Pos(fn.Pos()), fmt.Sprintf("credit then hook failure: %d reclaim sends and %d burns (want 1 and 1)", len(reclaim), len(burn)), c.Dump(p, -1))
					continue
				}
				r, b := p.Events[reclaim[0]].Call, p.Events[burn[0]].Call
				if dd := decodedFrom(r.Args[2]); dd == nil || dd.Key() != "req.To" || r.Args[3].Key() != `"opchild"` || !coinsAre(r.Args[4], "req.Amount") {
					o.Fail(c.evPos(&p.Events[reclaim[0]]), "reclaim is "+trunc(r.Key(), 200), c.Dump(p, -1))
				}
				if b.Args[2].Key() != `"opchild"` || !coinsAre(b.Args[3], "req.Amount") {
					o.Fail(c.evPos(&p.Events[burn[0]]), "burn is "+trunc(b.Key(), 200), c.Dump(p, -1))
				}
				if reclaim[0] > burn[0] {
					o.Fail(c.evPos(&p.Events[burn[0]]), "burn precedes the reclaim", c.Dump(p, -1))
				}
			} else if len(reclaim) != 0 || len(burn) != 0 {
				o.Fail(c.W.Pos(fn.Pos()), "reclaim/burn although nothing was credited", c.Dump(p, -1))
			}
		}
		if nRefund == 0 || nCredit == 0 {
			o.Fail(c.W.Pos(fn.Pos()), fmt.Sprintf("refund paths=%d credited paths=%d (floor 1 each)", nRefund, nCredit), nil)
		}
		if o7.Sites == 0 {
			o7.Fail(c.W.Pos(fn.Pos()), "no handleBridgeHook call found", nil)
		}
	})
}

// gasBounded: ctx derives from WithGasMeter(_, NewGasMeter(g)) where g is
// hookMaxGas, or GasRemaining() on a path with !(GasRemaining > hookMaxGas),
// or builtin min of the two.
func gasBounded(p *Path, upto int, ctx *Term) bool {
	ok := false
	ctx.Walk(func(x *Term) bool {
		if ok {
			return false
		}
		if x.Op == "call" && x.Name == "storetypes.NewGasMeter" && len(x.Args) == 1 {
			g := strip(x.Args[0])
			switch {
			case g.Key() == "hookMaxGas":
				ok = true
			case g.Op == "call" && g.Name == "builtin.min":
				ok = true
			case strings.HasSuffix(g.Key(), "GasRemaining((sdk.Context).GasMeter(ctx))"):
				rel, n := p.Relation(upto, keyIs(g.Key()), keyIs("hookMaxGas"))
				ok = n > 0 && rel&rGT == 0
			}
			return false
		}
		return true
	})
	return ok
}

// ---------------------------------------------------------------------------
// C09 — L2 bridged supply conserved; withdrawals burn what they record

func propC09(c *Ctx) {
	c.Clauses = append(c.Clauses,
		"opchild bank mutators occur only at the tabled sites with the tabled module names (mint: safeDepositToken; burn: withdrawal + refund; module->account: safeDepositToken(opchild), SpendFeePool(fee collector); account->module: withdrawal + refund reclaim)",
		"InitiateTokenWithdrawal: send(decoded req.Sender -> opchild, NewCoins(req.Amount)) and burn(opchild, same) both succeed before success; one IncreaseNextL2Sequence whose result is the response sequence and the event's l2_sequence; the base-denom lookup error is returned",
		"DenomPairs is write-once: Set only when Has(same key) is false (FinalizeTokenDeposit) or at genesis; no Remove; GetBaseDenom maps not-found to ErrNonL1Token",
		"NextL2Sequence is written only by the increment helper and the genesis setter; each increment is followed on success by exactly one withdrawal event carrying that value")
	c.NotDecided = append(c.NotDecided, "the supply sum itself (A4: MintCoins/BurnCoins change supply by exactly the stated coins)")
	c.Assumptions = append(c.Assumptions, "A1", "A2", "A3", "A4", "A10")
	// a failed credit leaves no minted coin behind: commit and the success flag are ordered on
	// every flow, a panic in the transfer included (the recovering defer turns it into "failed")
	c.Rule("C09.R7", func() {
		successAfterCommit(c, c.Ob("C09.R7", "safeDepositToken: the cache is committed and success raised only on the straight-line flow after mint and send (no deferred / panic-time commit)"), c.Method(childKeeper, "MsgServer", "safeDepositToken"))
	})
	eff := c.W.BuildEffects()

	c.Rule("C09.R1", func() {
		o := c.Ob("C09.R1", "opchild bank mutator sites equal the table")
		allowed := map[string]int{
			"(opchild/keeper.MsgServer).FinalizeTokenDeposit|MintCoins":                       1,
			"(opchild/keeper.MsgServer).FinalizeTokenDeposit|SendCoinsFromModuleToAccount":    1,
			"(opchild/keeper.MsgServer).SpendFeePool|SendCoinsFromModuleToAccount":            1,
			"(opchild/keeper.MsgServer).InitiateTokenWithdrawal|SendCoinsFromAccountToModule": 1,
			"(opchild/keeper.MsgServer).InitiateTokenWithdrawal|BurnCoins":                    1,
			"(opchild/keeper.MsgServer).FinalizeTokenDeposit|SendCoinsFromAccountToModule":    1,
			"(opchild/keeper.MsgServer).FinalizeTokenDeposit|BurnCoins":                       1,
			"(opchild/keeper.MsgServer).FinalizeTokenDeposit|SetDenomMetaData":                1,
		}
		seen := map[string]int{}
		for _, s := range eff.Where(func(s *Site) bool {
			return s.Kind == SIface && strings.HasPrefix(s.Callee, "(opchild/types.BankKeeper).") && !ifaceReads[s.Method]
		}) {
			o.Sites++
			for _, r := range eff.OwnerNames(s) {
				k := r + "|" + s.Method
				seen[k]++
				o.Note(k + " @" + c.W.Pos(s.Pos) + attributedNote(s, r))
				if seen[k] > allowed[k] {
					o.Fail(c.W.Pos(s.Pos), "bank mutator "+s.Method+" in "+r+attributedNote(s, r)+" is not in the site table", nil)
				}
			}
		}
		for a, n := range allowed {
			if seen[a] < n {
				o.Fail("-", "expected site "+a+" not found (floor)", nil)
			}
		}
		o2 := c.Ob("C09.R1", "no other interface in x/opchild exposes mint/burn/send")
		for _, s := range eff.Where(func(s *Site) bool {
			return s.Kind == SIface && strings.Contains(fnShort(s.Root()), "opchild/") &&
				(strings.HasPrefix(s.Method, "SendCoins") || s.Method == "MintCoins" || s.Method == "BurnCoins" || strings.HasPrefix(s.Method, "DelegateCoins") || strings.HasPrefix(s.Method, "UndelegateCoins") || s.Method == "InputOutputCoins")
		}) {
			o2.Sites++
			if !strings.HasPrefix(s.Callee, "(opchild/types.BankKeeper).") {
				o2.Fail(c.W.Pos(s.Pos), "coin-moving call through "+s.Callee, nil)
			}
		}
		// SpendFeePool pays from the fee collector only
		sp := childHandler(c, "SpendFeePool")
		o3 := c.Ob("C09.R1", "SpendFeePool: pays from the fee collector module to the decoded recipient")
		for _, p := range c.Paths(sp, PO{Params: hParams, NoInline: []string{".Validate"}}) {
			o3.Paths++
			for _, i := range p.Find(func(ev *Event) bool {
				return ev.Kind == EvCall && isCall(ev, "BankKeeper).SendCoinsFromModuleToAccount")
			}) {
				o3.Sites++
				a := p.Events[i].Call.Args
				if a[2].Key() != `"fee_collector"` || decodedFrom(a[3]) == nil || decodedFrom(a[3]).Key() != "req.Recipient" || a[4].Key() != "req.Amount" {
					o3.Fail(c.evPos(&p.Events[i]), "spends "+trunc(p.Events[i].Call.Key(), 200), c.Dump(p, i))
				}
			}
		}
		if o3.Sites == 0 {
			o3.Fail(c.W.Pos(sp.Pos()), "no fee-pool send found", nil)
		}
	})

	c.Rule("C09.R2", func() {
		fn := childHandler(c, "InitiateTokenWithdrawal")
		o := c.Ob("C09.R2", "InitiateTokenWithdrawal: send+burn of exactly req.Amount from the signer precede success; one L2 sequence = response = event")
		nOK := 0
		for _, p := range c.Paths(fn, PO{Params: hParams, NoInline: []string{".Validate", "GetBaseDenom"}}) {
			o.Paths++
			o.Facts += p.NFacts()
			send := p.Find(func(ev *Event) bool {
				return ev.Kind == EvCall && isCall(ev, "BankKeeper).SendCoinsFromAccountToModule")
			})
			burn := p.Find(func(ev *Event) bool { return ev.Kind == EvCall && isCall(ev, "BankKeeper).BurnCoins") })
			for _, i := range send {
				o.Sites++
				a := p.Events[i].Call.Args
				if dd := decodedFrom(a[2]); dd == nil || dd.Key() != "req.Sender" || a[3].Key() != `"opchild"` || !coinsAre(a[4], "req.Amount") {
					o.Fail(c.evPos(&p.Events[i]), "debits "+trunc(p.Events[i].Call.Key(), 220), c.Dump(p, i))
				}
			}
			for _, i := range burn {
				o.Sites++
				a := p.Events[i].Call.Args
				if a[2].Key() != `"opchild"` || !coinsAre(a[3], "req.Amount") {
					o.Fail(c.evPos(&p.Events[i]), "burns "+trunc(p.Events[i].Call.Key(), 200), c.Dump(p, i))
				}
				if len(send) != 1 || send[0] > i || !p.factIs(i, "("+p.Events[send[0]].Call.String()+" == nil)", true) {
					o.Fail(c.evPos(&p.Events[i]), "burn without a preceding successful debit of the signer", c.Dump(p, i))
				}
			}
			// base denom lookup failure must fail the message
			for _, i := range p.Find(func(ev *Event) bool { return ev.Kind == EvCall && isCall(ev, "Keeper).GetBaseDenom") }) {
				g := p.Events[i].Call
				if g.Args[len(g.Args)-1].Key() != "req.Amount.Denom" {
					o.Fail(c.evPos(&p.Events[i]), "base denom looked up for "+g.Args[len(g.Args)-1].Key(), c.Dump(p, i))
				}
				if p.OK() && !p.factIs(len(p.Events), "("+g.String()+".1 == nil)", true) {
					o.Fail(c.evPos(&p.Events[i]), "withdrawal succeeds although the token has no L1 base denom", c.Dump(p, -1))
				}
			}
			if !p.OK() || p.Panic {
				continue
			}
			nOK++
			if len(send) != 1 || len(burn) != 1 || !p.factIs(len(p.Events), "("+p.Events[burn[0]].Call.String()+" == nil)", true) {
				o.Fail(c.W.Pos(fn.Pos()), fmt.Sprintf("success with %d debits and %d burns (want one successful each)", len(send), len(burn)), c.Dump(p, -1))
				continue
			}
			var seq *Term
			n := 0
			for _, i := range p.Find(func(ev *Event) bool { return ev.Kind == EvExit && isCall2(ev, "Keeper).IncreaseNextL2Sequence") }) {
				n++
				if r := p.Events[i].Res; r.Op == "tuple" {
					seq = r.Args[0]
				}
			}
			if n != 1 || seq == nil {
				o.Fail(c.W.Pos(fn.Pos()), fmt.Sprintf("success with %d L2 sequence increments", n), c.Dump(p, -1))
				continue
			}
			if got := project(p.RetVal[0], "Sequence", nil); got.String() != seq.String() {
				o.Fail(c.W.Pos(fn.Pos()), "response.Sequence is "+trunc(got.Key(), 100)+", want the allocated "+seq.Key(), c.Dump(p, -1))
			}
			idx, views, und := emitted(p)
			if len(und) > 0 || len(idx) != 1 || views[0].Type != "initiate_token_withdrawal" {
				o.Fail(c.W.Pos(fn.Pos()), fmt.Sprintf("success emits %d decodable events (want exactly one initiate_token_withdrawal)", len(idx)), c.Dump(p, -1))
				continue
			}
			checkEvent(c, o, p, idx[0], views[0], map[string]string{
				"from": "req.Sender", "to": "req.To", "denom": "req.Amount.Denom", "amount": "(sdkmath.Int).String(req.Amount.Amount)",
				"l2_sequence": "strconv.FormatUint(" + seq.Key() + ", 10)",
			})
			if bd, ok := views[0].Attrs["base_denom"]; !ok || !strings.HasSuffix(strip(bd).Key(), "Keeper).GetBaseDenom(ms.Keeper, ctx, req.Amount.Denom).0") {
				o.Fail(c.evPos(&p.Events[idx[0]]), "base_denom attribute is not the looked-up base denom", c.Dump(p, -1))
			}
		}
		if nOK == 0 {
			o.Fail(c.W.Pos(fn.Pos()), "no success path", nil)
		}
	})

	c.Rule("C09.R6", func() { routedEventsForwarded(c, "C09.R6") })

	c.Rule("C09.R5", func() {
		hs := c.Handlers("opchild")
		for _, hn := range sortedKeys(hs) {
			po := PO{Params: hParams, Visits: 2}
			if hn == "FinalizeTokenDeposit" {
				po.NoInline = []string{"handleBridgeHook", "safeDepositToken"} // (bool,string) helpers with their own rules (C07)
			}
			errorDiscipline(c, "C09.R5", "opchild."+hn, hs[hn], po)
		}
	})

	c.Rule("C09.R3", func() {
		c.writersTable("C09.R3", "opchild/keeper.Keeper", "DenomPairs", setOf("Set", "Remove", "Clear"),
			[]string{"(opchild/keeper.MsgServer).FinalizeTokenDeposit", "(opchild.AppModule).InitGenesis"})
		c.noCollSites("C09.R3", "opchild/keeper.Keeper", "DenomPairs", setOf("Remove", "Clear"))
		fn := childHandler(c, "FinalizeTokenDeposit")
		o := c.Ob("C09.R3", "FinalizeTokenDeposit: DenomPairs.Set(req.Amount.Denom, req.BaseDenom) only when Has(same key) is false")
		for _, p := range c.Paths(fn, ftdPO) {
			o.Paths++
			o.Facts += p.NFacts()
			for _, i := range collEvents(p, len(p.Events), "DenomPairs", "Set") {
				o.Sites++
				ev := &p.Events[i]
				if ev.Call.Args[2].Key() != "req.Amount.Denom" || ev.Call.Args[3].Key() != "req.BaseDenom" {
					o.Fail(c.evPos(ev), "maps "+ev.Call.Args[2].Key()+" -> "+ev.Call.Args[3].Key(), c.Dump(p, i))
				}
				has := collEvents(p, i, "DenomPairs", "Has")
				if len(has) == 0 || p.Events[has[len(has)-1]].Call.Args[2].String() != ev.Call.Args[2].String() ||
					!p.factIs(i, p.Events[has[len(has)-1]].Call.String()+".0", false) || !p.factIs(i, "("+p.Events[has[len(has)-1]].Call.String()+".1 == nil)", true) {
					o.Fail(c.evPos(ev), "denom mapping can be overwritten (write not restricted to Has(same key) == false)", c.Dump(p, i))
				}
			}
		}
		if o.Sites == 0 {
			o.Fail(c.W.Pos(fn.Pos()), "no DenomPairs.Set reached", nil)
		}
		g := c.Method(childKeeper, "Keeper", "GetBaseDenom")
		o2 := c.Ob("C09.R3", "GetBaseDenom: returns the stored mapping; not-found becomes ErrNonL1Token")
		for _, p := range c.Paths(g, PO{Params: []string{"k", "ctx", "denom"}}) {
			o2.Paths++
			o2.Facts += p.NFacts()
			gets := collEvents(p, len(p.Events), "DenomPairs", "Get")
			if len(gets) != 1 || p.Events[gets[0]].Call.Args[2].Key() != "denom" {
				o2.Fail(c.W.Pos(g.Pos()), "does not read DenomPairs[denom] exactly once", c.Dump(p, -1))
				continue
			}
			o2.Sites++
			gc := p.Events[gets[0]].Call
			if p.OK() {
				if p.Ret[0].String() != gc.String()+".0" || !p.factIs(len(p.Events), "("+gc.String()+".1 == nil)", true) {
					o2.Fail(c.W.Pos(g.Pos()), "success returns "+trunc(p.Ret[0].Key(), 100), c.Dump(p, -1))
				}
			} else if p.HasFact(len(p.Events), func(a *Term, pol bool) bool {
				return pol && a.Op == "call" && a.Name == "errors.Is" && a.Args[1].Key() == "collections.ErrNotFound"
			}) && errOrigin(p.Ret[1]) != "sentinel:opchild/types.ErrNonL1Token" {
				o2.Fail(c.W.Pos(g.Pos()), "not-found is reported as "+errOrigin(p.Ret[1]), c.Dump(p, -1))
			}
		}
	})

	c.Rule("C09.R4", func() {
		c.writersTable("C09.R4", "opchild/keeper.Keeper", "NextL2Sequence", setOf("Set", "Next", "Remove", "Clear"),
			[]string{"(opchild/keeper.MsgServer).FinalizeTokenDeposit", "(opchild/keeper.MsgServer).InitiateTokenWithdrawal", "(opchild.AppModule).InitGenesis"})
		o := c.Ob("C09.R4", "callers of IncreaseNextL2Sequence = {InitiateTokenWithdrawal, FinalizeTokenDeposit}")
		al := setOf("(opchild/keeper.MsgServer).InitiateTokenWithdrawal", "(opchild/keeper.MsgServer).FinalizeTokenDeposit")
		seen := map[string]bool{}
		for _, f := range eff.Callers(c.Method(childKeeper, "Keeper", "IncreaseNextL2Sequence")) {
			o.Sites++
			seen[fnShort(f)] = true
			if !al[fnShort(f)] {
				o.Fail(c.W.Pos(f.Pos()), "IncreaseNextL2Sequence called from "+fnShort(f), nil)
			}
		}
		for a := range al {
			if !seen[a] {
				o.Fail("-", "expected caller "+a+" missing", nil)
			}
		}
		// after each increment every success path emits exactly one withdrawal event with that value
		for _, hn := range []string{"InitiateTokenWithdrawal", "FinalizeTokenDeposit"} {
			fn := childHandler(c, hn)
			o2 := c.Ob("C09.R4", hn+": each allocated L2 sequence is announced by exactly one withdrawal event on success (no gaps, no reuse)")
			po := PO{Params: hParams, NoInline: []string{".Validate", "checkBridgeExecutorPermission", "handleBridgeHook", "safeDepositToken", "setDenomMetadata", "GetBaseDenom"}}
			for _, p := range c.Paths(fn, po) {
				o2.Paths++
				o2.Facts += p.NFacts()
				if !p.OK() || p.Panic {
					continue
				}
				var seqs []*Term
				for _, i := range p.Find(func(ev *Event) bool { return ev.Kind == EvExit && isCall2(ev, "Keeper).IncreaseNextL2Sequence") }) {
					if r := p.Events[i].Res; r.Op == "tuple" {
						seqs = append(seqs, r.Args[0])
					}
				}
				_, views, _ := emitted(p)
				n := 0
				for _, v := range views {
					if v.Type != "initiate_token_withdrawal" {
						continue
					}
					n++
					if len(seqs) != 1 || strip(v.Attrs["l2_sequence"]).Key() != "strconv.FormatUint("+seqs[0].Key()+", 10)" {
						o2.Fail(c.W.Pos(fn.Pos()), "withdrawal event does not carry the allocated sequence", c.Dump(p, -1))
					}
					if bd, ok := v.Attrs["base_denom"]; !ok || strip(bd).Key() != "(opchild/keeper.Keeper).GetBaseDenom(ms.Keeper, ctx, req.Amount.Denom).0" {
						got := "<missing>"
						if ok {
							got = strip(bd).Key()
						}
						o2.Fail(c.W.Pos(fn.Pos()), "withdrawal announced with base_denom "+trunc(got, 100)+", want the stored mapping DenomPairs[req.Amount.Denom] (the mapping, once set, decides which L1 token is redeemed)", c.Dump(p, -1))
					}
				}
				o2.Sites += n
				if n != len(seqs) {
					o2.Fail(c.W.Pos(fn.Pos()), fmt.Sprintf("%d L2 sequences allocated but %d withdrawal events emitted", len(seqs), n), c.Dump(p, -1))
				}
			}
		}
		inc := c.Method(childKeeper, "Keeper", "IncreaseNextL2Sequence")
		def := c.constVal(childTypes, "DefaultL2SequenceStart")
		o3 := c.Ob("C09.R4", "IncreaseNextL2Sequence: returns the pre-increment value; first use returns the default and stores default+1")
		for _, p := range c.Paths(inc, PO{Params: []string{"k", "ctx"}}) {
			o3.Paths++
			o3.Facts += p.NFacts()
			if !p.OK() || p.Panic {
				continue
			}
			o3.Sites++
			nx := collEvents(p, len(p.Events), "NextL2Sequence", "Next")
			sets := collEvents(p, len(p.Events), "NextL2Sequence", "Set")
			if len(nx) != 1 {
				o3.Fail(c.W.Pos(inc.Pos()), "success without exactly one Sequence.Next", c.Dump(p, -1))
				continue
			}
			nv := p.Events[nx[0]].Call.String() + ".0"
			isDef := p.HasFact(len(p.Events), func(a *Term, pol bool) bool { return pol && eqAtomS(a, nv, "0") })
			r := p.Ret[0]
			if isDef {
				if r.Key() != def || len(sets) != 1 || p.Events[sets[0]].Call.Args[2].Key() != binopPlus1(r) {
					o3.Fail(c.W.Pos(inc.Pos()), "first use must return "+def+" and store "+def+"+1", c.Dump(p, -1))
				}
			} else if r.String() != nv || len(sets) != 0 {
				o3.Fail(c.W.Pos(inc.Pos()), "must return the value Sequence.Next produced", c.Dump(p, -1))
			}
		}
	})
}

// hookEffectsContained: inside handleBridgeHook and safeDepositToken no effect
// may escape the cache context before commit: an effect (event emission, store
// or keeper write) that happens before commit() must be performed on the
// context returned by CacheContext(); effects on the outer context are only
// allowed after commit (or are the tabled gas charge in the deferred closure).
func hookEffectsContained(c *Ctx, rule string) {
	type tgt struct {
		typ, name string
		params    []string
		roles     map[string]string
	}
	for _, t := range []tgt{{"Keeper", "handleBridgeHook", []string{"k"}, hookRoles}, {"MsgServer", "safeDepositToken", []string{"ms"}, depRoles}} {
		fn := c.Method(childKeeper, t.typ, t.name)
		o := c.Ob(rule, t.name+": nothing escapes the cache context before commit (events, store and keeper writes)")
		for _, p := range c.Paths(fn, PO{Params: t.params, Roles: t.roles, Visits: 3}) {
			o.Paths++
			o.Facts += p.NFacts()
			var cache *Term
			committed := false
			zero := p.HasFact(len(p.Events), func(a *Term, pol bool) bool { return pol && a.Key() == "(sdk.Coins).IsZero(coins)" })
			for i := range p.Events {
				ev := &p.Events[i]
				if ev.Kind != EvCall {
					continue
				}
				if strings.HasSuffix(ev.Call.Name, "(sdk.Context).CacheContext") {
					cache = ev.Call
					continue
				}
				if ev.Call.Name == "dynamic" && cache != nil && strip(ev.Fun).String() == cache.String()+".1" {
					committed = true
					continue
				}
				k := effectKind(ev)
				if k == "" || k == "gas" || strings.HasPrefix(k, "dyn:") {
					continue // dynamic calls (decoder, ante, handlers) are classified by C07.R2
				}
				o.Sites++
				if committed || (t.name == "safeDepositToken" && zero) {
					continue
				}
				// which context does the effect act on?
				onCache := false
				if cache != nil {
					// the context operand: the event manager's context for events, else the ctx argument
					var operand *Term
					if k == "event" {
						operand = ev.Call.Args[0]
					} else if len(ev.Call.Args) > 1 {
						operand = ev.Call.Args[1]
					}
					if operand != nil {
						operand.Walk(func(x *Term) bool {
							if x.String() == cache.String()+".0" {
								onCache = true
							}
							return !onCache
						})
					}
				}
				if !onCache {
					o.Fail(c.evPos(ev), "effect "+k+" happens on the outer context before the cache is committed: it survives a later failure/rollback of the hook or deposit", c.Dump(p, i))
				}
			}
		}
		if o.Paths == 0 {
			o.Fail(c.W.Pos(fn.Pos()), "no path", nil)
		}
	}
}

// routedEventsForwarded: the message router runs every handler on a private
// event manager and hands the events back in the *sdk.Result.  The two places
// that execute routed messages (ExecuteMessages, handleBridgeHook) must pass
// those events on whenever the messages' state changes are committed —
// otherwise a withdrawal executed there burns coins and consumes an L2
// sequence without the initiate_token_withdrawal event that is its only
// transport to L1.  Emission must be tied to the commit: on the cache
// context's manager before the commit, or on the outer manager after it.
func routedEventsForwarded(c *Ctx, rule string, only ...string) {
	type tgt struct {
		typ, name string
		po        PO
	}
	for _, t := range []tgt{
		{"MsgServer", "ExecuteMessages", PO{Params: hParams, Visits: 3, NoInline: []string{".Validate", "checkAdminPermission"}}},
		{"Keeper", "handleBridgeHook", PO{Params: []string{"k"}, Roles: hookRoles, Visits: 3}},
	} {
		if len(only) > 0 && !setOf(only...)[t.name] {
			continue
		}
		fn := c.Method(childKeeper, t.typ, t.name)
		o := c.Ob(rule, t.name+": the events of every routed message are emitted iff its state changes are committed (recorded withdrawals are always announced)")
		nCommitted := 0
		for _, p := range c.Paths(fn, t.po) {
			o.Paths++
			o.Facts += p.NFacts()
			if p.Panic {
				continue
			}
			var cache *Term
			commitIdx := -1
			var handlers []int
			for i := range p.Events {
				ev := &p.Events[i]
				if ev.Kind != EvCall {
					continue
				}
				if strings.HasSuffix(ev.Call.Name, "(sdk.Context).CacheContext") {
					cache = ev.Call
				} else if ev.Call.Name == "dynamic" && cache != nil && strip(ev.Fun).String() == cache.String()+".1" {
					commitIdx = i
				} else if ev.Call.Name == "dynamic" && ev.Fun != nil && strings.Contains(ev.Fun.Key(), "MsgServiceRouter).Handler(") {
					handlers = append(handlers, i)
				}
			}
			if commitIdx < 0 || len(handlers) == 0 {
				continue
			}
			nCommitted++
			for _, hi := range handlers {
				h := p.Events[hi].Call
				o.Sites++
				forwarded := false
				for j := hi + 1; j < len(p.Events); j++ {
					e2 := &p.Events[j]
					if e2.Kind != EvCall || effectKind(e2) != "event" || len(e2.Call.Args) < 2 {
						continue
					}
					carries := false
					e2.Call.Args[1].Walk(func(x *Term) bool {
						if x.Op == "call" && strings.HasSuffix(x.Name, "Result).GetEvents") && len(x.Args) == 1 && x.Args[0].String() == h.String()+".0" {
							carries = true
						}
						return !carries
					})
					if !carries {
						continue
					}
					onCache := false
					e2.Call.Args[0].Walk(func(x *Term) bool {
						if x.String() == cache.String()+".0" {
							onCache = true
						}
						return !onCache
					})
					if (onCache && j < commitIdx) || (!onCache && j > commitIdx) {
						forwarded = true
					} else {
						o.Fail(c.evPos(e2), "events of a routed message are emitted detached from the commit (outer manager before the commit, or cache manager after it)", c.Dump(p, j))
						forwarded = true
					}
				}
				if !forwarded {
					o.Fail(c.evPos(&p.Events[hi]), "the routed message's state changes are committed but the events in its result are dropped: a withdrawal executed here is recorded (coins burned, L2 sequence consumed) yet never announced, so it cannot be claimed on L1", c.Dump(p, hi))
				}
			}
		}
		if nCommitted == 0 {
			o.Fail(c.W.Pos(fn.Pos()), "no committing path with a routed handler call found (floor 1)", nil)
		}
	}
}

// callRoles binds the arguments of a call of a private helper to roles by the types of the
// callee's parameters: the order of the parameters, and whether they travel separately or in
// a parameter object, is not part of any property.
func callRoles(ev *Event, roles map[string]string) map[string]*Term {
	out := map[string]*Term{}
	ci, ok := ev.Instr.(ssa.CallInstruction)
	if !ok || ci == nil || ev.Call == nil {
		return out
	}
	callee := ci.Common().StaticCallee()
	if callee == nil {
		return out
	}
	sig := callee.Signature
	off := 0
	if sig.Recv() != nil {
		off = 1
	}
	// the call term's arguments are in the pinned parameter order when the callee's
	// parameters were reordered (canon.go)
	var perm []int
	if ci := canonOf(callee); ci != nil && len(ci.perm) == sig.Params().Len() {
		perm = ci.perm
	}
	for i := 0; i < sig.Params().Len() && i+off < len(ev.Call.Args); i++ {
		pi := i
		if perm != nil {
			pi = perm[i]
		}
		pt := sig.Params().At(pi).Type()
		a := ev.Call.Args[i+off]
		if r, ok := roles[typeName(pt)]; ok {
			out[r] = a
			continue
		}
		if st, ok := localStruct(pt); ok {
			for k := 0; k < st.NumFields(); k++ {
				if r, ok := roles[typeName(st.Field(k).Type())]; ok {
					out[r] = project(strip(a), st.Field(k).Name(), st.Field(k).Type())
				}
			}
		}
	}
	return out
}

// successAfterCommit: structural ordering on the SSA form.  Every write of a value other than
// constant false into a boolean result cell (a named result, or a boolean component of a result
// object) that happens after the cache context was branched must be dominated by the call of
// the commit function that CacheContext returned: the recovering defer turns a panic inside
// commit() into a normal return, which must then still say "failed".
func successAfterCommit(c *Ctx, o *Obl, fn *ssa.Function) {
	type at struct {
		b *ssa.BasicBlock
		i int
	}
	pos := map[ssa.Instruction]at{}
	for _, b := range fn.Blocks {
		for i, in := range b.Instrs {
			pos[in] = at{b, i}
		}
	}
	before := func(a, b ssa.Instruction) bool { // a dominates b
		pa, pb := pos[a], pos[b]
		if pa.b == pb.b {
			return pa.i < pb.i
		}
		return pa.b.Dominates(pb.b)
	}
	var caches, commits []ssa.Instruction
	isCommitVal := func(v ssa.Value) bool { return false }
	isCommitVal = func(v ssa.Value) bool {
		switch x := v.(type) {
		case *ssa.Extract:
			if call, ok := x.Tuple.(*ssa.Call); ok && x.Index == 1 {
				if cal := call.Common().StaticCallee(); cal != nil && strings.HasSuffix(funcName(cal), "(sdk.Context).CacheContext") {
					return true
				}
			}
		case *ssa.UnOp:
			if al, ok := x.X.(*ssa.Alloc); ok && x.Op == token.MUL {
				n, all := 0, true
				for _, r := range *al.Referrers() {
					if st, ok := r.(*ssa.Store); ok && st.Addr == al {
						n++
						if !isCommitVal(st.Val) {
							all = false
						}
					}
				}
				return n > 0 && all
			}
		}
		return false
	}
	resultCell := map[ssa.Value]bool{}
	var returns []*ssa.Return
	for _, b := range fn.Blocks {
		for _, in := range b.Instrs {
			switch x := in.(type) {
			case *ssa.Call:
				if cal := x.Common().StaticCallee(); cal != nil && strings.HasSuffix(funcName(cal), "(sdk.Context).CacheContext") {
					caches = append(caches, x)
				}
				if !x.Common().IsInvoke() && isCommitVal(x.Common().Value) {
					commits = append(commits, x)
				}
			case *ssa.Return:
				returns = append(returns, x)
				for _, r := range x.Results {
					if u, ok := r.(*ssa.UnOp); ok && u.Op == token.MUL {
						if al, ok := u.X.(*ssa.Alloc); ok {
							resultCell[al] = true
						}
					}
				}
			}
		}
	}
	isBool := func(t types.Type) bool {
		b, ok := t.Underlying().(*types.Basic)
		return ok && b.Kind() == types.Bool
	}
	notFalse := func(v ssa.Value) bool {
		if k, ok := v.(*ssa.Const); ok && k.Value != nil && isBool(k.Type()) {
			return constant.BoolVal(k.Value)
		}
		return true
	}
	check := func(in ssa.Instruction, what string) {
		cached := false
		for _, cc := range caches {
			if before(cc, in) {
				cached = true
			}
		}
		if !cached {
			return // before the cache context exists (e.g. the zero-amount branch)
		}
		o.Sites++
		for _, cm := range commits {
			if before(cm, in) {
				return
			}
		}
		o.Fail(c.W.Pos(in.Pos()), what+" is not dominated by the commit call: if commit() panics, the recovered return would still report success", nil)
	}
	for _, b := range fn.Blocks {
		for _, in := range b.Instrs {
			st, ok := in.(*ssa.Store)
			if !ok || !isBool(st.Val.Type()) || !notFalse(st.Val) {
				continue
			}
			root := st.Addr
			if fa, ok := root.(*ssa.FieldAddr); ok {
				root = fa.X
			}
			if resultCell[root] {
				check(st, "raising the success flag")
			}
		}
	}
	for _, r := range returns {
		for _, v := range r.Results {
			if _, isLoad := v.(*ssa.UnOp); isLoad || !isBool(v.Type()) || !notFalse(v) {
				continue
			}
			check(r, "returning success")
		}
	}
	// closures must not raise the flag at all (no ordering information there)
	for _, an := range fn.AnonFuncs {
		for _, b := range an.Blocks {
			for _, in := range b.Instrs {
				st, ok := in.(*ssa.Store)
				if !ok || !isBool(st.Val.Type()) || !notFalse(st.Val) {
					continue
				}
				root := st.Addr
				if fa, ok := root.(*ssa.FieldAddr); ok {
					root = fa.X
				}
				if fv, ok := root.(*ssa.FreeVar); ok {
					for k, f := range an.FreeVars {
						if f == fv {
							if mc, ok := closureBinding(fn, an, k); ok && resultCell[mc] {
								o.Sites++
								o.Fail(c.W.Pos(st.Pos()), "a closure raises the success flag (not ordered with commit)", nil)
							}
						}
					}
				}
			}
		}
	}
	if len(caches) == 0 || len(commits) == 0 {
		o.Fail(c.W.Pos(fn.Pos()), fmt.Sprintf("cache context calls=%d, commit calls=%d (floor 1 each)", len(caches), len(commits)), nil)
	}
	if o.Sites == 0 {
		o.Fail(c.W.Pos(fn.Pos()), "no write of the success flag found inside the cached region (floor 1)", nil)
	}
}

// closureBinding: the value bound to free variable k of anonymous function an where parent creates it.
func closureBinding(parent, an *ssa.Function, k int) (ssa.Value, bool) {
	for _, b := range parent.Blocks {
		for _, in := range b.Instrs {
			if mc, ok := in.(*ssa.MakeClosure); ok && mc.Fn == an && k < len(mc.Bindings) {
				return mc.Bindings[k], true
			}
		}
	}
	return nil, false
}
