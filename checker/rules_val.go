package main

import (
	"fmt"
	"strings"

	"golang.org/x/tools/go/ssa"
)

// ---------------------------------------------------------------------------
// C13 — L2 validator set in state equals what consensus was told

var applyPO = PO{Params: []string{"k", "ctx"}, Visits: 3, OpaqueSorters: true,
	NoInline: []string{"getLastValidatorsByAddr", "GetAllValidators", "sortNoLongerBonded", "mustGetValidator", "Keeper).RemoveValidator", "SetLastValidatorPower", "DeleteLastValidatorPower", "ABCIValidatorUpdate"},
	Pure:     []string{"ABCIValidatorUpdate"}}

// opAddrKey: the decoded operator address of a validator value term.
func opAddrKey(v *Term) string {
	return "(address.Codec).StringToBytes(k.validatorAddressCodec, " + v.Key() + ".OperatorAddress).0"
}

func callersTable(c *Ctx, rule string, target *ssa.Function, allowed []string) {
	eff := c.W.BuildEffects()
	o := c.Ob(rule, fmt.Sprintf("callers of %s = %v", fnShort(target), allowed))
	al := setOf(allowed...)
	seen := map[string]bool{}
	for _, f := range eff.Callers(target) {
		o.Sites++
		seen[fnShort(f)] = true
		if !al[fnShort(f)] {
			o.Fail(c.W.Pos(f.Pos()), fnShort(target)+" called from "+fnShort(f)+" (not in the table)", nil)
		}
	}
	for a := range al {
		if !seen[a] {
			o.Fail("-", "expected caller "+a+" not found (floor)", nil)
		}
	}
}

// purgeObligation: in ApplyAndReturnValidatorSetUpdates every visited record with
// power <= 0 is removed in this call: immediately, or through the removal pass
// over the last-power set it belongs to.  (C13.R5; C14.R6 relies on the same
// obligation for the records ChangeExecutor zeroes.)
func purgeObligation(c *Ctx, rule, key string) {
	fn := c.Method(childKeeper, "Keeper", "ApplyAndReturnValidatorSetUpdates")
	o5 := c.Ob(rule, key)
	allV := "(opchild/keeper.Keeper).GetAllValidators(k, ctx).0"
	for _, p := range c.Paths(fn, applyPO) {
		lastM := lastMapOn(p)
		o5.Paths++
		o5.Facts += p.NFacts()
		// R5: per visited record with power <= 0
		for i := range p.Events {
			ev := &p.Events[i]
			if ev.Kind != EvFact {
				continue
			}
			rf, ok := factRel(ev.Cond, ev.Pol)
			if !ok {
				continue
			}
			var v *Term
			var rel uint8
			if strings.HasSuffix(rf.Y.Key(), ".ConsPower") && rf.X.Key() == "0" && strings.HasPrefix(rf.Y.Key(), allV+"[") {
				v, rel = rf.Y.Args[0], flipRel(rf.Rel)
			} else if strings.HasSuffix(rf.X.Key(), ".ConsPower") && rf.Y.Key() == "0" && strings.HasPrefix(rf.X.Key(), allV+"[") {
				v, rel = rf.X.Args[0], rf.Rel
			}
			if v == nil || rel&rGT != 0 {
				continue
			}
			// power <= 0 for record v
			o5.Sites++
			if p.Panic {
				continue
			}
			inLast := p.HasFact(len(p.Events), func(a *Term, pol bool) bool {
				return pol && a.Op == "extract" && a.Name == "1" && a.Args[0].Op == "lookup" && a.Args[0].Args[0].Key() == lastM && a.Args[0].Args[1].Key() == v.Key()+".OperatorAddress"
			})
			removed := len(p.Find(func(e2 *Event) bool {
				return e2.Kind == EvCall && strings.HasSuffix(e2.Call.Name, "Keeper).RemoveValidator") && e2.Call.Args[2].Key() == opAddrKey(v)
			})) > 0
			if p.OK() && !inLast && !removed {
				o5.Fail(c.evPos(ev), "a stored validator with power <= 0 that was never bonded (not in the last-power set) is skipped and never purged: its operator address and consensus key stay occupied", c.Dump(p, -1))
			}
		}
	}
	if o5.Sites == 0 {
		o5.Fail(c.W.Pos(fn.Pos()), "no record with power <= 0 visited on any path (floor 1)", nil)
	}
}

// fromSortedLast: src is an element of the result of a module function that received the
// last-validator map and sorts (calls sort.*) - whatever that helper is called or
// whichever receiver / parameters it has.
func fromSortedLast(c *Ctx, src *Term, lastM string) bool {
	ok := false

	src.Walk(func(x *Term) bool {
		// sorted in place: a buffer filled from the keys of the last-validator map and then
		// handed to an in-place sort of the standard library
		if !ok && x.Op == "opaque" && x.Name == "sorted" && len(x.Args) == 2 {
			// every element written before the sort derives from a key of the map, and the buffer
			// is sized by the map
			buf := x.Args[0]
			fill := true
			for buf.Op == "updidx" {
				if !strings.Contains(buf.Args[2].Key(), "range:("+lastM+")") {
					fill = false
				}
				buf = buf.Args[0]
			}
			for buf.Op == "deref" {
				buf = buf.Args[0]
			}
			if fill && buf.Op == "make" && len(buf.Args) > 0 && buf.Args[0].Key() == "builtin.len("+lastM+")" {
				ok = true
			}
			// ... or a list grown from empty by appending one element per key of the map
			if l, isList := listOf(x.Args[0]); isList && !ok {
				all := true
				for _, el := range l {
					if !strings.Contains(el.Key(), "range:("+lastM+")") {
						all = false
					}
				}
				ok = all
			}
		}
		if ok || x.Op != "call" || !strings.Contains(x.Name, "opchild/") {
			return !ok
		}
		takesLast := false
		for _, a := range x.Args {
			if a.Key() == lastM {
				takesLast = true
			}
		}
		if !takesLast {
			return true
		}
		for _, f := range c.W.Funcs {
			if funcName(f) == x.Name || fnShort(f) == x.Name {
				for _, st := range c.W.BuildEffects().ReachSites(f, func(s *Site) bool { return s.Kind == SStatic && (strings.HasPrefix(s.Callee, "sort.") || strings.HasPrefix(s.Callee, "slices.Sort")) }) {
					_ = st
					ok = true
				}
			}
		}
		return !ok
	})
	return ok
}

// lastMapOn: the Go map holding the previous block's bonded powers on this path: the map the
// first loop probes with a stored validator's operator address - whether it came from a helper
// (getLastValidatorsByAddr) or was built inline from a walk.
func lastMapOn(p *Path) string {
	found := ""
	scan := func(t *Term) {
		t.Walk(func(x *Term) bool {
			if found == "" && x.Op == "lookup" && len(x.Args) == 2 && strings.HasSuffix(x.Args[1].Key(), ".OperatorAddress") {
				found = x.Args[0].Key()
			}
			return found == ""
		})
	}
	for i := range p.Events {
		ev := &p.Events[i]
		if ev.Kind == EvFact && ev.Cond != nil {
			scan(ev.Cond)
		}
		if ev.Call != nil {
			scan(ev.Call)
		}
		if found != "" {
			return found
		}
	}
	// no stored validator was probed on this path: the map the walk over the last powers fills
	for i := range p.Events {
		if ev := &p.Events[i]; ev.Kind == EvMapUpdate && ev.Place != nil {
			return ev.Place.Key()
		}
	}
	// ... or, with an empty last-power set, the one map-typed local handed to a module call
	for i := range p.Events {
		ev := &p.Events[i]
		if ev.Call == nil || !strings.Contains(ev.Call.Name, "opchild/") {
			continue
		}
		for _, a := range ev.Call.Args {
			if a.Op == "make" && a.Name == "map" {
				return a.Key()
			}
		}
	}
	// ... or the map-typed local that the removal loop ranges over
	for i := range p.Events {
		ev := &p.Events[i]
		for _, t := range []*Term{ev.Cond, ev.Call, ev.Val} {
			if t == nil {
				continue
			}
			t.Walk(func(x *Term) bool {
				if found == "" && x.Op == "range" && len(x.Args) == 1 && x.Args[0].Op == "make" && x.Args[0].Name == "map" {
					found = x.Args[0].Key()
				}
				return found == ""
			})
			if found != "" {
				return found
			}
		}
	}
	return "(opchild/keeper.Keeper).getLastValidatorsByAddr(k, ctx).0"
}

func propC13(c *Ctx) {
	c.Clauses = append(c.Clauses,
		"AddValidator inserts only a consensus key whose type the consensus params allow (unrestricted, or equal to a listed type)",
		"writers of Validators / ValidatorsByConsAddr / LastValidatorPowers are exactly the tabled helpers",
		"index pairing: every insertion of a validator record is followed on success by the consensus-key index entry for the same record; Validators.Remove is paired with removal of that record's consensus-key index entry",
		"AddValidator inserts only when the operator is absent, the consensus key is absent and len(all) < MaxValidators",
		"told <=> recorded: every positive-power update appended is paired with SetLastValidatorPower(addr, power) and comes from a record with ConsensusPower > 0; every removal update is paired with RemoveValidator + DeleteLastValidatorPower of the same address and a record with ConsPower <= 0; bonded validators are deleted from the 'last' map so that they are not reported as removed; removals are emitted from the sorted slice",
		"zero-power records are purged: a record with power <= 0 is either in the last-power set (removed below) or removed immediately",
		"Params.Set only with MaxValidators >= len(all) (or without touching MaxValidators)",
		"historical record: written once per block at the current height from the bonded set, never with retention 0; pruning removes the contiguous run of heights from height-entries downwards and stops only at the first gap",
		"no negative power: Validator.ConsPower is written only with the constants 1 (creation) and 0 (removal, executor change); ABCI updates report exactly that field")
	c.NotDecided = append(c.NotDecided, "equality of the accumulated update history with the state (a history statement; the per-block pairing above is its inductive step)", "what CometBFT accepts (duplicate keys across one batch are decided only for the fresh-insertion sites, see C14 known findings)")
	c.Assumptions = append(c.Assumptions, "A1", "A2", "A3", "A10")
	K := "opchild/keeper.Keeper"

	defer c13Historical(c)
	c.Rule("C13.R1", func() {
		c.writersTable("C13.R1", K, "Validators", setOf("Set"), []string{"(opchild/keeper.MsgServer).AddValidator", "(opchild/keeper.MsgServer).RemoveValidator", "(opchild.AppModule).EndBlock", "(opchild.AppModule).InitGenesis"})
		c.writersTable("C13.R1", K, "Validators", setOf("Remove", "Clear"), []string{"(opchild.AppModule).EndBlock", "(opchild.AppModule).InitGenesis"})
		c.writersTable("C13.R1", K, "ValidatorsByConsAddr", setOf("Set"), []string{"(opchild/keeper.MsgServer).AddValidator", "(opchild.AppModule).EndBlock", "(opchild.AppModule).InitGenesis"})
		c.writersTable("C13.R1", K, "ValidatorsByConsAddr", setOf("Remove", "Clear"), []string{"(opchild.AppModule).EndBlock", "(opchild.AppModule).InitGenesis"})
		c.writersTable("C13.R1", K, "LastValidatorPowers", setOf("Set"), []string{"(opchild.AppModule).EndBlock", "(opchild.AppModule).InitGenesis"})
		c.writersTable("C13.R1", K, "LastValidatorPowers", setOf("Remove", "Clear"), []string{"(opchild.AppModule).EndBlock", "(opchild.AppModule).InitGenesis"})
		// who reaches the low-level helpers is the same question at entry level (helpers are transparent)
		callersTable(c, "C13.R1", c.Method(childKeeper, "Keeper", "RemoveValidator"), []string{"(opchild.AppModule).EndBlock", "(opchild.AppModule).InitGenesis"})
	})

	c.Rule("C13.R2", func() {
		// setters use the record's own operator / consensus address as key
		sv := c.Method(childKeeper, "Keeper", "SetValidator")
		o := c.Ob("C13.R2", "SetValidator / SetValidatorByConsAddr key the record by its own operator / consensus address")
		for _, p := range c.Paths(sv, PO{Params: []string{"k", "ctx", "v"}, NoInline: []string{"GetConsAddr"}, Pure: []string{"GetConsAddr"}}) {
			o.Paths++
			for _, i := range collEvents(p, len(p.Events), "Validators", "Set") {
				o.Sites++
				a := p.Events[i].Call.Args
				if a[2].Key() != "(address.Codec).StringToBytes(k.validatorAddressCodec, v.OperatorAddress).0" || a[3].Key() != "v" {
					o.Fail(c.evPos(&p.Events[i]), "stores "+a[3].Key()+" under "+trunc(a[2].Key(), 120), nil)
				}
			}
		}
		sc := c.Method(childKeeper, "Keeper", "SetValidatorByConsAddr")
		for _, p := range c.Paths(sc, PO{Params: []string{"k", "ctx", "v"}, NoInline: []string{"GetConsAddr"}, Pure: []string{"GetConsAddr"}}) {
			o.Paths++
			for _, i := range collEvents(p, len(p.Events), "ValidatorsByConsAddr", "Set") {
				o.Sites++
				a := p.Events[i].Call.Args
				if a[2].Key() != "(opchild/types.Validator).GetConsAddr(v).0" || a[3].Key() != "(address.Codec).StringToBytes(k.validatorAddressCodec, v.OperatorAddress).0" {
					o.Fail(c.evPos(&p.Events[i]), "index entry "+trunc(a[2].Key(), 100)+" -> "+trunc(a[3].Key(), 100), nil)
				}
			}
		}
		if o.Sites < 2 {
			o.Fail("-", "setter stores not found (floor 2)", nil)
		}
		indexPaired(c, "C13.R2")
		rv := c.Method(childKeeper, "Keeper", "RemoveValidator")
		o2 := c.Ob("C13.R2", "RemoveValidator: removes the record and the index entry of that record's consensus address")
		for _, p := range c.Paths(rv, PO{Params: []string{"k", "ctx", "address"}, NoInline: []string{"GetConsAddr"}, Pure: []string{"GetConsAddr"}}) {
			o2.Paths++
			o2.Facts += p.NFacts()
			rm := collEvents(p, len(p.Events), "Validators", "Remove")
			ri := collEvents(p, len(p.Events), "ValidatorsByConsAddr", "Remove")
			for _, i := range rm {
				o2.Sites++
				if p.Events[i].Call.Args[2].Key() != "address" {
					o2.Fail(c.evPos(&p.Events[i]), "removes "+p.Events[i].Call.Args[2].Key(), nil)
				}
			}
			for _, i := range ri {
				o2.Sites++
				if k := p.Events[i].Call.Args[2].Key(); k != "(opchild/types.Validator).GetConsAddr((collections.Map[K, V]).Get(k.Validators, ctx, address).0).0" {
					o2.Fail(c.evPos(&p.Events[i]), "removes index entry "+trunc(k, 140), nil)
				}
			}
			if p.OK() && !p.Panic && len(rm) != len(ri) {
				o2.Fail(c.W.Pos(rv.Pos()), "record and index removal are not paired on a success path", c.Dump(p, -1))
			}
		}
		if o2.Sites < 2 {
			o2.Fail(c.W.Pos(rv.Pos()), "removals not found (floor 2)", nil)
		}
	})

	c.Rule("C13.R3", func() {
		fn := childHandler(c, "AddValidator")
		o := c.Ob("C13.R3", "AddValidator: insertion only with operator absent, consensus key absent and len(all) < MaxValidators")
		okt := c.Ob("C13.R12", "AddValidator: insertion only with a consensus key type the engine's consensus params allow")
		po := PO{Params: hParams, Visits: 3, NoInline: []string{".Validate", "Keeper).SetValidator", "SetValidatorByConsAddr", "GetAllValidators", "Keeper).MaxValidators", "Keeper).GetValidator", "GetValidatorByConsAddr", "types.NewValidator"}}
		for _, p := range c.Paths(fn, po) {
			o.Paths++
			o.Facts += p.NFacts()
			for _, i := range p.Find(func(ev *Event) bool {
				return ev.Kind == EvCall && strings.HasSuffix(ev.Call.Name, "Keeper).SetValidator")
			}) {
				o.Sites++
				where := c.evPos(&p.Events[i])
				v := p.Events[i].Call.Args[2]
				// the record: NewValidator(valAddr, pk, moniker).0
				if !(v.Op == "extract" && v.Name == "0" && strings.HasSuffix(v.Args[0].Name, "types.NewValidator")) {
					o.Fail(where, "inserted record is "+trunc(v.Key(), 120), c.Dump(p, i))
					continue
				}
				nv := v.Args[0]
				valAddr, pk := nv.Args[0], nv.Args[1]
				if d := decodedFrom(valAddr); d == nil || d.Key() != "req.ValidatorAddress" {
					o.Fail(where, "record built for operator "+trunc(valAddr.Key(), 100), c.Dump(p, i))
				}
				opAbsent := p.HasFact(i, func(a *Term, pol bool) bool {
					return !pol && a.Op == "extract" && a.Name == "1" && strings.HasSuffix(a.Args[0].Name, "Keeper).GetValidator") && a.Args[0].Args[2].String() == valAddr.String()
				})
				keyAbsent := p.HasFact(i, func(a *Term, pol bool) bool {
					if pol || a.Op != "extract" || a.Name != "1" || !strings.HasSuffix(a.Args[0].Name, "Keeper).GetValidatorByConsAddr") {
						return false
					}
					ca := strip(a.Args[0].Args[2])
					return ca.Op == "call" && ca.Name == "sdk.GetConsAddress" && ca.Args[0].String() == pk.String()
				})
				var all, maxv *Term
				for j := 0; j < i; j++ {
					e2 := &p.Events[j]
					if e2.Kind == EvCall && strings.HasSuffix(e2.Call.Name, "Keeper).GetAllValidators") {
						all = e2.Call
					}
					if e2.Kind == EvCall && strings.HasSuffix(e2.Call.Name, "Keeper).MaxValidators") {
						maxv = e2.Call
					}
				}
				capOK := false
				if all != nil && maxv != nil {
					rel, n := p.Relation(i, func(t *Term) bool { return strip(t).Key() == "builtin.len("+all.Key()+".0)" }, func(t *Term) bool { return strip(t).Key() == maxv.Key()+".0" })
					capOK = n > 0 && rel == rLT
				}
				if !opAbsent || !keyAbsent || !capOK {
					o.Fail(where, fmt.Sprintf("validator inserted without: operator absent [%v], consensus key absent [%v], len(all) < MaxValidators [%v]", opAbsent, keyAbsent, capOK), c.Dump(p, i))
				}
				// the engine accepts only the key types its consensus params list: when they are
				// restricted (Validator != nil) the inserted key's type equals a listed one
				okt.Sites++
				isVP := func(t *Term) bool {
					k := strip(t).Key()
					return strings.Contains(k, "ConsensusParams(") && strings.HasSuffix(k, ".Validator")
				}
				restricted := p.HasFact(i, func(a *Term, pol bool) bool { x := eqOtherT(a, isVP); return x != nil && x.IsNil() && !pol })
				unrestricted := p.HasFact(i, func(a *Term, pol bool) bool { x := eqOtherT(a, isVP); return x != nil && x.IsNil() && pol })
				typeOK := p.HasFact(i, func(a *Term, pol bool) bool {
					if !pol || a.Op != "bin" || a.Name != "==" {
						return false
					}
					x, y := strip(a.Args[0]).Key(), strip(a.Args[1]).Key()
					if strings.Contains(y, "PubKey).Type(") {
						x, y = y, x
					}
					return strings.Contains(x, "PubKey).Type(") && strings.Contains(x, pk.Key()) && strings.Contains(y, ".Validator.PubKeyTypes[")
				})
				if !unrestricted && !(restricted && typeOK) {
					okt.Fail(where, fmt.Sprintf("validator inserted without its key type being one of ConsensusParams.Validator.PubKeyTypes (params restricted [%v], type listed [%v]): the engine rejects the batch", restricted, typeOK), c.Dump(p, i))
				}
			}
		}
		if o.Sites == 0 {
			o.Fail(c.W.Pos(fn.Pos()), "no insertion found", nil)
		}
	})

	c.Rule("C13.R3", func() {
		fn := childHandler(c, "RemoveValidator")
		o := c.Ob("C13.R3", "RemoveValidator: only an existing record is rewritten, as the same record with ConsPower := 0")
		po := PO{Params: hParams, NoInline: []string{".Validate", "Keeper).SetValidator", "Keeper).GetValidator"}}
		for _, p := range c.Paths(fn, po) {
			o.Paths++
			o.Facts += p.NFacts()
			for _, i := range p.Find(func(ev *Event) bool {
				return ev.Kind == EvCall && strings.HasSuffix(ev.Call.Name, "Keeper).SetValidator")
			}) {
				o.Sites++
				ev := &p.Events[i]
				v := ev.Call.Args[2]
				var get *Term
				for j := 0; j < i; j++ {
					if e2 := &p.Events[j]; e2.Kind == EvCall && strings.HasSuffix(e2.Call.Name, "Keeper).GetValidator") {
						get = e2.Call
					}
				}
				if get == nil {
					o.Fail(c.evPos(ev), "record written without loading it first", c.Dump(p, i))
					continue
				}
				if d := decodedFrom(get.Args[2]); d == nil || d.Key() != "req.ValidatorAddress" {
					o.Fail(c.evPos(ev), "loaded validator "+trunc(get.Args[2].Key(), 100)+" instead of req.ValidatorAddress", c.Dump(p, i))
				}
				if !p.factIs(i, get.String()+".1", true) {
					o.Fail(c.evPos(ev), "a record is written although the validator was not found (creates an empty zero-power record)", c.Dump(p, i))
				}
				if v.Key() != get.Key()+".0{ConsPower:=0}" {
					o.Fail(c.evPos(ev), "stores "+trunc(v.Key(), 160)+", want the loaded record with ConsPower:=0", c.Dump(p, i))
				}
			}
		}
		if o.Sites == 0 {
			o.Fail(c.W.Pos(fn.Pos()), "no SetValidator reached", nil)
		}
	})

	c.Rule("C13.R4", func() {
		purgeObligation(c, "C13.R5", "ApplyAndReturnValidatorSetUpdates: a record with power <= 0 is purged now or is in the last-power set")
		diffComplete(c, "C13.R4")
	})

	c.Rule("C13.R6", func() {
		c.writersTable("C13.R6", K, "Params", setOf("Set", "Remove"), []string{"(opchild/keeper.MsgServer).UpdateParams", "(opchild.AppModule).EndBlock", "(opchild.AppModule).InitGenesis"})
		sp := c.Method(childKeeper, "Keeper", "SetParams")
		o := c.Ob("C13.R6", "SetParams: Params.Set only with validated params and MaxValidators >= len(all validators)")
		for _, p := range c.Paths(sp, PO{Params: []string{"k", "ctx", "params"}, NoInline: []string{".Validate", "GetAllValidators"}}) {
			o.Paths++
			o.Facts += p.NFacts()
			for _, i := range collEvents(p, len(p.Events), "Params", "Set") {
				o.Sites++
				if p.Events[i].Call.Args[2].Key() != "params" {
					o.Fail(c.evPos(&p.Events[i]), "stores "+p.Events[i].Call.Args[2].Key(), nil)
				}
				rel, n := p.Relation(i, func(t *Term) bool { return strip(t).Key() == "params.MaxValidators" }, func(t *Term) bool {
					return strip(t).Key() == "builtin.len((opchild/keeper.Keeper).GetAllValidators(k, ctx).0)"
				})
				if n == 0 || rel&rLT != 0 {
					o.Fail(c.evPos(&p.Events[i]), "params stored with relation(MaxValidators, len(all)) = "+relString(rel)+"; must exclude <", c.Dump(p, i))
				}
				if !p.HasFact(i, func(a *Term, pol bool) bool {
					x := eqOther(a, "nil")
					return pol && x != nil && x.Op == "call" && strings.HasSuffix(x.Name, "Params).Validate") && x.Args[0].Key() == "params"
				}) {
					o.Fail(c.evPos(&p.Events[i]), "params stored without Validate() == nil", c.Dump(p, i))
				}
			}
		}
		if o.Sites == 0 {
			o.Fail(c.W.Pos(sp.Pos()), "no Params.Set in SetParams", nil)
		}
		// the same obligation at every entry point that writes Params, with all helpers inlined:
		// whichever function performs the write, the stored value either leaves MaxValidators
		// as loaded or is validated and shown to be >= the number of ALL stored validators
		oe := c.Ob("C13.R6", "every entry that stores Params: MaxValidators untouched, or validated params with MaxValidators >= len(all stored validators)")
		type ent struct {
			fn *ssa.Function
			po PO
		}
		noInl := []string{".Validate", "GetAllValidators", "Keeper).SetValidator", "SetValidatorByConsAddr", "ApplyAndReturnValidatorSetUpdates", "SetLastValidatorPower", "SetNextL", "types.NewValidator"}
		for _, e := range []ent{
			{childHandler(c, "UpdateParams"), PO{Params: hParams, Callbacks: true, NoInline: noInl}},
			{c.Method(childKeeper, "Keeper", "InitGenesis"), PO{Params: []string{"k", "ctx", "data"}, Visits: 2, NoInline: noInl}},
			{c.Method(childKeeper, "Keeper", "ChangeExecutor"), PO{Params: []string{"k", "ctx", "plan"}, Callbacks: true, NoInline: noInl}},
		} {
			for _, p := range c.Paths(e.fn, e.po) {
				oe.Paths++
				for _, i := range collEvents(p, len(p.Events), "Params", "Set") {
					oe.Sites++
					v := strip(p.Events[i].Call.Args[2])
					// (a) the loaded params with other fields replaced
					base := v
					touched := false
					for base.Op == "update" {
						if base.Name == "MaxValidators" {
							touched = true
						}
						base = strip(base.Args[0])
					}
					if !touched && strings.HasSuffix(base.Key(), "Get(k.Params, ctx).0") || !touched && strings.HasSuffix(base.Key(), "Get(ms.Keeper.Params, ctx).0") {
						continue
					}
					// (b) validated, and not below the number of all stored validators
					mv := strip(project(v, "MaxValidators", nil)).Key()
					rel, n := p.Relation(i, func(t *Term) bool { return strip(t).Key() == mv }, func(t *Term) bool {
						k := strip(t).Key()
						return strings.HasPrefix(k, "builtin.len((opchild/keeper.Keeper).GetAllValidators(") && strings.HasSuffix(k, ").0)")
					})
					if n == 0 || rel&rLT != 0 {
						oe.Fail(c.evPos(&p.Events[i]), fnShort(e.fn)+": params "+trunc(v.Key(), 60)+" stored with relation(MaxValidators, len(all stored validators)) = "+relString(rel)+"; must exclude < (a stored, not yet bonded validator would exceed the maximum at the next diff)", c.Dump(p, i))
					}
					if !p.HasFact(i, func(a *Term, pol bool) bool {
						x := eqOther(a, "nil")
						return pol && x != nil && x.Op == "call" && strings.HasSuffix(x.Name, "Params).Validate") && strip(x.Args[0]).Key() == v.Key()
					}) {
						oe.Fail(c.evPos(&p.Events[i]), fnShort(e.fn)+": params stored without Validate() == nil", c.Dump(p, i))
					}
				}
			}
		}
		if oe.Sites < 3 {
			oe.Fail("-", fmt.Sprintf("only %d Params.Set sites found at the entries (floor 3)", oe.Sites), nil)
		}
		ce := c.Method(childKeeper, "Keeper", "ChangeExecutor")
		o2 := c.Ob("C13.R6", "ChangeExecutor: a direct Params.Set may only replace BridgeExecutors in the loaded params (MaxValidators untouched)")
		for _, p := range c.Paths(ce, PO{Params: []string{"k", "ctx", "plan"}, Callbacks: true, NoInline: []string{"Keeper).SetValidator", "SetValidatorByConsAddr", "SetParams"}}) {
			o2.Paths++
			for _, i := range collEvents(p, len(p.Events), "Params", "Set") {
				o2.Sites++
				v := p.Events[i].Call.Args[2]
				if v.Key() != "(collections.Item[V]).Get(k.Params, ctx).0{BridgeExecutors:=plan.NextExecutors}" {
					o2.Fail(c.evPos(&p.Events[i]), "stores "+trunc(v.Key(), 160), c.Dump(p, i))
				}
			}
		}
	})

	c.Rule("C13.R8", func() {
		errorDiscipline(c, "C13.R8", "opchild.EndBlocker", c.Func("opchild", "EndBlocker"), PO{Params: []string{"ctx", "k"}, Visits: 2, Callbacks: true})
		errorDiscipline(c, "C13.R8", "opchild.BeginBlocker", c.Func("opchild", "BeginBlocker"), PO{Params: []string{"ctx", "k"}, Visits: 2, Callbacks: true})
	})

	c.Rule("C13.R7", func() {
		ig := c.Method(childKeeper, "Keeper", "InitGenesis")
		o := c.Ob("C13.R7", "InitGenesis: exported genesis replays LastValidatorPowers as the initial updates with the recorded power; otherwise runs the diff")
		po := PO{Params: []string{"k", "ctx", "data"}, Visits: 3, NoInline: []string{"SetParams", "Keeper).SetValidator", "SetValidatorByConsAddr", "SetLastValidatorPower", "Keeper).GetValidator", "ApplyAndReturnValidatorSetUpdates", "SetNextL", "ABCIValidatorUpdate"}, Pure: []string{"ABCIValidatorUpdate"}}
		nExp, nDiff := 0, 0
		for _, p := range c.Paths(ig, po) {
			o.Paths++
			o.Facts += p.NFacts()
			if p.Panic {
				continue
			}
			exported := p.HasFact(len(p.Events), func(a *Term, pol bool) bool { return pol && a.Key() == "data.Exported" })
			notExp := p.HasFact(len(p.Events), func(a *Term, pol bool) bool { return !pol && a.Key() == "data.Exported" })
			diff := p.Find(func(ev *Event) bool {
				return ev.Kind == EvCall && strings.HasSuffix(ev.Call.Name, "ApplyAndReturnValidatorSetUpdates")
			})
			sets := p.Find(func(ev *Event) bool {
				return ev.Kind == EvCall && strings.HasSuffix(ev.Call.Name, "Keeper).SetLastValidatorPower")
			})
			if exported {
				nExp++
				if len(diff) != 0 {
					o.Fail(c.W.Pos(ig.Pos()), "exported genesis also runs the validator diff", c.Dump(p, -1))
				}
				elems, ok := listOf(p.Ret[0])
				if !ok {
					o.Undecide("result not an append chain: " + trunc(p.Ret[0].Key(), 120))
					continue
				}
				if len(elems) != len(sets) {
					o.Fail(c.W.Pos(ig.Pos()), fmt.Sprintf("%d last powers restored but %d initial updates returned", len(sets), len(elems)), c.Dump(p, -1))
				}
				for i, e := range elems {
					o.Sites++
					if i >= len(sets) {
						break
					}
					want := fmt.Sprintf("data.LastValidatorPowers[%d].Power", i)
					if got := project(e, "Power", nil).Key(); got != want {
						o.Fail(c.W.Pos(ig.Pos()), "initial update "+fmt.Sprint(i)+" carries power "+trunc(got, 100)+", want "+want, c.Dump(p, -1))
					}
					if sa := p.Events[sets[i]].Call.Args; sa[3].Key() != want {
						o.Fail(c.evPos(&p.Events[sets[i]]), "restored last power is "+sa[3].Key(), c.Dump(p, -1))
					}
				}
			} else if notExp {
				nDiff++
				if len(diff) != 1 || len(sets) != 0 {
					o.Fail(c.W.Pos(ig.Pos()), "fresh genesis must run the validator diff exactly once", c.Dump(p, -1))
				} else if p.Ret[0].String() != p.Events[diff[0]].Call.String()+".0" {
					o.Fail(c.W.Pos(ig.Pos()), "fresh genesis does not return the diff's updates", c.Dump(p, -1))
				}
			}
		}
		if nExp == 0 || nDiff == 0 {
			o.Fail(c.W.Pos(ig.Pos()), fmt.Sprintf("exported paths=%d, fresh paths=%d (floor 1 each)", nExp, nDiff), nil)
		}
	})
}

// Args0Name: name of the call this term is (or extracts from).
func (t *Term) Args0Name() string {
	x := t
	if x.Op == "extract" && len(x.Args) > 0 {
		x = x.Args[0]
	}
	if x.Op == "call" {
		return x.Name
	}
	return ""
}

// ---------------------------------------------------------------------------
// C14 — executor-change plan

func propC14(c *Ctx) {
	c.Clauses = append(c.Clauses,
		"registration is validate-then-write: the only write (the in-memory plan map) happens after proposal id > 0, height > 0, height not yet registered, validator address decodes, every executor decodes, the pubkey unmarshals and NewValidator succeeds; no effect on any error path",
		"EndBlocker looks the plan up at uint64(ctx.BlockHeight()), applies it before computing validator updates and returns its error",
		"ChangeExecutor zeroes every stored validator's power in place, inserts the plan validator in both indexes and replaces exactly the executor list",
		"block processing cannot fail on configuration: every error ChangeExecutor can return originates in store/codec I/O, never in a comparison of configuration values (max validators vs. count)",
		"the plan validator insertion excludes or handles an existing operator address / consensus key (today: neither - known findings D6a, D6b)")
	c.NotDecided = append(c.NotDecided, "what CometBFT ends up holding after the batch (runtime)", "that all nodes registered the same plan (node-local by design)")
	c.Assumptions = append(c.Assumptions, "A1", "A2", "A3", "A10")

	c.Rule("C14.R1", func() {
		fn := c.Method(childKeeper, "Keeper", "RegisterExecutorChangePlan")
		o := c.Ob("C14.R1", "RegisterExecutorChangePlan: the plan map is written only after every validation succeeded; nothing else is written")
		params := []string{"k", "proposalID", "height", "nextValidator", "moniker", "consensusPubKey", "info", "nextExecutors"}
		nW := 0
		for _, p := range c.Paths(fn, PO{Params: params, Visits: 4, NoInline: []string{"types.NewValidator"}}) {
			o.Paths++
			o.Facts += p.NFacts()
			for i := range p.Events {
				ev := &p.Events[i]
				k := effectKind(ev)
				if k == "" {
					continue
				}
				o.Sites++
				if k != "mapset" || !strings.HasSuffix(ev.Place.Key(), "k.ExecutorChangePlans") {
					o.Fail(c.evPos(ev), "unexpected effect "+k+" during registration", c.Dump(p, i))
					continue
				}
				nW++
				if ev.Cond.Key() != "height" {
					o.Fail(c.evPos(ev), "plan stored under key "+ev.Cond.Key(), c.Dump(p, i))
				}
				need := map[string]bool{}
				relP, n1 := p.Relation(i, keyIs("proposalID"), keyIs("0"))
				need["proposalID > 0"] = n1 > 0 && relP == rGT
				relH, n2 := p.Relation(i, keyIs("height"), keyIs("0"))
				need["height > 0"] = n2 > 0 && relH == rGT
				need["height not registered"] = p.HasFact(i, func(a *Term, pol bool) bool {
					return !pol && a.Op == "extract" && a.Name == "1" && a.Args[0].Op == "lookup" && a.Args[0].Args[0].Key() == "k.ExecutorChangePlans" && a.Args[0].Args[1].Key() == "height"
				})
				need["validator address decodes"] = p.HasFact(i, func(a *Term, pol bool) bool {
					x := eqOther(a, "nil")
					return pol && x != nil && x.Op == "extract" && x.Name == "1" && decodedFrom(x.Args[0]) != nil && decodedFrom(x.Args[0]).Key() == "nextValidator"
				})
				need["pubkey unmarshals"] = p.HasFact(i, func(a *Term, pol bool) bool {
					x := eqOther(a, "nil")
					return pol && x != nil && x.Op == "call" && strings.HasSuffix(x.Name, "UnmarshalInterfaceJSON")
				})
				need["NewValidator ok"] = p.HasFact(i, func(a *Term, pol bool) bool {
					x := eqOther(a, "nil")
					return pol && x != nil && x.Op == "extract" && x.Name == "1" && strings.HasSuffix(x.Args[0].Name, "types.NewValidator")
				})
				// every executor visited by the loop decodes
				execOK := true
				for j := 0; j < i; j++ {
					e2 := &p.Events[j]
					if e2.Kind == EvFact && e2.Pol && e2.Cond.Op == "bin" && e2.Cond.Name == "<" && e2.Cond.Args[1].Key() == "builtin.len(nextExecutors)" && e2.Cond.Args[0].IsConst() {
						idx := e2.Cond.Args[0].Name
						decodes := func(el string) bool {
							return p.HasFact(i, func(a *Term, pol bool) bool {
								x := eqOther(a, "nil")
								return pol && x != nil && x.Op == "extract" && x.Name == "1" && decodedFrom(x.Args[0]) != nil && decodedFrom(x.Args[0]).Key() == el
							})
						}
						el := "nextExecutors[" + idx + "]"
						// ... or is the same string as an element that decodes (decoding depends on
						// the string only)
						sameAsDecoded := p.HasFact(i, func(a *Term, pol bool) bool {
							if !pol || a.Op != "bin" || a.Name != "==" {
								return false
							}
							x, y := a.Args[0].Key(), a.Args[1].Key()
							if y == el {
								x, y = y, x
							}
							return x == el && strings.HasPrefix(y, "nextExecutors[") && decodes(y)
						})
						if !decodes(el) && !sameAsDecoded {
							execOK = false
						}
					}
				}
				need["every executor decodes"] = execOK
				// the loop must have run to the end
				for _, kk := range sortedKeys(need) {
					if !need[kk] {
						o.Fail(c.evPos(ev), "plan written without: "+kk, c.Dump(p, i))
					}
				}
				v := ev.Val
				if got := project(v, "NextExecutors", nil).Key(); got != "nextExecutors" {
					o.Fail(c.evPos(ev), "stored NextExecutors is "+got, nil)
				}
				if got := project(v, "Height", nil).Key(); got != "height" {
					o.Fail(c.evPos(ev), "stored Height is "+got, nil)
				}
				if got := project(v, "NextValidator", nil); !(got.Op == "extract" && strings.HasSuffix(got.Args[0].Name, "types.NewValidator")) {
					o.Fail(c.evPos(ev), "stored NextValidator is "+trunc(got.Key(), 100), nil)
				}
			}
			if p.OK() && !p.Panic {
				if len(p.Find(func(ev *Event) bool { return ev.Kind == EvMapUpdate && !scratchMap(ev.Place) })) != 1 {
					o.Fail(c.W.Pos(fn.Pos()), "success without exactly one plan write", c.Dump(p, -1))
				}
			} else if len(p.Find(func(ev *Event) bool { return effectKind(ev) != "" })) > 0 {
				o.Fail(c.W.Pos(fn.Pos()), "a rejected registration leaves a side effect", c.Dump(p, -1))
			}
		}
		if nW == 0 {
			o.Fail(c.W.Pos(fn.Pos()), "no plan write found", nil)
		}
		// the map has no other writer
		eff := c.W.BuildEffects()
		o2 := c.Ob("C14.R1", "ExecutorChangePlans is written only by RegisterExecutorChangePlan (and created in NewKeeper)")
		for _, s := range eff.Where(func(s *Site) bool {
			return (s.Kind == SMapSet || s.Kind == SMapDel) && s.Field == "ExecutorChangePlans"
		}) {
			o2.Sites++
			for _, r := range eff.OwnerNames(s) {
				if r != "(opchild/keeper.Keeper).RegisterExecutorChangePlan" {
					o2.Fail(c.W.Pos(s.Pos), string(s.Kind)+" in "+r+attributedNote(s, r), nil)
				}
			}
		}
		if o2.Sites == 0 {
			o2.Fail("-", "no write site found (floor 1)", nil)
		}
	})

	c.Rule("C14.R2", func() {
		fn := c.Func("opchild", "EndBlocker")
		o := c.Ob("C14.R2", "EndBlocker: plan looked up at uint64(ctx.BlockHeight()); ChangeExecutor(plan) before BlockValidatorUpdates; its error is returned")
		nPlan := 0
		for _, p := range c.Paths(fn, PO{Params: []string{"ctx", "k"}, NoInline: []string{"ChangeExecutor", "BlockValidatorUpdates"}}) {
			o.Paths++
			o.Facts += p.NFacts()
			ce := p.Find(func(ev *Event) bool {
				return ev.Kind == EvCall && strings.HasSuffix(ev.Call.Name, "Keeper).ChangeExecutor")
			})
			bv := p.Find(func(ev *Event) bool {
				return ev.Kind == EvCall && strings.HasSuffix(ev.Call.Name, "Keeper).BlockValidatorUpdates")
			})
			for _, i := range ce {
				nPlan++
				o.Sites++
				plan := p.Events[i].Call.Args[2]
				ok := plan.Op == "extract" && plan.Name == "0" && plan.Args[0].Op == "lookup" && plan.Args[0].Args[0].Key() == "k.ExecutorChangePlans" &&
					plan.Args[0].Args[1].Key() == "uint64((sdk.Context).BlockHeight(ctx))"
				if !ok {
					o.Fail(c.evPos(&p.Events[i]), "plan applied is "+trunc(plan.Key(), 160)+", want ExecutorChangePlans[uint64(ctx.BlockHeight())]", c.Dump(p, i))
				}
				if !p.HasFact(i, func(a *Term, pol bool) bool {
					return pol && a.Op == "extract" && a.Name == "1" && a.Args[0].String() == plan.Args[0].String()
				}) {
					o.Fail(c.evPos(&p.Events[i]), "plan applied without the lookup having found one", c.Dump(p, i))
				}
				if len(bv) > 0 && bv[0] < i {
					o.Fail(c.evPos(&p.Events[i]), "validator updates computed before the plan is applied", c.Dump(p, i))
				}
				if (p.OK() || len(bv) > 0) && !p.factIs(len(p.Events), "("+p.Events[i].Call.String()+" == nil)", true) {
					o.Fail(c.evPos(&p.Events[i]), "ChangeExecutor error is swallowed (validator updates are computed although applying the plan failed)", c.Dump(p, -1))
				}
			}
			if (p.OK() || len(bv) > 0) && !p.Panic {
				if len(bv) != 1 || p.Ret[0].String() != p.Events[bv[0]].Call.String()+".0" || p.Ret[1].String() != p.Events[bv[0]].Call.String()+".1" {
					o.Fail(c.W.Pos(fn.Pos()), "EndBlocker does not return BlockValidatorUpdates' result", c.Dump(p, -1))
				}
				// a found plan must be applied
				found := p.HasFact(len(p.Events), func(a *Term, pol bool) bool {
					return pol && a.Op == "extract" && a.Name == "1" && a.Args[0].Op == "lookup" && a.Args[0].Args[0].Key() == "k.ExecutorChangePlans"
				})
				if found && len(ce) != 1 {
					o.Fail(c.W.Pos(fn.Pos()), "a registered plan is not applied", c.Dump(p, -1))
				}
			}
		}
		if nPlan == 0 {
			o.Fail(c.W.Pos(fn.Pos()), "no ChangeExecutor call found", nil)
		}
	})

	c.Rule("C14.R3", func() { executorHandover(c, "C14.R3") })
	c.Rule("C14.R3", func() {
		fn := c.Method(childKeeper, "Keeper", "ChangeExecutor")
		o := c.Ob("C14.R3", "ChangeExecutor: zero every stored power in place; insert plan validator in both indexes; executors := plan.NextExecutors")
		po := PO{Params: []string{"k", "ctx", "plan"}, Callbacks: true, WalkRounds: 2, NoInline: []string{"Keeper).SetValidator", "SetValidatorByConsAddr", "Keeper).SetParams", ".Validate", "GetAllValidators"}}
		nOK := 0
		for _, p := range c.Paths(fn, po) {
			o.Paths++
			o.Facts += p.NFacts()
			// walk callback
			for _, i := range collEvents(p, len(p.Events), "Validators", "Set") {
				o.Sites++
				a := p.Events[i].Call.Args
				key, val := a[2], a[3]
				if !(key.Op == "opaque" && key.Name == "cbarg0") || val.Op != "update" || val.Name != "ConsPower" || val.Args[1].Key() != "0" ||
					!(val.Args[0].Op == "opaque" && val.Args[0].Name == "cbarg1") || !sameArgs(key, val.Args[0]) {
					o.Fail(c.evPos(&p.Events[i]), "walk writes "+trunc(val.Key(), 120)+" under "+trunc(key.Key(), 80)+" (want the visited record with ConsPower:=0 under its own key)", c.Dump(p, i))
				}
			}
			for _, i := range p.Find(func(ev *Event) bool { return ev.Kind == EvCbEnd }) {
				r := p.Events[i].Res
				if r.Op == "tuple" && len(r.Args) == 2 && !r.Args[0].IsFalse() {
					o.Fail(c.W.Pos(fn.Pos()), "walk may stop early (stop="+r.Args[0].Key()+"): not every validator is zeroed", c.Dump(p, i))
				}
			}
			if !p.OK() || p.Panic {
				continue
			}
			nOK++
			walk := collEvents(p, len(p.Events), "Validators", "Walk")
			sv := p.Find(func(ev *Event) bool {
				return ev.Kind == EvCall && strings.HasSuffix(ev.Call.Name, "Keeper).SetValidator")
			})
			sc := p.Find(func(ev *Event) bool {
				return ev.Kind == EvCall && strings.HasSuffix(ev.Call.Name, "Keeper).SetValidatorByConsAddr")
			})
			// the explicit form of the walk: a cursor over the full range that is left only when it
			// is exhausted, every visited position being written back
			if iters := collEvents(p, len(p.Events), "Validators", "Iterate"); len(walk) == 0 && len(iters) == 1 {
				walk = iters
				src := p.Events[iters[0]].Call
				validAt := func(j int64, want bool) bool {
					return p.HasFact(len(p.Events), func(a *Term, pol bool) bool {
						if a.Op != "opaque" || a.Name != "itervalid" || len(a.Args) != 2 || a.Args[0].String() != src.String() {
							return false
						}
						v, ok := a.Args[1].Int()
						return ok && v == j && pol == want
					})
				}
				n := int64(0)
				for validAt(n, true) {
					n++
				}
				if !validAt(n, false) {
					o.Fail(c.W.Pos(fn.Pos()), "the cursor over Validators is left before it is exhausted: not every validator is zeroed", c.Dump(p, -1))
				}
				written := map[int64]bool{}
				for _, i := range collEvents(p, len(p.Events), "Validators", "Set") {
					key := p.Events[i].Call.Args[2]
					if key.Op == "opaque" && key.Name == "cbarg0" && len(key.Args) > 0 && key.Args[0].String() == src.String() {
						pos := int64(0)
						if len(key.Args) == 2 {
							pos, _ = key.Args[1].Int()
						}
						written[pos] = true
					}
				}
				for j := int64(0); j < n; j++ {
					if !written[j] {
						o.Fail(c.W.Pos(fn.Pos()), fmt.Sprintf("cursor position %d is visited but not written back with zero power", j), c.Dump(p, -1))
					}
				}
			}
			if len(walk) != 1 || p.Events[walk[0]].Call.Args[2].Key() != "nil" {
				o.Fail(c.W.Pos(fn.Pos()), "success without one full-range walk over Validators", c.Dump(p, -1))
			}
			if len(sv) != 1 || len(sc) != 1 || p.Events[sv[0]].Call.Args[2].Key() != "plan.NextValidator" || p.Events[sc[0]].Call.Args[2].Key() != "plan.NextValidator" {
				o.Fail(c.W.Pos(fn.Pos()), "plan validator not inserted into both indexes", c.Dump(p, -1))
			} else if len(walk) == 1 && sv[0] < walk[0] {
				o.Fail(c.W.Pos(fn.Pos()), "plan validator inserted before the existing set is zeroed (it would be zeroed too)", c.Dump(p, -1))
			}
			// executors
			okExec := false
			for i := range p.Events {
				ev := &p.Events[i]
				var v *Term
				if ev.Kind == EvCall && strings.HasSuffix(ev.Call.Name, "Keeper).SetParams") {
					v = ev.Call.Args[2]
				}
				if f, m, ok := collOp(ev); ok && f == "Params" && m == "Set" {
					v = ev.Call.Args[2]
				}
				if v != nil && v.Key() == "(collections.Item[V]).Get(k.Params, ctx).0{BridgeExecutors:=plan.NextExecutors}" {
					okExec = true
				} else if v != nil {
					o.Fail(c.evPos(ev), "stores params "+trunc(v.Key(), 160), c.Dump(p, i))
				}
			}
			if !okExec {
				o.Fail(c.W.Pos(fn.Pos()), "success without replacing the executor list", c.Dump(p, -1))
			}
		}
		if nOK == 0 {
			o.Fail(c.W.Pos(fn.Pos()), "no success path", nil)
		}
	})

	c.Rule("C14.R4", func() {
		fn := c.Method(childKeeper, "Keeper", "ChangeExecutor")
		o := c.Ob("C14.R4", "ChangeExecutor (hence EndBlocker) fails only on store/codec I/O, never on a configuration comparison")
		po := PO{Params: []string{"k", "ctx", "plan"}, Callbacks: true, NoInline: []string{"GetAllValidators", "Params).Validate", "GetConsAddr"}}
		for _, p := range c.Paths(fn, po) {
			o.Paths++
			o.Facts += p.NFacts()
			if p.OK() || p.Panic {
				continue
			}
			o.Sites++
			org := errOrigin(p.Ret[len(p.Ret)-1])
			switch {
			case strings.HasPrefix(org, "store:"), strings.HasPrefix(org, "call:(address.Codec)."), strings.HasPrefix(org, "call:(opchild/types.Validator).GetConsAddr"), strings.HasPrefix(org, "call:(opchild/keeper.Keeper).GetAllValidators"):
			case strings.HasPrefix(org, "call:(opchild/types.Params).Validate"):
				// executor strings were decoded at registration: Validate re-checks format only
			default:
				o.Fail(c.W.Pos(fn.Pos()), "block processing can fail on configuration: error origin "+org, c.Dump(p, -1))
			}
		}
	})

	c.Rule("C14.R7", func() { diffComplete(c, "C14.R7") })
	c.Rule("C14.R6", func() {
		// the records ChangeExecutor zeroes must be gone from state by the end of block h:
		// that is the purge obligation of the diff that runs right after it in EndBlocker
		purgeObligation(c, "C14.R6", "every record zeroed by ChangeExecutor is purged by the validator diff of the same EndBlocker (bonded or never bonded): state ends with the plan validator only")
	})

	c.Rule("C14.R5", func() {
		fn := c.Method(childKeeper, "Keeper", "ChangeExecutor")
		oa := c.Ob("C14.R5", "ChangeExecutor: plan validator insertion excludes or handles an existing operator address")
		ob := c.Ob("C14.R5", "ChangeExecutor: plan validator insertion excludes or handles an already used consensus key")
		po := PO{Params: []string{"k", "ctx", "plan"}, Callbacks: true, NoInline: []string{"Keeper).SetValidator", "SetValidatorByConsAddr", "Keeper).SetParams", "Keeper).GetValidator", "GetValidatorByConsAddr", "Keeper).RemoveValidator"}}
		for _, p := range c.Paths(fn, po) {
			oa.Paths++
			ob.Paths++
			oa.Facts += p.NFacts()
			for _, i := range p.Find(func(ev *Event) bool {
				return ev.Kind == EvCall && strings.HasSuffix(ev.Call.Name, "Keeper).SetValidator")
			}) {
				oa.Sites++
				ob.Sites++
				opChecked := len(p.Find(func(e2 *Event) bool {
					return e2.Kind == EvCall && (strings.HasSuffix(e2.Call.Name, "Keeper).GetValidator") || strings.HasSuffix(e2.Call.Name, "Keeper).RemoveValidator") || func() bool { f, m, ok := collOp(e2); return ok && f == "Validators" && (m == "Has" || m == "Get") }())
				})) > 0
				keyChecked := len(p.Find(func(e2 *Event) bool {
					return e2.Kind == EvCall && (strings.HasSuffix(e2.Call.Name, "Keeper).GetValidatorByConsAddr") || func() bool {
						f, m, ok := collOp(e2)
						return ok && f == "ValidatorsByConsAddr" && (m == "Has" || m == "Get" || m == "Remove")
					}())
				})) > 0
				if !opChecked {
					oa.Fail(c.evPos(&p.Events[i]), "plan.NextValidator is written over whatever record exists under its operator address: if the operator is the bonded validator, the stored consensus key changes but the diff (keyed by operator, power 1 -> 1) emits no update - state and consensus engine diverge", c.Dump(p, i))
				}
				if !keyChecked {
					ob.Fail(c.evPos(&p.Events[i]), "plan.NextValidator's consensus key is not checked against ValidatorsByConsAddr: if another operator already uses the key, the batch returned at that height lists the key twice (power 1 and power 0)", c.Dump(p, i))
				}
			}
		}
		if oa.Sites == 0 {
			oa.Fail(c.W.Pos(fn.Pos()), "insertion site not found", nil)
		}
	})
}

// sameArgs: two opaque terms denote the same element (same opening call, same position).
func sameArgs(a, b *Term) bool {
	if len(a.Args) != len(b.Args) {
		return false
	}
	for i := range a.Args {
		if a.Args[i].String() != b.Args[i].String() {
			return false
		}
	}
	return true
}

// executorHandover: at the plan height the executor role changes hands for real - on every
// success path of ChangeExecutor the params are stored exactly once, as the freshly loaded
// params with BridgeExecutors := plan.NextExecutors, whichever helper performs the write
// (helpers inlined), and the store's error is established nil.
func executorHandover(c *Ctx, rule string) {
	fn := c.Method(childKeeper, "Keeper", "ChangeExecutor")
	o := c.Ob(rule, "ChangeExecutor: every success path stores the loaded params with BridgeExecutors := plan.NextExecutors (old holders lose, new holders gain the role)")
	po := PO{Params: []string{"k", "ctx", "plan"}, Callbacks: true, NoInline: []string{"Keeper).SetValidator", "SetValidatorByConsAddr", ".Validate", "GetAllValidators"}}
	nOK := 0
	for _, p := range c.Paths(fn, po) {
		o.Paths++
		o.Facts += p.NFacts()
		if !p.OK() || p.Panic {
			continue
		}
		nOK++
		o.Sites++
		sets := collEvents(p, len(p.Events), "Params", "Set")
		if len(sets) != 1 {
			o.Fail(c.W.Pos(fn.Pos()), fmt.Sprintf("success path with %d Params.Set (want 1): the executor list is not replaced although the plan is reported applied", len(sets)), c.Dump(p, -1))
			continue
		}
		ev := &p.Events[sets[0]]
		v := strip(ev.Call.Args[2])
		if v.Key() != "(collections.Item[V]).Get(k.Params, ctx).0{BridgeExecutors:=plan.NextExecutors}" {
			o.Fail(c.evPos(ev), "stores params "+trunc(v.Key(), 160), c.Dump(p, sets[0]))
		}
		if !p.factIsOrRet(ev.Call) {
			o.Fail(c.evPos(ev), "the error of the params store is not checked on a success path", c.Dump(p, sets[0]))
		}
	}
	if nOK == 0 {
		o.Fail(c.W.Pos(fn.Pos()), "no success path", nil)
	}
}

// diffComplete: the validator diff tells consensus exactly what it records: every stored
// validator with positive power that is new or changed is reported and recorded, every
// reported update is recorded, removals come from the sorted no-longer-bonded list.  Shared by
// C13 and C14 (the plan validator inserted at the plan height is reported by the diff of the
// same EndBlocker - nothing may skip a stored positive-power validator).
func diffComplete(c *Ctx, rule string) {
		fn := c.Method(childKeeper, "Keeper", "ApplyAndReturnValidatorSetUpdates")
		o := c.Ob(rule, "ApplyAndReturnValidatorSetUpdates: every update told to consensus is recorded (and vice versa)")
		allV := "(opchild/keeper.Keeper).GetAllValidators(k, ctx).0"
		nOK := 0
		for _, p := range c.Paths(fn, applyPO) {
			lastM := lastMapOn(p)
			o.Paths++
			o.Facts += p.NFacts()
			if !p.OK() || p.Panic {
				continue
			}
			nOK++
			elems, ok := listOf(p.Ret[0])
			if !ok {
				o.Undecide("update list is not an append chain: " + trunc(p.Ret[0].Key(), 160))
				continue
			}
			told := map[string]bool{}
			for _, e := range elems {
				e = strip(e)
				if e.Op != "call" || !strings.HasSuffix(e.Name, "Validator).ABCIValidatorUpdate") {
					o.Fail(c.W.Pos(fn.Pos()), "update element is "+trunc(e.Key(), 120), c.Dump(p, -1))
					continue
				}
				o.Sites++
				v := e.Args[0]
				addr := opAddrKey(v)
				told[addr] = true
				switch {
				case strings.HasPrefix(v.Key(), allV+"["):
					rel, n := p.Relation(len(p.Events), keyIs(v.Key()+".ConsPower"), keyIs("0"))
					if n == 0 || rel != rGT {
						o.Fail(c.W.Pos(fn.Pos()), "a stored validator is reported with relation(power, 0) = "+relString(rel)+" (want >)", c.Dump(p, -1))
					}
					rec := p.Find(func(e2 *Event) bool {
						return e2.Kind == EvCall && strings.HasSuffix(e2.Call.Name, "Keeper).SetLastValidatorPower") && e2.Call.Args[2].Key() == addr && e2.Call.Args[3].Key() == v.Key()+".ConsPower"
					})
					if len(rec) != 1 || !p.factIs(len(p.Events), "("+p.Events[rec[0]].Call.String()+" == nil)", true) {
						o.Fail(c.W.Pos(fn.Pos()), "power update told to consensus without recording SetLastValidatorPower(addr, power) for the same validator", c.Dump(p, -1))
					}
				case strings.HasSuffix(v.Args0Name(), "mustGetValidator"): // method or package function: the address is its last argument
					rel, n := p.Relation(len(p.Events), keyIs(v.Key()+".ConsPower"), keyIs("0"))
					if n == 0 || rel&rGT != 0 {
						o.Fail(c.W.Pos(fn.Pos()), "removal update emitted for a validator whose power may be positive", c.Dump(p, -1))
					}
					// the looked-up address comes from the sorted no-longer-bonded slice
					src := strip(v.Args[len(v.Args)-1])
					if !(src.Op == "convert" || src.Op == "index") || !fromSortedLast(c, src, lastM) {
						o.Fail(c.W.Pos(fn.Pos()), "removed validator is looked up from "+trunc(src.Key(), 140)+", not from the sorted no-longer-bonded slice", c.Dump(p, -1))
					}
					rm := p.Find(func(e2 *Event) bool {
						return e2.Kind == EvCall && strings.HasSuffix(e2.Call.Name, "Keeper).RemoveValidator") && e2.Call.Args[2].Key() == addr
					})
					dl := p.Find(func(e2 *Event) bool {
						return e2.Kind == EvCall && strings.HasSuffix(e2.Call.Name, "Keeper).DeleteLastValidatorPower") && e2.Call.Args[2].Key() == addr
					})
					if len(rm) != 1 || len(dl) != 1 {
						o.Fail(c.W.Pos(fn.Pos()), fmt.Sprintf("removal told to consensus with %d record removals and %d last-power deletions of that validator (want 1 and 1)", len(rm), len(dl)), c.Dump(p, -1))
					}
				default:
					o.Fail(c.W.Pos(fn.Pos()), "update for a validator of unknown origin: "+trunc(v.Key(), 140), c.Dump(p, -1))
				}
			}
			// vice versa
			for _, i := range p.Find(func(e2 *Event) bool {
				return e2.Kind == EvCall && (strings.HasSuffix(e2.Call.Name, "Keeper).SetLastValidatorPower") || strings.HasSuffix(e2.Call.Name, "Keeper).DeleteLastValidatorPower"))
			}) {
				if !told[p.Events[i].Call.Args[2].Key()] {
					o.Fail(c.evPos(&p.Events[i]), "last-power record changed without telling consensus", c.Dump(p, -1))
				}
			}
			// completeness: a stored validator with positive power is reported iff it is new or its power changed
			for i := range p.Events {
				ev := &p.Events[i]
				if ev.Kind != EvFact || !ev.Pol || ev.Cond.Op != "bin" || ev.Cond.Name != "<" || ev.Cond.Args[0].Key() != "0" {
					continue
				}
				pw := ev.Cond.Args[1]
				if !strings.HasSuffix(pw.Key(), ".ConsPower") || !strings.HasPrefix(pw.Key(), allV+"[") {
					continue
				}
				v := pw.Args[0]
				lk := func(a *Term) bool {
					return a.Op == "extract" && a.Args[0].Op == "lookup" && a.Args[0].Args[0].Key() == lastM && a.Args[0].Args[1].Key() == v.Key()+".OperatorAddress"
				}
				notFound := p.HasFact(len(p.Events), func(a *Term, pol bool) bool { return !pol && lk(a) && a.Name == "1" })
				found := p.HasFact(len(p.Events), func(a *Term, pol bool) bool { return pol && lk(a) && a.Name == "1" })
				changed := p.HasFact(len(p.Events), func(a *Term, pol bool) bool {
					return !pol && a.Op == "bin" && a.Name == "==" && ((lk(a.Args[0]) && a.Args[0].Name == "0" && a.Args[1].Key() == pw.Key()) || (lk(a.Args[1]) && a.Args[1].Name == "0" && a.Args[0].Key() == pw.Key()))
				})
				same := p.HasFact(len(p.Events), func(a *Term, pol bool) bool {
					return pol && a.Op == "bin" && a.Name == "==" && ((lk(a.Args[0]) && a.Args[0].Name == "0" && a.Args[1].Key() == pw.Key()) || (lk(a.Args[1]) && a.Args[1].Name == "0" && a.Args[0].Key() == pw.Key()))
				})
				isTold := told[opAddrKey(v)]
				if (notFound || changed) && !isTold {
					o.Fail(c.evPos(ev), "a new or re-powered validator is not reported to consensus", c.Dump(p, -1))
				}
				if found && same && isTold {
					o.Fail(c.evPos(ev), "an unchanged bonded validator is reported again", c.Dump(p, -1))
				}
				if !notFound && !found {
					o.Fail(c.evPos(ev), "the last-power lookup of a bonded validator is not consulted", c.Dump(p, -1))
				}
			}
			// bonded validators leave the 'last' map (otherwise they are reported as removed)
			for i := range p.Events {
				ev := &p.Events[i]
				if ev.Kind != EvFact || !ev.Pol || ev.Cond.Op != "bin" || ev.Cond.Name != "<" || ev.Cond.Args[0].Key() != "0" {
					continue
				}
				pw := ev.Cond.Args[1]
				if !strings.HasSuffix(pw.Key(), ".ConsPower") || !strings.HasPrefix(pw.Key(), allV+"[") {
					continue
				}
				v := pw.Args[0]
				del := p.Find(func(e2 *Event) bool {
					return e2.Kind == EvMapDelete && e2.Place.Key() == lastM && e2.Cond.Key() == v.Key()+".OperatorAddress"
				})
				if len(del) == 0 {
					o.Fail(c.evPos(ev), "a bonded validator is not deleted from the last-power map before the removal pass (it would be reported as removed)", c.Dump(p, -1))
				}
			}
		}
		// the removal pass may refuse only validators whose power is positive
		for _, p := range c.Paths(fn, applyPO) {
			if p.Panic || p.OK() || len(p.Ret) != 2 {
				continue
			}
			if r := p.Ret[1]; r.Op == "call" && r.Name == "errors.New" {
				o.Sites++
				okPos := false
				for i := range p.Events {
					ev := &p.Events[i]
					if ev.Kind != EvFact {
						continue
					}
					if rf, ok := factRel(ev.Cond, ev.Pol); ok && strings.HasSuffix(rf.Y.Key(), ".ConsPower") && strings.Contains(rf.Y.Key(), "mustGetValidator") && rf.X.Key() == "0" && rf.Rel == rLT {
						okPos = true
					}
				}
				if !okPos {
					o.Fail(c.W.Pos(fn.Pos()), "the removal pass fails block processing for a validator whose power is not positive", c.Dump(p, -1))
				}
			}
		}
		if nOK == 0 {
			o.Fail(c.W.Pos(fn.Pos()), "no success path", nil)
		}
	}

// indexPaired: at every insertion site a validator record that is stored gets the index entry
// of its consensus key (the index stays one-to-one with the records).  Shared by C13 and, for
// the genesis importer, C16 (a re-imported chain answers consensus-key lookups like the original).
func indexPaired(c *Ctx, rule string, only ...string) {
		type site struct {
			pkg, typ, name string
			params         []string
		}
		for _, s := range []site{
			{childKeeper, "MsgServer", "AddValidator", hParams},
			{childKeeper, "Keeper", "ChangeExecutor", []string{"k", "ctx", "plan"}},
			{childKeeper, "Keeper", "InitGenesis", []string{"k", "ctx", "data"}},
			{childKeeper, "MsgServer", "RemoveValidator", hParams},
		} {
			if len(only) > 0 && !setOf(only...)[s.name] {
				continue
			}
			fn := c.Method(s.pkg, s.typ, s.name)
			o := c.Ob(rule, s.name+": every inserted validator record gets its consensus-key index entry")
			po := PO{Params: s.params, Visits: 3, Callbacks: true, NoInline: []string{".Validate", "Keeper).SetValidator", "SetValidatorByConsAddr", "GetAllValidators", "MaxValidators", "Keeper).GetValidator", "GetValidatorByConsAddr", "types.NewValidator", "SetParams", "GetParams", "ApplyAndReturnValidatorSetUpdates", "SetLastValidatorPower", "SetNextL", "BridgeInfo", "DenomPairs"}}
			for _, p := range c.Paths(fn, po) {
				o.Paths++
				o.Facts += p.NFacts()
				if p.Panic || !p.OK() {
					continue
				}
				for _, i := range p.Find(func(ev *Event) bool {
					return ev.Kind == EvCall && isCall(ev, "Keeper).SetValidator(") || ev.Kind == EvCall && strings.HasSuffix(ev.Call.Name, "Keeper).SetValidator")
				}) {
					o.Sites++
					v := p.Events[i].Call.Args[2]
					// same record with only ConsPower changed: no index change required
					if v.Op == "update" && v.Name == "ConsPower" && v.Args[0].Op == "extract" && strings.HasSuffix(v.Args[0].Args[0].Name, "Keeper).GetValidator") {
						continue
					}
					paired := false
					for j := i + 1; j < len(p.Events); j++ {
						e2 := &p.Events[j]
						if e2.Kind == EvCall && strings.HasSuffix(e2.Call.Name, "Keeper).SetValidatorByConsAddr") && e2.Call.Args[2].String() == v.String() {
							paired = true
						}
					}
					if !paired {
						o.Fail(c.evPos(&p.Events[i]), "validator record "+trunc(v.Key(), 100)+" inserted without its consensus-key index entry", c.Dump(p, -1))
					}
				}
			}
			if o.Sites == 0 {
				o.Fail(c.W.Pos(fn.Pos()), "no SetValidator call on a success path", nil)
			}
		}
}

// eqOtherT: atom is (x == y) with pred(x) or pred(y): the other operand.
func eqOtherT(atom *Term, pred func(*Term) bool) *Term {
	if atom.Op != "bin" || atom.Name != "==" || len(atom.Args) != 2 {
		return nil
	}
	if pred(atom.Args[0]) {
		return atom.Args[1]
	}
	if pred(atom.Args[1]) {
		return atom.Args[0]
	}
	return nil
}
