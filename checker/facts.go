package main

import "strings"

// E5: order-relation facts.  A relation is a subset of {<,=,>} over a pair of terms.
const (
	rLT  uint8 = 1
	rEQ  uint8 = 2
	rGT  uint8 = 4
	rAny       = rLT | rEQ | rGT
)

func relString(r uint8) string {
	var s []string
	if r&rLT != 0 {
		s = append(s, "<")
	}
	if r&rEQ != 0 {
		s = append(s, "=")
	}
	if r&rGT != 0 {
		s = append(s, ">")
	}
	return "{" + strings.Join(s, ",") + "}"
}

func flipRel(r uint8) uint8 {
	var o uint8
	if r&rLT != 0 {
		o |= rGT
	}
	if r&rGT != 0 {
		o |= rLT
	}
	return o | r&rEQ
}

type relFact struct {
	X, Y *Term
	Rel  uint8
}

var zeroConst = &Term{Op: "const", Name: "0"}

// factRel normalises one branch fact to a relation between two terms.
func factRel(atom *Term, pol bool) (relFact, bool) {
	neg := func(r uint8) uint8 { return rAny &^ r }
	pick := func(r uint8) uint8 {
		if pol {
			return r
		}
		return neg(r)
	}
	switch atom.Op {
	case "bin":
		// t.Compare(u) against -1 / 0 / 1: the order relation between t and u
		if len(atom.Args) == 2 {
			for side := 0; side < 2; side++ {
				cmp, k := strip(atom.Args[side]), strip(atom.Args[1-side])
				c, isC := k.Int()
				if cmp.Op != "call" || cmp.Name != "(time.Time).Compare" || len(cmp.Args) != 2 || !isC || c < -1 || c > 1 {
					continue
				}
				// region of v = Compare(t,u) in {-1,0,1} that the atom describes
				var region uint8
				for _, v := range []int64{-1, 0, 1} {
					holds := false
					switch {
					case atom.Name == "==":
						holds = v == c
					case atom.Name == "<" && side == 0:
						holds = v < c
					case atom.Name == "<" && side == 1:
						holds = c < v
					default:
						return relFact{}, false
					}
					if holds {
						region |= map[int64]uint8{-1: rLT, 0: rEQ, 1: rGT}[v]
					}
				}
				return relFact{strip(cmp.Args[0]), strip(cmp.Args[1]), pick(region)}, true
			}
		}
		switch atom.Name {
		case "==":
			return relFact{strip(atom.Args[0]), strip(atom.Args[1]), pick(rEQ)}, true
		case "<":
			return relFact{strip(atom.Args[0]), strip(atom.Args[1]), pick(rLT)}, true
		}
	case "call":
		n := atom.Name
		m := methodOf(n)
		isTime := strings.HasPrefix(n, "(time.Time).")
		isNum := strings.HasPrefix(n, "(sdkmath.Int).") || strings.HasPrefix(n, "(sdkmath.LegacyDec).") || strings.HasPrefix(n, "(sdk.Coin).") || strings.HasPrefix(n, "(sdk.DecCoin).")
		if isTime && len(atom.Args) == 2 {
			switch m {
			case "Before":
				return relFact{strip(atom.Args[0]), strip(atom.Args[1]), pick(rLT)}, true
			case "After":
				return relFact{strip(atom.Args[0]), strip(atom.Args[1]), pick(rGT)}, true
			case "Equal":
				return relFact{strip(atom.Args[0]), strip(atom.Args[1]), pick(rEQ)}, true
			}
		}
		if isNum && len(atom.Args) == 2 {
			switch m {
			case "LT":
				return relFact{strip(atom.Args[0]), strip(atom.Args[1]), pick(rLT)}, true
			case "GT":
				return relFact{strip(atom.Args[0]), strip(atom.Args[1]), pick(rGT)}, true
			case "LTE":
				return relFact{strip(atom.Args[0]), strip(atom.Args[1]), pick(rLT | rEQ)}, true
			case "GTE":
				return relFact{strip(atom.Args[0]), strip(atom.Args[1]), pick(rGT | rEQ)}, true
			case "Equal", "IsEqual":
				return relFact{strip(atom.Args[0]), strip(atom.Args[1]), pick(rEQ)}, true
			}
		}
		if isNum && len(atom.Args) == 1 {
			switch m {
			case "IsZero":
				return relFact{strip(atom.Args[0]), zeroConst, pick(rEQ)}, true
			case "IsPositive":
				return relFact{strip(atom.Args[0]), zeroConst, pick(rGT)}, true
			case "IsNegative":
				return relFact{strip(atom.Args[0]), zeroConst, pick(rLT)}, true
			}
		}
		if n == "bytes.Equal" && len(atom.Args) == 2 {
			return relFact{strip(atom.Args[0]), strip(atom.Args[1]), pick(rEQ)}, true
		}
	}
	return relFact{}, false
}

// Relation: the relation between the terms with keys x and y implied by the
// facts before upto (conjunction = intersection).  match decides whether a
// fact operand is "the" x / y (default: Key equality).
func (p *Path) Relation(upto int, isX, isY func(*Term) bool) (rel uint8, n int) {
	rel = rAny
	if upto > len(p.Events) {
		upto = len(p.Events)
	}
	for i := 0; i < upto; i++ {
		ev := &p.Events[i]
		if ev.Kind != EvFact {
			continue
		}
		rf, ok := factRel(ev.Cond, ev.Pol)
		if !ok {
			continue
		}
		if isX(rf.X) && isY(rf.Y) {
			rel &= rf.Rel & unsignedVsZero(rf.X, rf.Y)
			n++
		} else if isX(rf.Y) && isY(rf.X) {
			rel &= flipRel(rf.Rel) & unsignedVsZero(rf.Y, rf.X)
			n++
		}
	}
	return rel, n
}

func keyIs(k string) func(*Term) bool { return func(t *Term) bool { return t.Key() == k } }

// unsignedVsZero: the relations an unsigned x can have with the constant 0 ({=,>});
// rAny otherwise.  Makes `x != 0`, `x > 0` and `!(x <= 0)` the same fact for uint64.
func unsignedVsZero(x, y *Term) uint8 {
	if x != nil && y != nil && x.Typ != nil && isUnsigned(x.Typ) && y.IsConst() && y.Name == "0" {
		return rEQ | rGT
	}
	if x != nil && y != nil && y.Typ != nil && isUnsigned(y.Typ) && x.IsConst() && x.Name == "0" {
		return rEQ | rLT
	}
	return rAny
}
