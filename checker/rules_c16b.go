package main

import (
	"go/token"
	"go/types"
	"strings"

	"golang.org/x/tools/go/ssa"
)

// C16.R6 — exported records do not share memory.
//
// ExportGenesis builds one record per bridge (and per validator, ...) inside
// collection callbacks.  A slice placed in a record must be backed by memory
// created in the activation that builds the record: if it is rooted in a cell
// the callback captured from an enclosing function (a variable that outlives
// the callback invocation) and that cell is re-sliced, later records overwrite
// the contents of earlier ones — the export then differs from the state.
// Two SSA-level obligations, decided on every function reachable from
// ExportGenesis (closures included):
//   (a) a slice-typed value stored into a struct field (record construction)
//       is never rooted in a captured cell (FreeVar) of the function that
//       builds the record;
//   (b) a captured slice cell is only ever extended: every store to it is
//       append(<the same cell>, ...) — never a re-slice, never another slice.

type aliasFinding struct {
	fn  *ssa.Function
	pos token.Pos
	msg string
}

func isSliceType(t types.Type) bool {
	_, ok := t.Underlying().(*types.Slice)
	return ok
}

// rootsInFreeVar: does v's backing array come from a cell captured by fn?
func rootsInFreeVar(v ssa.Value, seen map[ssa.Value]bool) (ssa.Value, bool) {
	if seen[v] {
		return nil, false
	}
	seen[v] = true
	switch x := v.(type) {
	case *ssa.UnOp:
		if x.Op == token.MUL {
			if fv, ok := x.X.(*ssa.FreeVar); ok {
				return fv, true
			}
		}
	case *ssa.Slice:
		return rootsInFreeVar(x.X, seen)
	case *ssa.Phi:
		for _, e := range x.Edges {
			if r, ok := rootsInFreeVar(e, seen); ok {
				return r, true
			}
		}
	case *ssa.Call:
		if b, ok := x.Call.Value.(*ssa.Builtin); ok && b.Name() == "append" {
			return rootsInFreeVar(x.Call.Args[0], seen)
		}
	case *ssa.ChangeType:
		return rootsInFreeVar(x.X, seen)
	case *ssa.Convert:
		return rootsInFreeVar(x.X, seen)
	}
	return nil, false
}

func scanRecordAliasing(fns []*ssa.Function) (sites int, bad []aliasFinding, notes []string) {
	for _, fn := range fns {
		for _, b := range fn.Blocks {
			for _, in := range b.Instrs {
				st, ok := in.(*ssa.Store)
				if !ok || !isSliceType(st.Val.Type()) {
					continue
				}
				switch a := st.Addr.(type) {
				case *ssa.FieldAddr:
					// (a) record construction
					sites++
					if fv, ok := rootsInFreeVar(st.Val, map[ssa.Value]bool{}); ok {
						bad = append(bad, aliasFinding{fn, st.Pos(), "record field " + fieldName(a) + " takes a slice rooted in the captured variable " + fv.Name() + ": records built by different invocations share one backing array"})
					} else {
						notes = append(notes, fnShort(fn)+": field "+fieldName(a)+" <- fresh slice")
					}
				case *ssa.FreeVar:
					// (b) captured accumulator: append(self, ...) only
					sites++
					okAppend := false
					if call, ok := st.Val.(*ssa.Call); ok {
						if bi, ok := call.Call.Value.(*ssa.Builtin); ok && bi.Name() == "append" {
							if ld, ok := call.Call.Args[0].(*ssa.UnOp); ok && ld.Op == token.MUL && ld.X == a {
								okAppend = true
							}
						}
					}
					if okAppend {
						notes = append(notes, fnShort(fn)+": captured "+a.Name()+" = append("+a.Name()+", ...)")
					} else {
						bad = append(bad, aliasFinding{fn, st.Pos(), "captured slice variable " + a.Name() + " is assigned " + strings.TrimSpace(st.Val.String()) + " (not append(" + a.Name() + ", ...)): earlier records that hold it are overwritten or lost"})
					}
				}
			}
		}
	}
	return
}

func fieldName(a *ssa.FieldAddr) string {
	t := a.X.Type()
	if p, ok := t.Underlying().(*types.Pointer); ok {
		t = p.Elem()
	}
	if s, ok := t.Underlying().(*types.Struct); ok && a.Field < s.NumFields() {
		return typeName(t) + "." + s.Field(a.Field).Name()
	}
	return "?"
}

func withAnon(f *ssa.Function, out *[]*ssa.Function, seen map[*ssa.Function]bool) {
	if f == nil || seen[f] || f.Blocks == nil {
		return
	}
	seen[f] = true
	*out = append(*out, f)
	for _, a := range f.AnonFuncs {
		withAnon(a, out, seen)
	}
}

func c16Freshness(c *Ctx) { exportFreshness(c, "C16.R6") }

func exportFreshness(c *Ctx, rule string, only ...string) {
	c.Rule(rule, func() {
		eff := c.W.BuildEffects()
		for _, m := range []struct{ name, pkg string }{{"ophost", hostKeeper}, {"opchild", childKeeper}} {
			if len(only) > 0 && !setOf(only...)[m.name] {
				continue
			}
			exp := c.Method(m.pkg, "Keeper", "ExportGenesis")
			var fns []*ssa.Function
			seen := map[*ssa.Function]bool{}
			for f := range eff.Reach(exp) {
				withAnon(f, &fns, seen)
			}
			withAnon(exp, &fns, seen)
			o := c.Ob(rule, m.name+" ExportGenesis: slices placed in exported records are created by the activation that builds the record; captured accumulators are only appended to (no record shares a backing array with another)")
			sites, bad, notes := scanRecordAliasing(fns)
			o.Sites = sites
			for _, n := range notes {
				o.Note(n)
			}
			for _, b := range bad {
				o.Fail(c.W.Pos(b.pos), b.msg+" in "+fnShort(b.fn), nil)
			}
			if sites == 0 {
				o.Fail(c.W.Pos(exp.Pos()), "no record construction or accumulator found under ExportGenesis (anchor lost)", nil)
			}
		}
	})
}
