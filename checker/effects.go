package main

import (
	"fmt"
	"os"
	"go/token"
	"go/types"
	"sort"
	"strings"

	"golang.org/x/tools/go/ssa"
)

// ---------------------------------------------------------------------------
// E4/E6: flow-insensitive effect sites and transitive summaries.

type SiteKind string

const (
	SColl    SiteKind = "coll"     // collections method on a struct field
	SIface   SiteKind = "iface"    // interface invoke
	SDyn     SiteKind = "dyn"      // call of a function value
	SStatic  SiteKind = "static"   // static call (module or external)
	SMapSet  SiteKind = "mapset"   // Go map update
	SMapDel  SiteKind = "mapdel"   // Go map delete
	SGlobal  SiteKind = "global"   // store to a package-level variable
	SGo      SiteKind = "go"       // go statement
	SMapIter SiteKind = "maprange" // range over a Go map
)

type Site struct {
	paramIdx int // SDyn: index of the parameter the called value is taken from (-1: none)
	Fn     *ssa.Function
	Instr  ssa.Instruction
	Kind   SiteKind
	Owner  string // struct type owning the collection / map field
	Field  string // collection / map field name
	Method string // method name (coll, iface)
	Callee string // full short callee name
	Target *ssa.Function
	Pos    token.Pos
}

func (s *Site) Root() *ssa.Function {
	f := s.Fn
	for f.Parent() != nil {
		f = f.Parent()
	}
	return f
}

type Effects struct {
	w         *World
	Sites     []*Site
	byFn      map[*ssa.Function][]*Site
	edges     map[*ssa.Function][]*ssa.Function
	reach     map[*ssa.Function]map[*ssa.Function]bool
	impls     map[string][]*ssa.Function // iface method full name -> module implementations
	implSet   map[*ssa.Function]bool
	callersOf map[*ssa.Function][]*ssa.Function
	owners    map[*ssa.Function][]*ssa.Function
}

func fieldOf(v ssa.Value) (owner types.Type, field string, ok bool) {
	for {
		switch x := v.(type) {
		case *ssa.UnOp:
			if x.Op == token.MUL {
				v = x.X
				continue
			}
		case *ssa.FieldAddr:
			st := deref(x.X.Type()).Underlying().(*types.Struct)
			return deref(x.X.Type()), st.Field(x.Field).Name(), true
		case *ssa.Field:
			st := x.X.Type().Underlying().(*types.Struct)
			return x.X.Type(), st.Field(x.Field).Name(), true
		case *ssa.ChangeType:
			v = x.X
			continue
		case *ssa.MakeInterface:
			v = x.X
			continue
		}
		return nil, "", false
	}
}

func isCollectionsRecv(fn *ssa.Function) bool {
	f := fn
	if o := fn.Origin(); o != nil {
		f = o
	}
	if f.Signature.Recv() == nil {
		return false
	}
	t := deref(f.Signature.Recv().Type())
	if n, ok := t.(*types.Named); ok && n.Obj().Pkg() != nil {
		// an Iterator / KeySetIterator is a read-only cursor over the range that Iterate (a
		// read of the collection, recorded at the Iterate site) opened: its methods
		// (Valid, Next, Key, Value, KeyValue, Close, ...) are not accesses of a collection field
		if strings.HasSuffix(n.Obj().Name(), "Iterator") {
			return false
		}
		return n.Obj().Pkg().Path() == "cosmossdk.io/collections"
	}
	return false
}

func methodOf(name string) string {
	if i := strings.LastIndex(name, ")."); i >= 0 {
		return name[i+2:]
	}
	if i := strings.LastIndex(name, "."); i >= 0 {
		return name[i+1:]
	}
	return name
}

func (w *World) BuildEffects() *Effects {
	w.effOnce.Do(func() { w.eff = w.buildEffects() })
	return w.eff
}

func (w *World) buildEffects() *Effects {
	e := &Effects{w: w, byFn: map[*ssa.Function][]*Site{}, edges: map[*ssa.Function][]*ssa.Function{},
		reach: map[*ssa.Function]map[*ssa.Function]bool{}, impls: map[string][]*ssa.Function{}}
	inScope := map[*ssa.Function]bool{}
	for _, f := range w.Funcs {
		inScope[f] = true
	}
	// module implementations of module-defined interfaces (CHA restricted to the module)
	type imeth struct {
		iface *types.Named
		m     *types.Func
	}
	var imeths []imeth
	for _, p := range w.Pkgs {
		sc := p.Types.Scope()
		for _, n := range sc.Names() {
			tn, ok := sc.Lookup(n).(*types.TypeName)
			if !ok {
				continue
			}
			named, ok := tn.Type().(*types.Named)
			if !ok {
				continue
			}
			it, ok := named.Underlying().(*types.Interface)
			if !ok {
				continue
			}
			for i := 0; i < it.NumMethods(); i++ {
				imeths = append(imeths, imeth{named, it.Method(i)})
			}
		}
	}
	for _, im := range imeths {
		it := im.iface.Underlying().(*types.Interface)
		for _, p := range w.Pkgs {
			sc := p.Types.Scope()
			for _, n := range sc.Names() {
				tn, ok := sc.Lookup(n).(*types.TypeName)
				if !ok || tn.IsAlias() {
					continue
				}
				if _, isI := tn.Type().Underlying().(*types.Interface); isI {
					continue
				}
				for _, T := range []types.Type{tn.Type(), types.NewPointer(tn.Type())} {
					if !types.Implements(T, it) {
						continue
					}
					sel := w.Prog.MethodSets.MethodSet(T).Lookup(im.m.Pkg(), im.m.Name())
					if sel == nil {
						continue
					}
					if fobj, ok := sel.Obj().(*types.Func); ok {
						if fn := w.Prog.FuncValue(fobj); fn != nil && fn.Blocks != nil && inScope[fn] {
							k := shortName(im.m.FullName())
							dup := false
							for _, x := range e.impls[k] {
								if x == fn {
									dup = true
								}
							}
							if !dup {
								e.impls[k] = append(e.impls[k], fn)
							}
						}
					}
					break
				}
			}
		}
	}

	for _, fn := range w.Funcs {
		for _, b := range fn.Blocks {
			for _, in := range b.Instrs {
				// a module function used as a value (passed as a callback, stored in a local):
				// whoever takes the value may call it, so it is an edge for reach and ownership
				if _, isCall := in.(ssa.CallInstruction); true {
					for _, op := range in.Operands(nil) {
						if f2, ok := (*op).(*ssa.Function); ok && f2.Blocks != nil && inScope[f2] {
							if ci, isC := in.(ssa.CallInstruction); isCall && isC && ci.Common().Value == f2 {
								continue // the static callee itself: handled below
							}
							e.edges[fn] = append(e.edges[fn], f2)
						}
					}
				}
				switch in := in.(type) {
				case *ssa.MakeClosure:
					if t, ok := in.Fn.(*ssa.Function); ok {
						e.edges[fn] = append(e.edges[fn], t)
						// a bound method value (x.m used as a function): the synthetic wrapper calls m
						if t.Synthetic != "" && t.Blocks != nil {
							for _, tb := range t.Blocks {
								for _, ti := range tb.Instrs {
									if ci, ok := ti.(ssa.CallInstruction); ok {
										if callee := ci.Common().StaticCallee(); callee != nil && callee.Blocks != nil {
											e.edges[fn] = append(e.edges[fn], callee)
										}
									}
								}
							}
						}
					}
				case *ssa.Go:
					e.add(&Site{Fn: fn, Instr: in, Kind: SGo, Pos: in.Pos()})
				case *ssa.MapUpdate:
					if mk, isMk := in.Map.(*ssa.MakeMap); isMk && localOnlyMap(mk) {
						break // a scratch map of this function: not state
					}
					s := &Site{Fn: fn, Instr: in, Kind: SMapSet, Pos: in.Pos()}
					if o, f, ok := fieldOf(in.Map); ok {
						s.Owner, s.Field = typeName(o), f
					}
					e.add(s)
				case *ssa.Store:
					if g, ok := in.Addr.(*ssa.Global); ok {
						e.add(&Site{Fn: fn, Instr: in, Kind: SGlobal, Field: shortName(g.String()), Pos: in.Pos()})
					}
				case *ssa.Range:
					if _, ok := in.X.Type().Underlying().(*types.Map); ok {
						e.add(&Site{Fn: fn, Instr: in, Kind: SMapIter, Pos: in.Pos()})
					}
				}
				ci, ok := in.(ssa.CallInstruction)
				if !ok {
					continue
				}
				if _, isGo := in.(*ssa.Go); isGo {
					continue
				}
				c := ci.Common()
				pos := in.Pos()
				if !pos.IsValid() {
					pos = c.Pos()
				}
				if c.IsInvoke() {
					name := ifaceCalleeName(c.Method)
					e.add(&Site{Fn: fn, Instr: in, Kind: SIface, Method: c.Method.Name(), Callee: name, Pos: pos})
					for _, t := range e.impls[name] {
						e.edges[fn] = append(e.edges[fn], t)
					}
					continue
				}
				switch v := c.Value.(type) {
				case *ssa.Builtin:
					if v.Name() == "delete" {
						if mk, isMk := c.Args[0].(*ssa.MakeMap); isMk && localOnlyMap(mk) {
							break // a scratch map of this function: not state
						}
						s := &Site{Fn: fn, Instr: in, Kind: SMapDel, Pos: pos}
						if o, f, ok := fieldOf(c.Args[0]); ok {
							s.Owner, s.Field = typeName(o), f
						}
						e.add(s)
					}
				case *ssa.Function:
					// a call of an instantiated generic function is a call of the generic function
					if o := v.Origin(); o != nil && o.Blocks != nil {
						v = o
					}
					name := funcName(v)
					if isCollectionsRecv(v) && len(c.Args) > 0 {
						s := &Site{Fn: fn, Instr: in, Kind: SColl, Method: methodOf(name), Callee: name, Pos: pos}
						if o, f, ok := fieldOf(c.Args[0]); ok {
							s.Owner, s.Field = typeName(o), f
						}
						e.add(s)
						continue
					}
					e.add(&Site{Fn: fn, Instr: in, Kind: SStatic, Callee: name, Method: methodOf(name), Target: v, Pos: pos})
					if v.Blocks != nil {
						e.edges[fn] = append(e.edges[fn], v)
					}
				case *ssa.MakeClosure:
					if t, ok := v.Fn.(*ssa.Function); ok {
						e.edges[fn] = append(e.edges[fn], t)
					}
				default:
					// a function value that can only be one of the closures / functions this very
					// function put into a local (a table of checks, a step list): its possible
					// targets are already edges of fn (MakeClosure / function references), so the
					// call adds no unknown effect
					if localFuncValue(c.Value, 0, map[ssa.Value]bool{}) {
						continue
					}
					s := &Site{Fn: fn, Instr: in, Kind: SDyn, Pos: pos}
					s.paramIdx = -1
					if pr := funcParamRoot(c.Value, 0); pr != nil {
						for k, q := range fn.Params {
							if q == pr {
								s.paramIdx = k
							}
						}
					}
					if o, f, ok := fieldOf(c.Value); ok {
						s.Owner, s.Field = typeName(o), f
					} else {
						s.Field = c.Value.Name()
					}
					e.add(s)
				}
			}
		}
	}
	e.resolveParamReceivers()
	e.dropParamDynCalls()
	sort.SliceStable(e.Sites, func(i, j int) bool { return e.Sites[i].Pos < e.Sites[j].Pos })
	return e
}

// paramRoot: the parameter a value is (a load / conversion of), if any.
func paramRoot(v ssa.Value) *ssa.Parameter {
	for {
		switch x := v.(type) {
		case *ssa.Parameter:
			return x
		case *ssa.UnOp:
			if x.Op == token.MUL {
				v = x.X
				continue
			}
		case *ssa.ChangeType:
			v = x.X
			continue
		case *ssa.MakeInterface:
			v = x.X
			continue
		case *ssa.Alloc:
			// value parameter spilled to a local cell: `t0 = local T (p); *t0 = p`
			for _, r := range *x.Referrers() {
				if st, ok := r.(*ssa.Store); ok && st.Addr == x {
					if p, ok := st.Val.(*ssa.Parameter); ok {
						return p
					}
				}
			}
		}
		return nil
	}
}

// resolveParamReceivers: a collection handed to a generic helper as an argument
// (`k.increaseSequence(ctx, k.NextL1Sequence)`) is accessed inside the helper through a
// parameter.  For tables the access belongs to the call site that chose the field: each
// such site is re-attributed, per static caller, to the caller with the field resolved
// (one level of context per hop, at most three hops).
func (e *Effects) resolveParamReceivers() {
	type pend struct {
		s     *Site
		fn    *ssa.Function
		param *ssa.Parameter
		hops  int
	}
	var work []pend
	for _, s := range e.Sites {
		if s.Kind != SColl || s.Field != "" {
			continue
		}
		ci, ok := s.Instr.(ssa.CallInstruction)
		if !ok || len(ci.Common().Args) == 0 {
			continue
		}
		if p := paramRoot(ci.Common().Args[0]); p != nil {
			work = append(work, pend{s, s.Fn, p, 0})
		}
	}
	var statics []*Site
	for _, s := range e.Sites {
		if s.Kind == SStatic {
			statics = append(statics, s)
		}
	}
	for len(work) > 0 {
		w := work[0]
		work = work[1:]
		idx := -1
		for i, p := range w.fn.Params {
			if p == w.param {
				idx = i
			}
		}
		if idx < 0 || w.hops > 3 {
			continue
		}
		for _, cs := range statics {
			if cs.Target != w.fn {
				continue
			}
			args := cs.Instr.(ssa.CallInstruction).Common().Args
			if idx >= len(args) {
				continue
			}
			if o, f, ok := fieldOf(args[idx]); ok {
				e.add(&Site{Fn: cs.Fn, Instr: w.s.Instr, Kind: SColl, Owner: typeName(o), Field: f, Method: w.s.Method, Callee: w.s.Callee, Pos: w.s.Pos})
			} else if p := paramRoot(args[idx]); p != nil {
				work = append(work, pend{w.s, cs.Fn, p, w.hops + 1})
			}
		}
	}
}

func (e *Effects) add(s *Site) {
	e.Sites = append(e.Sites, s)
	e.byFn[s.Fn] = append(e.byFn[s.Fn], s)
}

// Reach: functions transitively reachable from fn (static calls, closures,
// module implementations of module interfaces).
func (e *Effects) Reach(fn *ssa.Function) map[*ssa.Function]bool {
	if r, ok := e.reach[fn]; ok {
		return r
	}
	r := map[*ssa.Function]bool{}
	var visit func(f *ssa.Function)
	visit = func(f *ssa.Function) {
		if r[f] {
			return
		}
		r[f] = true
		for _, t := range e.edges[f] {
			visit(t)
		}
	}
	visit(fn)
	e.reach[fn] = r
	return r
}

// ReachSites: all sites in functions reachable from fn that satisfy pred.
func (e *Effects) ReachSites(fn *ssa.Function, pred func(*Site) bool) []*Site {
	var out []*Site
	for f := range e.Reach(fn) {
		for _, s := range e.byFn[f] {
			if pred(s) {
				out = append(out, s)
			}
		}
	}
	sort.SliceStable(out, func(i, j int) bool { return out[i].Pos < out[j].Pos })
	return out
}

func (e *Effects) Where(pred func(*Site) bool) []*Site {
	var out []*Site
	for _, s := range e.Sites {
		if pred(s) {
			out = append(out, s)
		}
	}
	return out
}

// Callers: functions (roots of closures) with a static call to target.
// Attribution of effect sites.  Who-may-write / who-may-call tables are expressed over
// ENTRY POINTS, not over the function that happens to contain the call: an entry point is
// an implementation of a module-declared interface method (message handlers, queries,
// bridge hooks, validator-store methods ...) or a function nobody in scope calls (ABCI /
// genesis / ante / lane entry points, keeper API used by the app).  Everything in between
// - closures, private helpers, exported setters and wrappers - is transparent, so
// extracting, inlining, renaming or re-routing helpers never changes a table.  What a
// helper does on the way is decided by the path rules, which inline it.
func (e *Effects) Transparent(f *ssa.Function) bool {
	if f.Parent() != nil {
		return true
	}
	if e.implSet == nil {
		e.implSet = map[*ssa.Function]bool{}
		for _, fs := range e.impls {
			for _, g := range fs {
				e.implSet[g] = true
			}
		}
	}
	return !e.implSet[f]
}

// staticCallers: module functions containing a static call (or closure creation) of f.
func (e *Effects) staticCallers(f *ssa.Function) []*ssa.Function {
	if e.callersOf == nil {
		e.callersOf = map[*ssa.Function][]*ssa.Function{}
		for from, tos := range e.edges {
			for _, to := range tos {
				e.callersOf[to] = append(e.callersOf[to], from)
			}
		}
	}
	return e.callersOf[f]
}

// Owners: the nearest non-transparent ancestors of f in the static call graph
// (f itself if it is not transparent or has no caller in scope).
func (e *Effects) Owners(f *ssa.Function) []*ssa.Function {
	if o, ok := e.owners[f]; ok {
		return o
	}
	seen := map[*ssa.Function]bool{}
	res := map[*ssa.Function]bool{}
	var up func(g *ssa.Function)
	up = func(g *ssa.Function) {
		if seen[g] {
			return
		}
		seen[g] = true
		if g.Parent() != nil {
			up(g.Parent())
			return
		}
		cs := e.staticCallers(g)
		// a straight-line accessor that nothing in scope calls any more (a setter / deleter
		// wrapper left behind when its only caller started using the collection directly) is
		// dead API surface: it cannot run unless the app calls it (A7) and owns nothing
		if len(cs) == 0 && e.Transparent(g) && len(g.Blocks) == 1 && g.Signature.Recv() != nil && !e.isEntryLike(g) {
			return
		}
		if !e.Transparent(g) || len(cs) == 0 {
			res[g] = true
			return
		}
		for _, c := range cs {
			up(c)
		}
	}
	up(f)
	var out []*ssa.Function
	for g := range res {
		out = append(out, g)
	}
	sort.Slice(out, func(i, j int) bool { return out[i].String() < out[j].String() })
	if e.owners == nil {
		e.owners = map[*ssa.Function][]*ssa.Function{}
	}
	e.owners[f] = out
	return out
}

// SiteOwners: the functions a site is attributed to in tables.
func (e *Effects) SiteOwners(s *Site) []*ssa.Function { return e.Owners(s.Fn) }

// OwnerNames: short names of the owners of a site.
func (e *Effects) OwnerNames(s *Site) []string {
	var out []string
	for _, f := range e.SiteOwners(s) {
		out = append(out, fnShort(f))
	}
	return out
}

// Callers: the owners of every function that statically calls target (target's
// own transparent wrappers are looked through as well).
func (e *Effects) Callers(target *ssa.Function) []*ssa.Function {
	seen := map[*ssa.Function]bool{}
	var out []*ssa.Function
	for _, s := range e.Sites {
		if s.Kind == SStatic && s.Target == target {
			for _, r := range e.Owners(s.Fn) {
				if !seen[r] {
					seen[r] = true
					out = append(out, r)
				}
			}
		}
	}
	sort.Slice(out, func(i, j int) bool { return out[i].String() < out[j].String() })
	return out
}

var collWrites = map[string]bool{"Set": true, "Remove": true, "Clear": true, "Next": true}
var collReads = map[string]bool{"Get": true, "Has": true, "Peek": true, "Walk": true, "Iterate": true, "IterateRaw": true,
	"GetName": true, "GetPrefix": true, "KeyCodec": true, "ValueCodec": true,
	// pure helpers of key / range types (no store access)
	"K1": true, "K2": true, "Descending": true, "Prefix": true, "StartInclusive": true, "StartExclusive": true, "EndInclusive": true, "EndExclusive": true, "RangeValues": true,
	"Build": true /* SchemaBuilder.Build in NewKeeper: construction, no store access */}

func (s *Site) IsCollWrite() bool {
	return s.Kind == SColl && !collReads[s.Method]
}

// fnShort: short name of a function; the receiver's pointer-ness is not part of the name
// ("(*pkg.T).M" and "(pkg.T).M" are the same method for tables and reports), so switching a
// type between value and pointer receivers changes nothing.
func fnShort(f *ssa.Function) string {
	if ci := canonOf(f); ci != nil {
		return ci.name
	}
	n := shortName(f.String())
	if strings.HasPrefix(n, "(*") {
		n = "(" + n[2:]
	}
	return n
}

// localFuncValue: v is, on every flow, a closure or function that the enclosing function itself
// created and kept in local storage (variables, local arrays / slices / struct literals).
func localFuncValue(v ssa.Value, depth int, seen map[ssa.Value]bool) bool {
	if depth > 8 {
		return false
	}
	if seen[v] {
		return true
	}
	seen[v] = true
	switch x := v.(type) {
	case *ssa.MakeClosure, *ssa.Function:
		return true
	case *ssa.Call:
		// the result of a module factory that returns a closure it creates (a "step" constructor):
		// the factory is a static callee of the caller, its closure an edge of the factory
		cal := x.Common().StaticCallee()
		if cal == nil || cal.Blocks == nil || cal.Signature.Results().Len() != 1 {
			return false
		}
		for _, b := range cal.Blocks {
			for _, in := range b.Instrs {
				if r, ok := in.(*ssa.Return); ok {
					if len(r.Results) != 1 || !localFuncValue(r.Results[0], depth+1, seen) {
						return false
					}
				}
			}
		}
		return true
	case *ssa.Phi:
		for _, e := range x.Edges {
			if !localFuncValue(e, depth+1, seen) {
				return false
			}
		}
		return true
	case *ssa.ChangeType:
		return localFuncValue(x.X, depth+1, seen)
	case *ssa.Field:
		return localFuncValue(x.X, depth+1, seen)
	case *ssa.Index:
		return localFuncValue(x.X, depth+1, seen)
	case *ssa.UnOp:
		if x.Op != token.MUL {
			return false
		}
		// a load: every store into the local cell it reads must be a local function value
		root := x.X
		for {
			switch a := root.(type) {
			case *ssa.IndexAddr:
				root = a.X
				continue
			case *ssa.FieldAddr:
				root = a.X
				continue
			case *ssa.Slice:
				root = a.X
				continue
			}
			break
		}
		al, ok := root.(*ssa.Alloc)
		if !ok {
			return false
		}
		return allocHoldsLocalFuncs(al, depth+1, seen)
	}
	return false
}

// allocHoldsLocalFuncs: every function-typed value stored (directly or into an element / field)
// of the local cell is itself a local function value, and the cell does not escape to a callee.
func allocHoldsLocalFuncs(al *ssa.Alloc, depth int, seen map[ssa.Value]bool) bool {
	var addrs []ssa.Value = []ssa.Value{al}
	n := 0
	for i := 0; i < len(addrs); i++ {
		refs := addrs[i].Referrers()
		if refs == nil {
			continue
		}
		for _, r := range *refs {
			switch u := r.(type) {
			case *ssa.IndexAddr:
				addrs = append(addrs, u)
			case *ssa.FieldAddr:
				addrs = append(addrs, u)
			case *ssa.Slice:
				addrs = append(addrs, u)
			case *ssa.Store:
				if u.Addr != addrs[i] {
					return false // the cell's address is stored somewhere: escapes
				}
				if _, isFn := u.Val.Type().Underlying().(*types.Signature); isFn {
					n++
					if !localFuncValue(u.Val, depth+1, seen) {
						return false
					}
				}
			case *ssa.UnOp, *ssa.DebugRef, *ssa.Range, *ssa.Next:
			case ssa.CallInstruction:
				if bi, ok := u.Common().Value.(*ssa.Builtin); ok && (bi.Name() == "len" || bi.Name() == "cap") {
					continue
				}
				return false
			default:
				return false
			}
		}
	}
	return n > 0
}

// funcParamRoot: the parameter a called function value is taken from (the parameter itself, an
// element of a slice / array parameter, a field of a struct parameter), if any.
func funcParamRoot(v ssa.Value, depth int) *ssa.Parameter {
	if depth > 8 {
		return nil
	}
	switch x := v.(type) {
	case *ssa.Parameter:
		return x
	case *ssa.UnOp:
		if x.Op == token.MUL {
			return funcParamRoot(x.X, depth+1)
		}
	case *ssa.IndexAddr:
		return funcParamRoot(x.X, depth+1)
	case *ssa.Index:
		return funcParamRoot(x.X, depth+1)
	case *ssa.Field:
		return funcParamRoot(x.X, depth+1)
	case *ssa.FieldAddr:
		return funcParamRoot(x.X, depth+1)
	case *ssa.ChangeType:
		return funcParamRoot(x.X, depth+1)
	case *ssa.Phi:
		var r *ssa.Parameter
		for _, e := range x.Edges {
			p := funcParamRoot(e, depth+1)
			if p == nil || (r != nil && r != p) {
				return nil
			}
			r = p
		}
		return r
	}
	return nil
}

// dropParamDynCalls: a private helper that calls function values it was GIVEN (a runner of an
// ordered list of checks, a visitor) has no effect of its own at that call: the effects are
// those of the functions its callers hand over, which are already edges of those callers.  The
// dynamic-call site is dropped when every static caller passes, at that position, only
// function values it created itself (closures, functions, method values).
func (e *Effects) dropParamDynCalls() {
	callers := map[*ssa.Function][]*Site{}
	for _, s := range e.Sites {
		if s.Kind == SStatic && s.Target != nil {
			callers[s.Target] = append(callers[s.Target], s)
		}
	}
	keep := e.Sites[:0]
	for _, s := range e.Sites {
		if s.Kind != SDyn || s.paramIdx < 0 || len(callers[s.Fn]) == 0 {
			keep = append(keep, s)
			continue
		}
		ok := true
		for _, cs := range callers[s.Fn] {
			ci, isCall := cs.Instr.(ssa.CallInstruction)
			if !isCall || s.paramIdx >= len(ci.Common().Args) {
				ok = false
				break
			}
			a := ci.Common().Args[s.paramIdx]
			if !localFuncValue(a, 0, map[ssa.Value]bool{}) && !localFuncSlice(a) {
				if os.Getenv("OPV_DEBUG") != "" {
					fmt.Fprintf(os.Stderr, "dropParamDynCalls: %s keeps its dynamic call: caller %s passes %T %s\n", s.Fn, cs.Fn, a, a)
				}
				ok = false
				break
			}
		}
		if !ok {
			keep = append(keep, s)
		}
	}
	e.Sites = keep
	kept := map[*Site]bool{}
	for _, s := range keep {
		kept[s] = true
	}
	for f, ss := range e.byFn {
		out := ss[:0]
		for _, s := range ss {
			if kept[s] {
				out = append(out, s)
			}
		}
		e.byFn[f] = out
	}
}

// localFuncSlice: a slice (variadic pack or literal) whose backing array holds only local function values.
func localFuncSlice(v ssa.Value) bool {
	sl, ok := v.(*ssa.Slice)
	if !ok {
		return false
	}
	al, ok := sl.X.(*ssa.Alloc)
	if !ok {
		return false
	}
	n := 0
	for _, r := range *al.Referrers() {
		switch u := r.(type) {
		case *ssa.IndexAddr:
			for _, r2 := range *u.Referrers() {
				if st, ok := r2.(*ssa.Store); ok && st.Addr == u {
					n++
					if !localFuncValue(st.Val, 0, map[ssa.Value]bool{}) {
						return false
					}
				}
			}
		case *ssa.Slice, *ssa.DebugRef:
		default:
			return false
		}
	}
	return n > 0
}

// isEntryLike: methods of module / server types the SDK calls by name (AppModule hooks,
// gRPC servers): never dead, even when nothing in scope calls them.
func (e *Effects) isEntryLike(g *ssa.Function) bool {
	r := g.Signature.Recv()
	if r == nil {
		return false
	}
	n := typeName(r.Type())
	return strings.Contains(n, "AppModule") || strings.Contains(n, "MsgServer") || strings.Contains(n, "Querier") || strings.Contains(n, "Hook")
}
