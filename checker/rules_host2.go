package main

import (
	"fmt"
	"go/types"
	"strings"

	"golang.org/x/tools/go/ssa"
)

// ---------------------------------------------------------------------------
// events

type evtView struct {
	Type  string
	Attrs map[string]*Term
	Order []string
	Dups  []string
}

// eventView decodes sdk.NewEvent(type, attrs...) [.AppendAttributes(attrs...)]*.
func eventView(t *Term) (*evtView, bool) {
	t = strip(t)
	if t.Op != "call" {
		return nil, false
	}
	switch {
	case t.Name == "sdk.NewEvent" && len(t.Args) == 2:
		ty := t.Args[0]
		if !ty.IsConst() {
			return nil, false
		}
		v := &evtView{Type: strings.Trim(ty.Name, `"`), Attrs: map[string]*Term{}}
		l, ok := listOf(t.Args[1])
		if !ok {
			return nil, false
		}
		return v, v.add(l)
	case strings.HasSuffix(t.Name, "(sdk.Event).AppendAttributes") && len(t.Args) == 2:
		v, ok := eventView(t.Args[0])
		if !ok {
			return nil, false
		}
		l, ok := listOf(t.Args[1])
		if !ok {
			return nil, false
		}
		return v, v.add(l)
	}
	return nil, false
}

func (v *evtView) add(l []*Term) bool {
	for _, a := range l {
		a = strip(a)
		var key, val *Term
		switch {
		case a.Op == "call" && a.Name == "sdk.NewAttribute" && len(a.Args) == 2:
			key, val = a.Args[0], a.Args[1]
		case a.Op == "update" || a.Op == "zero":
			// sdk.Attribute{Key: k, Value: v}: what NewAttribute builds (Index stays false)
			fs := fieldsSet(a)
			key, val = fs["Key"], fs["Value"]
			if ix, set := fs["Index"]; set && !ix.IsFalse() {
				return false
			}
			if val == nil {
				val = &Term{Op: "const", Name: `""`, Typ: stringT}
			}
		}
		if key == nil || val == nil || !key.IsConst() {
			return false
		}
		k := strings.Trim(key.Name, `"`)
		if _, dup := v.Attrs[k]; dup {
			v.Dups = append(v.Dups, k)
		}
		v.Attrs[k] = val
		v.Order = append(v.Order, k)
	}
	return true
}

// emitted: all events emitted on a path (index, view).
func emitted(p *Path) (idx []int, views []*evtView, undecoded []int) {
	for i := range p.Events {
		ev := &p.Events[i]
		if ev.Kind != EvCall || effectKind(ev) != "event" {
			continue
		}
		if v, ok := eventView(ev.Call.Args[1]); ok {
			idx = append(idx, i)
			views = append(views, v)
			continue
		}
		// EmitEvents(sdk.Events{e1, e2, ...}): the listed events, in order
		if l, isList := listOf(strip(ev.Call.Args[1])); isList && len(l) > 0 && strings.HasSuffix(ev.Call.Name, ".EmitEvents") {
			all := true
			var vs []*evtView
			for _, e := range l {
				v, ok := eventView(e)
				if !ok {
					all = false
					break
				}
				vs = append(vs, v)
			}
			if all {
				for _, v := range vs {
					idx = append(idx, i)
					views = append(views, v)
				}
				continue
			}
		}
		undecoded = append(undecoded, i)
	}
	return
}

// checkEvent compares an event's attributes with a provenance table (Key strings).
func checkEvent(c *Ctx, o *Obl, p *Path, i int, v *evtView, want map[string]string) {
	where := c.evPos(&p.Events[i])
	for k, w := range want {
		got, ok := v.Attrs[k]
		if !ok {
			o.Fail(where, "event "+v.Type+" lacks attribute "+k, c.Dump(p, i))
			continue
		}
		if g := strip(got).Key(); g != w {
			o.Fail(where, "event "+v.Type+" attribute "+k+" is "+trunc(g, 160)+", want "+w, c.Dump(p, i))
		}
	}
	for k := range v.Attrs {
		if _, ok := want[k]; !ok {
			o.Note("extra attribute " + k)
		}
	}
	if len(v.Dups) > 0 {
		o.Fail(where, "event "+v.Type+" has duplicate attribute keys "+fmt.Sprint(v.Dups), nil)
	}
}

// ---------------------------------------------------------------------------
// C01 — L1 escrow: conservation and per-bridge isolation

var hostPerBridge = []string{"BridgeConfigs", "BatchInfos", "NextL1Sequences", "TokenPairs", "OutputProposals", "NextOutputIndexes", "ProvenWithdrawals"}

// newBridgeIdOn: the id CreateBridge allocated on this path = the first result of
// IncreaseNextBridgeId as returned on this very path (Sequence.Next()#n.0, or the
// literal start value on the first-use path).  Path-specific on purpose: a
// constant that merely equals the start value is not "the new id" on the
// paths where the allocator returned the stored counter.
func newBridgeIdOn(p *Path) func(*Term) bool {
	want := ""
	for i := range p.Events {
		ev := &p.Events[i]
		if ev.Kind == EvExit && ev.Call != nil && strings.HasSuffix(ev.Call.Name, "Keeper).IncreaseNextBridgeId") && ev.Res != nil && ev.Res.Op == "tuple" && len(ev.Res.Args) == 2 {
			want = strip(ev.Res.Args[0]).String()
		}
	}
	return func(t *Term) bool { return want != "" && strip(t).String() == want }
}

// bridgeKeyOf: the bridge-id component of a collections key / range argument.
func bridgeKeyOf(k *Term) *Term {
	k = strip(k)
	if k.Op == "call" {
		switch {
		case k.Name == "collections.Join" && len(k.Args) == 2:
			return strip(k.Args[0])
		case k.Name == "collections.NewPrefixedPairRange" && len(k.Args) == 1:
			return strip(k.Args[0])
		case strings.HasSuffix(k.Name, ").Descending") && len(k.Args) == 1:
			return bridgeKeyOf(k.Args[0])
		}
	}
	return k
}

func propC01(c *Ctx) {
	c.Clauses = append(c.Clauses,
		"funds move only at three sites: deposit SendCoins, finalize SendCoins, creation-fee FundCommunityPool (who-may-call table over every bank/community-pool mutator)",
		"operands: deposit sender->BridgeAddress(req.BridgeId) of NewCoins(req.Amount) under IsPositive; finalize BridgeAddress(req.BridgeId)->decoded req.To of the proven coin; fee from the decoded creator of Params.RegistrationFee",
		"success implies the transfer succeeded (or amount not positive for deposits)",
		"isolation: every per-bridge collection is keyed by uint64 or Pair[uint64,_]; in every handler every collection key, BridgeAddress and L2Denom argument is req.BridgeId (CreateBridge: the freshly allocated id)",
		"accounts are created only by CreateBridge for BridgeAddress(new id)")
	c.NotDecided = append(c.NotDecided, "the numeric balance equation over histories: it follows from the clauses above under A2 (atomic messages) and A4 (bank keeper moves exactly the stated coins) and is not computed here")
	c.Assumptions = append(c.Assumptions, "A1", "A2", "A3", "A4", "A5 (BridgeAddress injective)", "A10")
	eff := c.W.BuildEffects()
	// per-bridge isolation of the claim records across a genesis export (a shared backing array
	// would move one bridge's paid claims to another: a second payout from the first escrow)
	defer exportFreshness(c, "C01.R9", "ophost")

	c.Rule("C01.R1", func() {
		o := c.Ob("C01.R1", "ophost fund-moving call sites = {InitiateTokenDeposit.SendCoins, FinalizeTokenWithdrawal.SendCoins, CreateBridge.FundCommunityPool}")
		allowed := setOf("(ophost/keeper.MsgServer).InitiateTokenDeposit|SendCoins", "(ophost/keeper.MsgServer).FinalizeTokenWithdrawal|SendCoins", "(ophost/keeper.MsgServer).CreateBridge|FundCommunityPool")
		seen := map[string]bool{}
		for _, s := range eff.Where(func(s *Site) bool {
			return s.Kind == SIface && (strings.HasPrefix(s.Callee, "(ophost/types.BankKeeper).") || strings.HasPrefix(s.Callee, "(ophost/types.CommunityPoolKeeper).")) && !ifaceReads[s.Method]
		}) {
			o.Sites++
			for _, r := range eff.OwnerNames(s) {
				k := r + "|" + s.Method
				o.Note(k + " @" + c.W.Pos(s.Pos) + attributedNote(s, r))
				if !allowed[k] {
					o.Fail(c.W.Pos(s.Pos), "funds move outside deposit/finalize/creation-fee: "+s.Callee+" in "+r+attributedNote(s, r), nil)
				}
				if seen[k] {
					o.Fail(c.W.Pos(s.Pos), "second fund-moving site "+k, nil)
				}
				seen[k] = true
			}
		}
		for a := range allowed {
			if !seen[a] {
				o.Fail("-", "expected site "+a+" not found (floor 3)", nil)
			}
		}
		// any interface with bank-like mutators reachable in ophost that is not the typed keeper
		o2 := c.Ob("C01.R1", "no other interface in x/ophost exposes coin-moving methods")
		for _, s := range eff.Where(func(s *Site) bool {
			return s.Kind == SIface && strings.Contains(fnShort(s.Root()), "ophost/") &&
				(strings.HasPrefix(s.Method, "SendCoins") || s.Method == "MintCoins" || s.Method == "BurnCoins" || strings.HasPrefix(s.Method, "DelegateCoins") || strings.HasPrefix(s.Method, "UndelegateCoins") || s.Method == "InputOutputCoins")
		}) {
			o2.Sites++
			if !strings.HasPrefix(s.Callee, "(ophost/types.BankKeeper).") {
				o2.Fail(c.W.Pos(s.Pos), "coin-moving call through "+s.Callee, nil)
			}
		}
	})

	c.Rule("C01.R2", func() {
		// deposit
		fn := hostHandler(c, "InitiateTokenDeposit")
		o := c.Ob("C01.R2", "InitiateTokenDeposit: SendCoins(decoded req.Sender -> BridgeAddress(req.BridgeId), NewCoins(req.Amount)) under IsPositive")
		o3 := c.Ob("C01.R3", "InitiateTokenDeposit: success implies SendCoins succeeded or amount not positive")
		for _, p := range c.Paths(fn, hostPO) {
			o.Paths++
			o3.Paths++
			o.Facts += p.NFacts()
			o3.Facts += p.NFacts()
			sends := p.Find(func(ev *Event) bool { return ev.Kind == EvCall && isCall(ev, "(ophost/types.BankKeeper).SendCoins") })
			for _, i := range sends {
				o.Sites++
				a := p.Events[i].Call.Args
				where := c.evPos(&p.Events[i])
				if d := decodedFrom(a[2]); d == nil || d.Key() != "req.Sender" {
					o.Fail(where, "deposit debits "+trunc(strip(a[2]).Key(), 120)+", want the decoded req.Sender", c.Dump(p, i))
				}
				if strip(a[3]).Key() != "ophost/types.BridgeAddress(req.BridgeId)" {
					o.Fail(where, "deposit credits "+strip(a[3]).Key()+", want BridgeAddress(req.BridgeId)", c.Dump(p, i))
				}
				if !coinsAre(a[4], "req.Amount") {
					o.Fail(where, "deposit moves "+trunc(strip(a[4]).Key(), 120)+", want NewCoins(req.Amount)", c.Dump(p, i))
				}
				if !p.HasFact(i, func(at *Term, pol bool) bool { return pol && at.Key() == "(sdk.Coin).IsPositive(req.Amount)" }) {
					o.Fail(where, "transfer not guarded by req.Amount.IsPositive()", c.Dump(p, i))
				}
			}
			if p.OK() && !p.Panic {
				okSend := len(sends) == 1 && p.factIs(len(p.Events), "("+p.Events[sends[0]].Call.String()+" == nil)", true)
				notPos := p.HasFact(len(p.Events), func(at *Term, pol bool) bool { return !pol && at.Key() == "(sdk.Coin).IsPositive(req.Amount)" })
				if !okSend && !notPos {
					o3.Fail(c.W.Pos(fn.Pos()), "deposit succeeds without a successful escrow transfer although the amount may be positive", c.Dump(p, -1))
				}
				if len(sends) > 1 {
					o3.Fail(c.W.Pos(fn.Pos()), "more than one transfer on a success path", c.Dump(p, -1))
				}
			}
		}
		if o.Sites == 0 {
			o.Fail(c.W.Pos(fn.Pos()), "no SendCoins reached", nil)
		}
		// finalize (operands are also C03.R2)
		fw := hostHandler(c, "FinalizeTokenWithdrawal")
		of := c.Ob("C01.R2", "FinalizeTokenWithdrawal: SendCoins(BridgeAddress(req.BridgeId) -> decoded req.To, NewCoins(NewCoin(req.Amount.Denom, req.Amount.Amount)))")
		of3 := c.Ob("C01.R3", "FinalizeTokenWithdrawal: success implies exactly one successful payout")
		for _, p := range c.Paths(fw, hostPO) {
			of.Paths++
			of3.Paths++
			of.Facts += p.NFacts()
			of3.Facts += p.NFacts()
			sends := p.Find(func(ev *Event) bool { return ev.Kind == EvCall && isCall(ev, "(ophost/types.BankKeeper).SendCoins") })
			for _, i := range sends {
				of.Sites++
				a := p.Events[i].Call.Args
				where := c.evPos(&p.Events[i])
				if strip(a[2]).Key() != "ophost/types.BridgeAddress(req.BridgeId)" {
					of.Fail(where, "pays from "+strip(a[2]).Key()+", want BridgeAddress(req.BridgeId)", c.Dump(p, i))
				}
				if d := decodedFrom(a[3]); d == nil || d.Key() != "req.To" {
					of.Fail(where, "pays to "+trunc(strip(a[3]).Key(), 120), c.Dump(p, i))
				}
				if !coinsAre(a[4], "sdk.NewCoin(req.Amount.Denom, req.Amount.Amount)") && !coinsAre(a[4], "req.Amount") {
					of.Fail(where, "pays "+trunc(strip(a[4]).Key(), 120), c.Dump(p, i))
				}
			}
			if p.OK() && !p.Panic {
				if len(sends) != 1 || !p.factIs(len(p.Events), "("+p.Events[sends[0]].Call.String()+" == nil)", true) {
					of3.Fail(c.W.Pos(fw.Pos()), "withdrawal finalization succeeds without exactly one successful payout", c.Dump(p, -1))
				}
			}
		}
		if of.Sites == 0 {
			of.Fail(c.W.Pos(fw.Pos()), "no SendCoins reached", nil)
		}
		// fee
		cb := hostHandler(c, "CreateBridge")
		ofee := c.Ob("C01.R2", "CreateBridge: FundCommunityPool(Params.RegistrationFee, decoded req.Creator)")
		for _, p := range c.Paths(cb, hostPO) {
			ofee.Paths++
			ofee.Facts += p.NFacts()
			for _, i := range p.Find(func(ev *Event) bool { return ev.Kind == EvCall && isCall(ev, "CommunityPoolKeeper).FundCommunityPool") }) {
				ofee.Sites++
				a := p.Events[i].Call.Args
				if strip(a[2]).Key() != "(collections.Item[V]).Get(ms.Keeper.Params, ctx).0.RegistrationFee" {
					ofee.Fail(c.evPos(&p.Events[i]), "fee amount is "+trunc(strip(a[2]).Key(), 120), c.Dump(p, i))
				}
				if d := decodedFrom(a[3]); d == nil || d.Key() != "req.Creator" {
					ofee.Fail(c.evPos(&p.Events[i]), "fee payer is "+trunc(strip(a[3]).Key(), 120), c.Dump(p, i))
				}
			}
		}
		if ofee.Sites == 0 {
			ofee.Fail(c.W.Pos(cb.Pos()), "no FundCommunityPool reached", nil)
		}
	})

	c.Rule("C01.R4", func() {
		// (a) key types
		kp := c.W.ByPath[modPath+"/x/"+hostKeeper]
		if kp == nil {
			panic(anchorErr{"ophost/keeper package"})
		}
		ko := kp.Types.Scope().Lookup("Keeper")
		if ko == nil {
			panic(anchorErr{"ophost Keeper type"})
		}
		st := ko.Type().Underlying().(*types.Struct)
		oa := c.Ob("C01.R4", "every collections.Map field of the ophost Keeper is keyed by uint64 or Pair[uint64, _]")
		nMaps := 0
		for i := 0; i < st.NumFields(); i++ {
			f := st.Field(i)
			n, ok := f.Type().(*types.Named)
			if !ok || n.Obj().Pkg() == nil || n.Obj().Pkg().Path() != "cosmossdk.io/collections" || n.Obj().Name() != "Map" {
				continue
			}
			nMaps++
			oa.Sites++
			kt := n.TypeArgs().At(0)
			ks := types.TypeString(kt, nil)
			if ks != "uint64" && !strings.HasPrefix(ks, "cosmossdk.io/collections.Pair[uint64,") {
				oa.Fail(c.W.Pos(f.Pos()), "per-bridge collection "+f.Name()+" has key type "+ks+" (no bridge id component)", nil)
			}
			found := false
			for _, n := range hostPerBridge {
				if n == f.Name() {
					found = true
				}
			}
			if !found {
				oa.Fail(c.W.Pos(f.Pos()), "collection "+f.Name()+" is not in the per-bridge table (extend the table after review)", nil)
			}
		}
		if nMaps != len(hostPerBridge) {
			oa.Fail(c.W.Pos(ko.Pos()), fmt.Sprintf("%d Map fields, table lists %d", nMaps, len(hostPerBridge)), nil)
		}
		// (b)+(c) handlers
		hs := c.Handlers("ophost")
		total := 0
		for _, hn := range sortedKeys(hs) {
			fn := hs[hn]
			o := c.Ob("C01.R4", "ophost."+hn+": every per-bridge key, BridgeAddress and L2Denom argument is the addressed bridge id")
			isID := func(t *Term) bool { return strip(t).Key() == "req.BridgeId" }
			for _, p := range c.Paths(fn, PO{Params: hParams, NoInline: []string{".Validate"}, Callbacks: true}) {
				if hn == "CreateBridge" {
					isID = newBridgeIdOn(p)
				}
				o.Paths++
				o.Facts += p.NFacts()
				for i := range p.Events {
					ev := &p.Events[i]
					if f, m, ok := collOp(ev); ok {
						per := false
						for _, n := range hostPerBridge {
							if n == f {
								per = true
							}
						}
						if !per || len(ev.Call.Args) < 3 {
							continue
						}
						o.Sites++
						total++
						bk := bridgeKeyOf(ev.Call.Args[2])
						if !isID(bk) {
							o.Fail(c.evPos(ev), f+"."+m+" addressed with bridge component "+trunc(bk.Key(), 120)+" (not the message's bridge id)", c.Dump(p, i))
						}
					}
				}
				// derivation calls anywhere in event terms
				for i := range p.Events {
					ev := &p.Events[i]
					var ts []*Term
					if ev.Call != nil {
						ts = append(ts, ev.Call)
					}
					for _, t := range ts {
						t.Walk(func(x *Term) bool {
							if x.Op == "call" && (x.Name == "ophost/types.BridgeAddress" || x.Name == "ophost/types.L2Denom") {
								o.Sites++
								if !isID(x.Args[0]) {
									o.Fail(c.evPos(ev), x.Name+" applied to "+trunc(strip(x.Args[0]).Key(), 100)+" (not the message's bridge id)", c.Dump(p, i))
								}
							}
							return true
						})
					}
				}
			}
		}
		of := c.Ob("C01.R4", "per-bridge access sites examined (floor 30)")
		of.Sites = total
		if total < 30 {
			of.Fail("-", fmt.Sprintf("only %d per-bridge access sites were examined", total), nil)
		}
	})

	c.Rule("C01.R8", func() { layoutRule(c, "C01.R8", []string{"BridgeAddress"}) })

	c.Rule("C01.R6", func() {
		hs := c.Handlers("ophost")
		for _, hn := range sortedKeys(hs) {
			errorDiscipline(c, "C01.R6", "ophost."+hn, hs[hn], PO{Params: hParams, Visits: 3})
		}
	})

	c.Rule("C01.R7", func() {
		fw := hostHandler(c, "FinalizeTokenWithdrawal")
		o := c.Ob("C01.R7", "FinalizeTokenWithdrawal: exactly one finalize_token_withdrawal event on success with request provenance")
		for _, p := range c.Paths(fw, hostPO) {
			o.Paths++
			if !p.OK() || p.Panic {
				continue
			}
			idx, views, und := emitted(p)
			if len(und) > 0 || len(idx) != 1 || views[0].Type != "finalize_token_withdrawal" {
				o.Fail(c.W.Pos(fw.Pos()), fmt.Sprintf("success emits %d decodable events", len(idx)), c.Dump(p, -1))
				continue
			}
			o.Sites++
			checkEvent(c, o, p, idx[0], views[0], map[string]string{
				"bridge_id":    "strconv.FormatUint(req.BridgeId, 10)",
				"output_index": "strconv.FormatUint(req.OutputIndex, 10)",
				"l2_sequence":  "strconv.FormatUint(req.Sequence, 10)",
				"from":         "req.From",
				"to":           "req.To",
				"l1_denom":     "req.Amount.Denom",
				"l2_denom":     "ophost/types.L2Denom(req.BridgeId, req.Amount.Denom)",
				"amount":       "(sdkmath.Int).String(req.Amount.Amount)",
			})
		}
		if o.Sites == 0 {
			o.Fail(c.W.Pos(fw.Pos()), "no success path", nil)
		}
	})

	c.Rule("C01.R5", func() {
		o := c.Ob("C01.R5", "ophost account creation (NewAccount/SetAccount) only in CreateBridge, for BridgeAddress(new id)")
		for _, s := range eff.Where(func(s *Site) bool {
			return s.Kind == SIface && strings.HasPrefix(s.Callee, "(ophost/types.AccountKeeper).") && (s.Method == "SetAccount" || s.Method == "NewAccount" || s.Method == "NewAccountWithAddress" || s.Method == "RemoveAccount")
		}) {
			o.Sites++
			for _, r := range eff.OwnerNames(s) {
				if r != "(ophost/keeper.MsgServer).CreateBridge" {
					o.Fail(c.W.Pos(s.Pos), s.Method+" in "+r+attributedNote(s, r), nil)
				}
			}
		}
		if o.Sites < 2 {
			o.Fail("-", "expected NewAccount + SetAccount in CreateBridge (floor 2)", nil)
		}
		cb := hostHandler(c, "CreateBridge")
		for _, p := range c.Paths(cb, hostPO) {
			o.Paths++
			isNewBridgeId := newBridgeIdOn(p)
			for _, i := range p.Find(func(ev *Event) bool { return ev.Kind == EvCall && isCall(ev, "AccountKeeper).NewAccount") }) {
				acc := p.Events[i].Call.Args[2]
				ok := false
				acc.Walk(func(x *Term) bool {
					if x.Op == "call" && x.Name == "ophost/types.BridgeAddress" && isNewBridgeId(x.Args[0]) {
						ok = true
					}
					return !ok
				})
				if !ok {
					// the account object is a local cell; check the enter event of the constructor instead
					ok = len(p.Find(func(ev *Event) bool {
						return ev.Kind == EvEnter && isCall(ev, "NewBridgeAccountWithAddress") && strip(ev.Call.Args[0]).Op == "call" && strip(ev.Call.Args[0]).Name == "ophost/types.BridgeAddress" && isNewBridgeId(strip(ev.Call.Args[0]).Args[0])
					})) > 0
				}
				if !ok {
					o.Fail(c.evPos(&p.Events[i]), "account created for "+trunc(acc.Key(), 160)+", want BridgeAddress(new bridge id)", c.Dump(p, i))
				}
			}
		}
	})
}

// ---------------------------------------------------------------------------
// C10 — L1 deposits: gap-free per-bridge sequences, real bridges, faithful events

func propC10(c *Ctx) {
	c.Clauses = append(c.Clauses,
		"ExportGenesis: every Bridge record carries the getter's next_l1_sequence (stored value with a nil read error, or the default 1)",
		"every handler other than CreateBridge reaches a per-bridge store write or a bank transfer only on paths where BridgeConfigs.Get(req.BridgeId) succeeded (bridge exists)",
		"each successful deposit calls IncreaseNextL1Sequence(req.BridgeId) exactly once; the helper stores loaded+1 (default 1) under the same key and returns the loaded value; NextL1Sequences has no other runtime writer",
		"exactly one initiate_token_deposit event per success, attribute provenance equal to the request and to the value moved; the response carries the same sequence",
		"TokenPairs.Set only when Has(same key) is false; key Join(req.BridgeId, L2Denom(req.BridgeId, denom)), value denom; no remover")
	c.NotDecided = append(c.NotDecided, "gap-freeness as a statement over histories (follows from +1-per-success under A2/A3)")
	c.Assumptions = append(c.Assumptions, "A1", "A2", "A3", "A10")
	fn := hostHandler(c, "InitiateTokenDeposit")

	c.Rule("C10.R6", func() { layoutRule(c, "C10.R6", []string{"L2Denom"}) })

	// the per-bridge sequence survives an export: the exported counter of every bridge is what
	// the getter answers - the stored value, or the default 1 for a bridge that has had no
	// deposit (a raw store read or a table of the stored entries answers 0 for such a bridge and
	// the re-imported chain numbers its first deposit 0)
	c.Rule("C10.R7", func() {
		exp := c.Method(hostKeeper, "Keeper", "ExportGenesis")
		o := c.Ob("C10.R7", "ophost ExportGenesis: every Bridge record carries next_l1_sequence = the stored counter of that bridge or the default 1")
		for _, p := range c.Paths(exp, PO{Params: []string{"k", "ctx"}, Callbacks: true, Depth: 9}) {
			o.Paths++
			if p.Panic || len(p.RetVal) != 1 {
				continue
			}
			elems, ok := listOf(fieldsSet(p.RetVal[0])["Bridges"])
			if !ok {
				continue
			}
			for _, e := range elems {
				bs := fieldsSet(e)
				o.Sites++
				id := ""
				if v := bs["BridgeId"]; v != nil {
					id = v.Key()
				}
				v := bs["NextL1Sequence"]
				if v == nil {
					o.Fail(c.W.Pos(exp.Pos()), "exported Bridge record leaves NextL1Sequence unset (0)", c.Dump(p, -1))
				} else if v.Key() != "1" && !strings.Contains(v.Key(), "Get(k.NextL1Sequences, ctx, "+id+")") {
					o.Fail(c.W.Pos(exp.Pos()), "Bridge.NextL1Sequence is "+trunc(v.Key(), 120)+", want the getter's value for "+id, c.Dump(p, -1))
				} else if sv := strip(v); sv.Op == "extract" && sv.Name == "0" && !p.factIs(len(p.Events), "("+sv.Args[0].String()+".1 == nil)", true) {
					// the stored value counts only when the read succeeded (a not-found read answers 0)
					o.Fail(c.W.Pos(exp.Pos()), "Bridge.NextL1Sequence is the raw store read "+trunc(v.Key(), 100)+" without its error being nil (0 for a bridge without deposits)", c.Dump(p, -1))
				}
			}
		}
		if o.Sites == 0 {
			o.Fail(c.W.Pos(exp.Pos()), "no exported Bridge record found (floor 1)", nil)
		}
	})

	c.Rule("C10.R1", func() {
		hs := c.Handlers("ophost")
		for _, hn := range sortedKeys(hs) {
			if hn == "CreateBridge" {
				continue
			}
			h := hs[hn]
			o := c.Ob("C10.R1", "ophost."+hn+": per-bridge writes and bank transfers only for an existing bridge")
			for _, p := range c.Paths(h, PO{Params: hParams, NoInline: []string{".Validate"}}) {
				o.Paths++
				o.Facts += p.NFacts()
				for i := range p.Events {
					ev := &p.Events[i]
					k := effectKind(ev)
					per := false
					if strings.HasPrefix(k, "coll:") {
						f, _, _ := collOp(ev)
						for _, n := range hostPerBridge {
							if n == f {
								per = true
							}
						}
					}
					if strings.HasPrefix(k, "keeper:(ophost/types.BankKeeper)") {
						per = true
					}
					if !per {
						continue
					}
					o.Sites++
					exists := p.HasFact(i, func(a *Term, pol bool) bool {
						x := eqOther(a, "nil")
						return pol && x != nil && x.Key() == "(collections.Map[K, V]).Get(ms.Keeper.BridgeConfigs, ctx, req.BridgeId).1"
					})
					if !exists {
						o.Fail(c.evPos(ev), "effect "+k+" reachable for a bridge id whose config was never loaded successfully (non-existent bridge)", c.Dump(p, i))
					}
				}
			}
		}
	})

	c.Rule("C10.R2", func() {
		o := c.Ob("C10.R2", "InitiateTokenDeposit: exactly one IncreaseNextL1Sequence(req.BridgeId) on every success path")
		for _, p := range c.Paths(fn, hostPO) {
			o.Paths++
			o.Facts += p.NFacts()
			inc := p.Find(func(ev *Event) bool { return ev.Kind == EvEnter && isCall(ev, "Keeper).IncreaseNextL1Sequence") })
			for _, i := range inc {
				o.Sites++
				if a := p.Events[i].Call.Args; len(a) < 3 || a[2].Key() != "req.BridgeId" {
					o.Fail(c.evPos(&p.Events[i]), "sequence increased for bridge "+a[2].Key(), c.Dump(p, i))
				}
			}
			if p.OK() && !p.Panic && len(inc) != 1 {
				o.Fail(c.W.Pos(fn.Pos()), fmt.Sprintf("success path with %d sequence increments", len(inc)), c.Dump(p, -1))
			}
		}
		h := c.Method(hostKeeper, "Keeper", "IncreaseNextL1Sequence")
		o2 := c.Ob("C10.R2", "IncreaseNextL1Sequence: stores (loaded|1)+1 under bridgeId and returns the loaded value")
		for _, p := range c.Paths(h, PO{Params: []string{"k", "ctx", "bridgeId"}}) {
			o2.Paths++
			o2.Facts += p.NFacts()
			sets := collEvents(p, len(p.Events), "NextL1Sequences", "Set")
			if !p.OK() || p.Panic {
				continue
			}
			if len(sets) != 1 {
				o2.Fail(c.W.Pos(h.Pos()), "success without exactly one NextL1Sequences.Set", c.Dump(p, -1))
				continue
			}
			o2.Sites++
			s := p.Events[sets[0]].Call
			ret := p.Ret[0]
			if s.Args[2].Key() != "bridgeId" {
				o2.Fail(c.evPos(&p.Events[sets[0]]), "stored under key "+s.Args[2].Key(), c.Dump(p, -1))
			}
			want := binopPlus1(ret)
			if s.Args[3].Key() != want {
				o2.Fail(c.evPos(&p.Events[sets[0]]), "stores "+s.Args[3].Key()+" but returns "+ret.Key()+" (want stored = returned + 1)", c.Dump(p, -1))
			}
			rk := ret.Key()
			if rk != "1" && rk != "(collections.Map[K, V]).Get(k.NextL1Sequences, ctx, bridgeId).0" {
				o2.Fail(c.W.Pos(h.Pos()), "returns "+rk+", want the loaded counter (default 1)", c.Dump(p, -1))
			}
			if rk == "1" && !p.HasFact(len(p.Events), func(a *Term, pol bool) bool {
				return pol && a.Op == "call" && a.Name == "errors.Is" && a.Args[1].Key() == "collections.ErrNotFound"
			}) {
				o2.Fail(c.W.Pos(h.Pos()), "default 1 used although the counter exists", c.Dump(p, -1))
			}
		}
		c.writersTable("C10.R2", "ophost/keeper.Keeper", "NextL1Sequences", setOf("Set", "Remove", "Clear"),
			[]string{"(ophost/keeper.MsgServer).InitiateTokenDeposit", "(ophost.AppModule).InitGenesis"})
		// (which helper performs the write is not constrained: the writers table above is over
		// entry points and the handler rule decides the stored value)
	})

	c.Rule("C10.R5", func() {
		h := c.Method(hostKeeper, "Keeper", "IncreaseNextBridgeId")
		def := c.constVal(hostTypes, "DefaultBridgeIdStart")
		o := c.Ob("C10.R5", "IncreaseNextBridgeId: returns the pre-increment id; the first bridge gets DefaultBridgeIdStart and default+1 is stored")
		for _, p := range c.Paths(h, PO{Params: []string{"k", "ctx"}}) {
			o.Paths++
			o.Facts += p.NFacts()
			if !p.OK() || p.Panic {
				continue
			}
			o.Sites++
			nx := collEvents(p, len(p.Events), "NextBridgeId", "Next")
			sets := collEvents(p, len(p.Events), "NextBridgeId", "Set")
			if len(nx) != 1 {
				o.Fail(c.W.Pos(h.Pos()), "success without exactly one Sequence.Next", c.Dump(p, -1))
				continue
			}
			nv := p.Events[nx[0]].Call.String() + ".0"
			isDef := p.HasFact(len(p.Events), func(a *Term, pol bool) bool { return pol && eqAtomS(a, nv, "0") })
			notDef := p.HasFact(len(p.Events), func(a *Term, pol bool) bool { return !pol && eqAtomS(a, nv, "0") })
			r := p.Ret[0]
			switch {
			case isDef:
				if r.Key() != def || len(sets) != 1 || p.Events[sets[0]].Call.Args[2].Key() != binopPlus1(r) {
					o.Fail(c.W.Pos(h.Pos()), "first use must return "+def+" and store "+def+"+1", c.Dump(p, -1))
				}
			case notDef:
				if r.String() != nv || len(sets) != 0 {
					o.Fail(c.W.Pos(h.Pos()), "must return the value Sequence.Next produced", c.Dump(p, -1))
				}
			default:
				o.Fail(c.W.Pos(h.Pos()), "a fresh counter (collections default 0) is not distinguished: the first bridge would get id 0", c.Dump(p, -1))
			}
		}
		if o.Sites == 0 {
			o.Fail(c.W.Pos(h.Pos()), "no success path", nil)
		}
	})

	c.Rule("C10.R3", func() {
		o := c.Ob("C10.R3", "InitiateTokenDeposit: one initiate_token_deposit event with request provenance; response carries the same sequence")
		for _, p := range c.Paths(fn, hostPO) {
			o.Paths++
			o.Facts += p.NFacts()
			if !p.OK() || p.Panic {
				continue
			}
			idx, views, und := emitted(p)
			if len(und) > 0 {
				o.Undecide("event construction not decodable at " + c.evPos(&p.Events[und[0]]))
				continue
			}
			if len(idx) != 1 || views[0].Type != "initiate_token_deposit" {
				o.Fail(c.W.Pos(fn.Pos()), fmt.Sprintf("success path emits %d events (want exactly one initiate_token_deposit)", len(idx)), c.Dump(p, -1))
				continue
			}
			o.Sites++
			// the sequence term: result of the increment on this path
			var seq *Term
			for _, i := range p.Find(func(ev *Event) bool { return ev.Kind == EvExit && isCall2(ev, "Keeper).IncreaseNextL1Sequence") }) {
				r := p.Events[i].Res
				if r.Op == "tuple" {
					seq = r.Args[0]
				}
			}
			if seq == nil {
				o.Fail(c.W.Pos(fn.Pos()), "no sequence increment result on a success path", c.Dump(p, -1))
				continue
			}
			checkEvent(c, o, p, idx[0], views[0], map[string]string{
				"bridge_id":   "strconv.FormatUint(req.BridgeId, 10)",
				"l1_sequence": "strconv.FormatUint(" + seq.Key() + ", 10)",
				"from":        "req.Sender",
				"to":          "req.To",
				"l1_denom":    "req.Amount.Denom",
				"l2_denom":    "ophost/types.L2Denom(req.BridgeId, req.Amount.Denom)",
				"amount":      "(sdkmath.Int).String(req.Amount.Amount)",
				"data":        "encoding/hex.EncodeToString(req.Data)",
			})
			if got := project(p.RetVal[0], "Sequence", nil); got.String() != seq.String() {
				o.Fail(c.W.Pos(fn.Pos()), "response.Sequence is "+trunc(got.Key(), 120)+", want the allocated sequence "+seq.Key(), c.Dump(p, -1))
			}
		}
		if o.Sites == 0 {
			o.Fail(c.W.Pos(fn.Pos()), "no success path with an event", nil)
		}
	})

	c.Rule("C10.R4", func() {
		o := c.Ob("C10.R4", "InitiateTokenDeposit: TokenPairs.Set(Join(req.BridgeId, L2Denom(..)), denom) only when Has(same key) is false")
		wantKey := "collections.Join(req.BridgeId, ophost/types.L2Denom(req.BridgeId, req.Amount.Denom))"
		for _, p := range c.Paths(fn, hostPO) {
			o.Paths++
			o.Facts += p.NFacts()
			for _, i := range collEvents(p, len(p.Events), "TokenPairs", "Set") {
				o.Sites++
				ev := &p.Events[i]
				if strip(ev.Call.Args[2]).Key() != wantKey || strip(ev.Call.Args[3]).Key() != "req.Amount.Denom" {
					o.Fail(c.evPos(ev), "token pair stored as "+trunc(strip(ev.Call.Args[2]).Key(), 140)+" -> "+strip(ev.Call.Args[3]).Key(), c.Dump(p, i))
				}
				has := collEvents(p, i, "TokenPairs", "Has")
				if len(has) == 0 {
					o.Fail(c.evPos(ev), "token pair written without a preceding existence check", c.Dump(p, i))
					continue
				}
				h := p.Events[has[len(has)-1]].Call
				if h.Args[2].String() != ev.Call.Args[2].String() {
					o.Fail(c.evPos(ev), "existence check uses a different key than the write", c.Dump(p, i))
				}
				if !p.factIs(i, h.String()+".0", false) || !p.factIs(i, "("+h.String()+".1 == nil)", true) {
					o.Fail(c.evPos(ev), "token pair can be overwritten (write not restricted to Has == false)", c.Dump(p, i))
				}
			}
			if p.OK() && !p.Panic {
				has := collEvents(p, len(p.Events), "TokenPairs", "Has")
				sets := collEvents(p, len(p.Events), "TokenPairs", "Set")
				if len(has) == 1 && p.factIs(len(p.Events), p.Events[has[0]].Call.String()+".0", false) && len(sets) != 1 {
					o.Fail(c.W.Pos(fn.Pos()), "first deposit of a denom succeeds without registering the token pair", c.Dump(p, -1))
				}
				// every accepted deposit - of any amount, zero included - leaves its pair registered
				if len(has) != 1 || strip(p.Events[has[0]].Call.Args[2]).Key() != wantKey {
					o.Fail(c.W.Pos(fn.Pos()), fmt.Sprintf("a deposit succeeds with %d existence probes of its own token pair (want exactly 1): the announced L2 denom may stay unregistered", len(has)), c.Dump(p, -1))
				}
			}
		}
		if o.Sites == 0 {
			o.Fail(c.W.Pos(fn.Pos()), "no TokenPairs.Set reached", nil)
		}
		c.writersTable("C10.R4", "ophost/keeper.Keeper", "TokenPairs", setOf("Set", "Remove", "Clear"), []string{"(ophost/keeper.MsgServer).InitiateTokenDeposit", "(ophost.AppModule).InitGenesis"})
		eff := c.W.BuildEffects()
		o3 := c.Ob("C10.R4", "callers of SetTokenPair = {InitiateTokenDeposit, InitGenesis}")
		al := setOf("(ophost/keeper.MsgServer).InitiateTokenDeposit", "(ophost.AppModule).InitGenesis")
		for _, f := range eff.Callers(c.Method(hostKeeper, "Keeper", "SetTokenPair")) {
			o3.Sites++
			if !al[fnShort(f)] {
				o3.Fail(c.W.Pos(f.Pos()), "called from "+fnShort(f), nil)
			}
		}
	})
}

func isCall2(ev *Event, sub string) bool {
	return ev.Call != nil && strings.Contains(ev.Call.Name, sub)
}

func binopPlus1(t *Term) string {
	if v, ok := t.Int(); ok {
		return fmt.Sprint(v + 1)
	}
	return "(" + t.Key() + " + 1)"
}

// ---------------------------------------------------------------------------
// C11 — output oracle: contiguous increasing log; suffix-only deletion

func propC11(c *Ctx) {
	c.Clauses = append(c.Clauses,
		"ProposeOutput succeeds only with req.OutputIndex equal to the incremented counter and (index 1 or req.L2BlockNumber strictly greater than the previous output's); the stored output records request root/L2 number and ctx height/time",
		"DeleteOutput requires req.OutputIndex < next; deletes exactly indices req.OutputIndex, +1, ... up to next through the finality-refusing deleter, aborting on error; then sets next := req.OutputIndex",
		"NextOutputIndexes.Set sites = {IncreaseNextOutputIndex, DeleteOutput rollback, SetNextOutputIndex (genesis)}")
	c.NotDecided = append(c.NotDecided, "contiguity as an invariant over histories (follows from the step rules under A2/A3); loop behaviour beyond the unrolling bound (A10)")
	c.Assumptions = append(c.Assumptions, "A1", "A2", "A3", "A9", "A10")

	c.Rule("C11.R1", func() {
		fn := hostHandler(c, "ProposeOutput")
		o := c.Ob("C11.R1", "ProposeOutput: next index, strictly larger L2 block number, faithful stored record")
		for _, p := range c.Paths(fn, hostPO) {
			o.Paths++
			o.Facts += p.NFacts()
			sets := collEvents(p, len(p.Events), "OutputProposals", "Set")
			if p.OK() && !p.Panic && len(sets) != 1 {
				o.Fail(c.W.Pos(fn.Pos()), fmt.Sprintf("success path with %d output stores", len(sets)), c.Dump(p, -1))
			}
			for _, i := range sets {
				o.Sites++
				ev := &p.Events[i]
				where := c.evPos(ev)
				k := strip(ev.Call.Args[2])
				if k.Op != "call" || k.Name != "collections.Join" || !isNextOutputIndex(k.Args[1]) || k.Args[0].Key() != "req.BridgeId" {
					o.Fail(where, "stored under "+trunc(k.Key(), 140), c.Dump(p, i))
					continue
				}
				idx := strip(k.Args[1])
				// counter incremented under the same bridge
				inc := collEvents(p, i, "NextOutputIndexes", "Set")
				if len(inc) != 1 || p.Events[inc[0]].Call.Args[2].Key() != "req.BridgeId" || p.Events[inc[0]].Call.Args[3].Key() != binopPlus1(idx) {
					o.Fail(where, "output stored without incrementing NextOutputIndexes[req.BridgeId] to index+1", c.Dump(p, i))
				}
				// index equality
				if !p.HasFact(i, func(a *Term, pol bool) bool { return pol && eqAtom(a, idx.Key(), "req.OutputIndex") }) {
					o.Fail(where, "output stored without req.OutputIndex == next index", c.Dump(p, i))
				}
				// L2 block number ordering
				first := idx.Key() == "1" || p.HasFact(i, func(a *Term, pol bool) bool { return pol && eqAtom(a, idx.Key(), "1") })
				if !first {
					prevKey := "(collections.Map[K, V]).Get(ms.Keeper.OutputProposals, ctx, collections.Join(req.BridgeId, (" + idx.Key() + " - 1))).0.L2BlockNumber"
					rel, nf := p.Relation(i, keyIs("req.L2BlockNumber"), keyIs(prevKey))
					if nf == 0 || rel != rGT {
						o.Fail(where, "output accepted with relation(req.L2BlockNumber, previous L2BlockNumber) = "+relString(rel)+fmt.Sprintf(" (%d facts); want {>}", nf), c.Dump(p, i))
					}
				}
				v := ev.Call.Args[3]
				for f, w := range map[string]string{
					"OutputRoot":    "req.OutputRoot",
					"L2BlockNumber": "req.L2BlockNumber",
					"L1BlockTime":   "(sdk.Context).BlockTime(ctx)",
					"L1BlockNumber": "(sdk.Context).BlockHeight(ctx)",
				} {
					if got := strip(project(v, f, nil)).Key(); got != w {
						o.Fail(where, "stored "+f+" is "+trunc(got, 120)+", want "+w, c.Dump(p, i))
					}
				}
			}
		}
		if o.Sites == 0 {
			o.Fail(c.W.Pos(fn.Pos()), "no OutputProposals.Set reached", nil)
		}
	})

	c.Rule("C11.R2", func() { deleteOutputRule(c, "C11.R2") })
	c.Rule("C11.R7", func() { oneFinalityClock(c, "C11.R7") })

	// independence between bridges: every enumeration of the output log is confined to ONE
	// bridge's prefix - the range is NewPrefixedPairRange(<a bridge id parameter>), possibly
	// descending; ranges without a lower bound (NewPrefixUntilPairRange) or unprefixed walks
	// run into other bridges' outputs
	c.Rule("C11.R6", func() {
		o := c.Ob("C11.R6", "every walk over OutputProposals is confined to one bridge's prefix (NewPrefixedPairRange of a bridge id)")
		seenFn := map[*ssa.Function]bool{}
		for _, st := range c.W.BuildEffects().Where(func(s *Site) bool {
			return s.Kind == SColl && s.Field == "OutputProposals" && (s.Method == "Walk" || s.Method == "Iterate")
		}) {
			fn := st.Fn
			for fn.Parent() != nil {
				fn = fn.Parent()
			}
			if seenFn[fn] {
				continue
			}
			seenFn[fn] = true
			for _, p := range c.Paths(fn, PO{Visits: 2}) {
				o.Paths++
				for i := range p.Events {
					ev := &p.Events[i]
					f, m, ok := collOp(ev)
					if !ok || f != "OutputProposals" || (m != "Walk" && m != "Iterate") {
						continue
					}
					o.Sites++
					rng := strip(ev.Call.Args[2])
					for rng.Op == "call" && strings.HasSuffix(rng.Name, ").Descending") && len(rng.Args) == 1 {
						rng = strip(rng.Args[0])
					}
					if rng.Op != "call" || rng.Name != "collections.NewPrefixedPairRange" || len(rng.Args) != 1 {
						o.Fail(c.evPos(ev), fnShort(fn)+" enumerates OutputProposals over "+trunc(rng.Key(), 120)+": not confined to one bridge's prefix", c.Dump(p, i))
						continue
					}
					if id := strip(rng.Args[0]); id.Op != "param" && !strings.HasSuffix(id.Key(), ".BridgeId") && !strings.HasPrefix(id.Key(), "opaque:cbarg0(") {
						o.Fail(c.evPos(ev), fnShort(fn)+" enumerates the outputs of bridge "+trunc(id.Key(), 80)+" (want a bridge id it was given)", c.Dump(p, i))
					}
				}
			}
		}
		if o.Sites < 2 {
			o.Fail("-", fmt.Sprintf("only %d output-log enumerations found (floor 2: forward and reverse iteration)", o.Sites), nil)
		}
	})

	c.Rule("C11.R5", func() {
		type evt struct {
			handler, typ string
			want         map[string]string
		}
		for _, e := range []evt{
			{"ProposeOutput", "propose_output", map[string]string{"proposer": "req.Proposer", "bridge_id": "strconv.FormatUint(req.BridgeId, 10)", "l2_block_number": "strconv.FormatUint(req.L2BlockNumber, 10)", "output_root": "encoding/hex.EncodeToString(req.OutputRoot)"}},
			{"DeleteOutput", "delete_output", map[string]string{"challenger": "req.Challenger", "bridge_id": "strconv.FormatUint(req.BridgeId, 10)", "output_index": "strconv.FormatUint(req.OutputIndex, 10)"}},
		} {
			fn := hostHandler(c, e.handler)
			o := c.Ob("C11.R5", e.handler+": exactly one "+e.typ+" event on success with request provenance")
			for _, p := range c.Paths(fn, PO{Params: hParams, NoInline: []string{".Validate"}, Visits: 3}) {
				o.Paths++
				if !p.OK() || p.Panic {
					continue
				}
				idx, views, und := emitted(p)
				if len(und) > 0 || len(idx) != 1 || views[0].Type != e.typ {
					o.Fail(c.W.Pos(fn.Pos()), fmt.Sprintf("success emits %d decodable events", len(idx)), c.Dump(p, -1))
					continue
				}
				o.Sites++
				checkEvent(c, o, p, idx[0], views[0], e.want)
				if e.handler == "ProposeOutput" {
					if got := strip(views[0].Attrs["output_index"]); got == nil || !isNextOutputIndexKey(got.Key()) {
						o.Fail(c.evPos(&p.Events[idx[0]]), "output_index attribute is not the allocated index", c.Dump(p, -1))
					}
				}
			}
			if o.Sites == 0 {
				o.Fail(c.W.Pos(fn.Pos()), "no success path", nil)
			}
		}
	})

	c.Rule("C11.R3", func() {
		c.writersTable("C11.R3", "ophost/keeper.Keeper", "NextOutputIndexes", setOf("Set", "Remove", "Clear"),
			[]string{"(ophost/keeper.MsgServer).ProposeOutput", "(ophost/keeper.MsgServer).DeleteOutput", "(ophost.AppModule).InitGenesis"})
		eff := c.W.BuildEffects()
		// SetNextOutputIndex is a plain setter (transparent wrapper): who writes through it is
		// decided by the writers table above; C11.R2 decides the value of the rollback
		o := c.Ob("C11.R3", "IncreaseNextOutputIndex is called only from ProposeOutput")
		for _, f := range eff.Callers(c.Method(hostKeeper, "Keeper", "IncreaseNextOutputIndex")) {
			o.Sites++
			if fnShort(f) != "(ophost/keeper.MsgServer).ProposeOutput" {
				o.Fail(c.W.Pos(f.Pos()), "IncreaseNextOutputIndex called from "+fnShort(f), nil)
			}
		}
		h := c.Method(hostKeeper, "Keeper", "IncreaseNextOutputIndex")
		o2 := c.Ob("C11.R3", "IncreaseNextOutputIndex: stores (loaded|1)+1 under bridgeId and returns the loaded value")
		for _, p := range c.Paths(h, PO{Params: []string{"k", "ctx", "bridgeId"}}) {
			o2.Paths++
			o2.Facts += p.NFacts()
			if !p.OK() || p.Panic {
				continue
			}
			sets := collEvents(p, len(p.Events), "NextOutputIndexes", "Set")
			if len(sets) != 1 {
				o2.Fail(c.W.Pos(h.Pos()), "success without exactly one Set", c.Dump(p, -1))
				continue
			}
			o2.Sites++
			s := p.Events[sets[0]].Call
			if s.Args[2].Key() != "bridgeId" || s.Args[3].Key() != binopPlus1(p.Ret[0]) {
				o2.Fail(c.evPos(&p.Events[sets[0]]), "stores "+s.Args[3].Key()+" under "+s.Args[2].Key()+" but returns "+p.Ret[0].Key(), c.Dump(p, -1))
			}
			if rk := p.Ret[0].Key(); rk != "1" && rk != "(collections.Map[K, V]).Get(k.NextOutputIndexes, ctx, bridgeId).0" {
				o2.Fail(c.W.Pos(h.Pos()), "returns "+rk, c.Dump(p, -1))
			}
		}
	})
}

var _ *ssa.Function

func isNextOutputIndexKey(k string) bool {
	return k == "strconv.FormatUint(1, 10)" || k == "strconv.FormatUint((collections.Map[K, V]).Get(ms.Keeper.NextOutputIndexes, ctx, req.BridgeId).0, 10)"
}

// deleteOutputRule: the DeleteOutput handler removes exactly the suffix [req.OutputIndex, next)
// of the ADDRESSED bridge and rolls that bridge's counter - no other key - back to
// req.OutputIndex (C11: suffix-only deletion; C05: a deletion can never move another bridge's
// cursor under its final outputs).
func deleteOutputRule(c *Ctx, id string) {
		fn := hostHandler(c, "DeleteOutput")
		o := c.Ob(id, "DeleteOutput: guard index < next; deletes the contiguous suffix from req.OutputIndex; rolls the counter back to req.OutputIndex")
		nOK := 0
		nextOf := func(p *Path) *Term {
			for _, i := range p.Find(func(ev *Event) bool { return ev.Kind == EvExit && isCall2(ev, "Keeper).GetNextOutputIndex") }) {
				if r := p.Events[i].Res; r.Op == "tuple" {
					return r.Args[0]
				}
			}
			return nil
		}
		for _, p := range c.Paths(fn, PO{Params: hParams, NoInline: []string{".Validate"}, Visits: 4}) {
			o.Paths++
			o.Facts += p.NFacts()
			dels := p.Find(func(ev *Event) bool { return ev.Kind == EvEnter && isCall(ev, "Keeper).DeleteOutputProposal") })
			for k, i := range dels {
				o.Sites++
				a := p.Events[i].Call.Args
				// index of the k-th deletion = req.OutputIndex + k, compared as linear forms so that
				// `i := idx; i < next; i++` and `off := 0; off < next-idx; off++ ... idx+off` are one shape
				wantIdx := fmt.Sprintf("req.OutputIndex + %d", k)
				wantLin := linForm{c: int64(k), k: map[string]int64{"req.OutputIndex": 1}}
				if a[2].Key() != "req.BridgeId" || !lin(a[3]).equal(wantLin) {
					o.Fail(c.evPos(&p.Events[i]), fmt.Sprintf("deletion #%d removes (%s, %s), want (req.BridgeId, %s)", k, a[2].Key(), a[3].Key(), wantIdx), c.Dump(p, i))
				}
				nx := nextOf(p)
				if nx == nil {
					o.Fail(c.evPos(&p.Events[i]), "deletion before the next index was loaded", c.Dump(p, i))
					continue
				}
				rel, nf := p.RelationLin(i, a[3], nx)
				if nf == 0 || rel != rLT {
					o.Fail(c.evPos(&p.Events[i]), fmt.Sprintf("deletion #%d of index %s not guarded by index < next (relation %s)", k, wantIdx, relString(rel)), c.Dump(p, i))
				}
			}
			if !p.OK() || p.Panic {
				continue
			}
			nOK++
			nx := nextOf(p)
			if nx == nil || len(dels) == 0 {
				o.Fail(c.W.Pos(fn.Pos()), "success without loading the next index or without deleting anything", c.Dump(p, -1))
				continue
			}
			// loop exit: req.OutputIndex + m is not < next
			exitT := mk("bin", "+", p.Events[dels[0]].Call.Args[3], intTerm(int64(len(dels))))
			rel, nf := p.RelationLin(len(p.Events), exitT, nx)
			if nf == 0 || rel&rLT != 0 {
				o.Fail(c.W.Pos(fn.Pos()), "loop can exit before reaching the next index (suffix not fully deleted)", c.Dump(p, -1))
			}
			// every deleter error aborts
			for _, i := range p.Find(func(ev *Event) bool { return ev.Kind == EvExit && isCall2(ev, "Keeper).DeleteOutputProposal") }) {
				if r := p.Events[i].Res; !r.IsNil() && !p.factIs(len(p.Events), "("+r.String()+" == nil)", true) {
					o.Fail(c.W.Pos(fn.Pos()), "DeleteOutputProposal error does not abort the message", c.Dump(p, -1))
				}
			}
			sets := collEvents(p, len(p.Events), "NextOutputIndexes", "Set")
			if len(sets) != 1 || p.Events[sets[0]].Call.Args[2].Key() != "req.BridgeId" || p.Events[sets[0]].Call.Args[3].Key() != "req.OutputIndex" {
				o.Fail(c.W.Pos(fn.Pos()), "counter not rolled back to exactly req.OutputIndex under req.BridgeId", c.Dump(p, -1))
			} else if len(dels) > 0 && sets[0] < dels[len(dels)-1] {
				o.Fail(c.W.Pos(fn.Pos()), "counter rolled back before the deletions finished", c.Dump(p, -1))
			}
		}
		if nOK == 0 {
			o.Fail(c.W.Pos(fn.Pos()), "no success path within the unrolling bound", nil)
		}
}
