package main

import (
	"fmt"
	"os"
	"strings"
	"testing"
)

func TestDbgErr(t *testing.T) {
	b, _ := os.ReadFile("/tmp/m.txt")
	ov, err := buildOverlay([]string{strings.TrimRight(string(b), "\n")})
	if err != nil {
		t.Fatal(err)
	}
	base, err := Load(LoadOpts{})
	if err != nil {
		t.Fatal(err)
	}
	w, err := LoadVariant(base, ov)
	if err != nil {
		t.Fatal(err)
	}
	c := NewCtx(w, "C09", "quick", 1)
	fn := c.Handlers("opchild")["SetBridgeInfo"]
	for _, p := range c.Paths(fn, PO{Params: hParams}) {
		fmt.Println("PATH", p.MayOK(), p.OK(), len(p.Events), p.Ret[len(p.Ret)-1].Op)
		if !p.MayOK() {
			continue
		}
		for i := range p.Events {
			ev := &p.Events[i]
			if ev.Kind == EvCall && strings.Contains(ev.Call.Name, "StringToBytes") {
				fmt.Println("CALL", ev.Call.Typ, errIndexes(ev.Call.Typ), p.factIs(len(p.Events), errNilAtom(ev.Call, 1), true), p.factIs(len(p.Events), errNilAtom(ev.Call, 1), false), ev.Call.String()[:80])
			}
		}
	}
}
