package main

import (
	"fmt"
	"go/ast"
	"go/parser"
	"go/token"
	"go/types"
	"path/filepath"
	"sort"
	"strings"

	"golang.org/x/tools/go/packages"
	"golang.org/x/tools/go/ssa"
	"golang.org/x/tools/go/ssa/ssautil"
)

// LoadVariant re-type-checks the module packages of base with some files
// replaced (overlay: absolute path -> new content) and builds a fresh SSA
// program.  Dependencies keep their already loaded export data.  This is what
// the selftest witnesses and the sensitivity audit use: ~1 s per variant
// instead of a full go list + load.
func LoadVariant(base *World, overlay map[string][]byte) (*World, error) {
	// topological order of module packages
	inMod := map[string]*packages.Package{}
	for _, p := range base.Pkgs {
		inMod[p.PkgPath] = p
	}
	var order []*packages.Package
	state := map[string]int{}
	var visit func(p *packages.Package)
	visit = func(p *packages.Package) {
		if state[p.PkgPath] != 0 {
			return
		}
		state[p.PkgPath] = 1
		var imps []string
		for ip := range p.Imports {
			imps = append(imps, ip)
		}
		sort.Strings(imps)
		for _, ip := range imps {
			if q, ok := inMod[ip]; ok {
				visit(q)
			}
		}
		state[p.PkgPath] = 2
		order = append(order, p)
	}
	for _, p := range base.Pkgs {
		visit(p)
	}
	// files the overlay adds (not part of any loaded package): they join the package of their directory
	known := map[string]bool{}
	dirPkg := map[string]string{}
	for _, p := range order {
		for _, f := range p.CompiledGoFiles {
			known[f] = true
			dirPkg[filepath.Dir(f)] = p.PkgPath
		}
	}
	added := map[string][]string{}
	for f := range overlay {
		if !known[f] && strings.HasSuffix(f, ".go") {
			if pp, ok := dirPkg[filepath.Dir(f)]; ok {
				added[pp] = append(added[pp], f)
			}
		}
	}
	for _, fs := range added {
		sort.Strings(fs)
	}
	// which packages are affected: those with an overlaid file, and their reverse deps
	affected := map[string]bool{}
	for _, p := range order {
		if len(added[p.PkgPath]) > 0 {
			affected[p.PkgPath] = true
		}
		for _, f := range p.CompiledGoFiles {
			if _, ok := overlay[f]; ok {
				affected[p.PkgPath] = true
			}
		}
		for ip := range p.Imports {
			if affected[ip] {
				affected[p.PkgPath] = true
			}
		}
	}
	// every package of the loaded import graph, by path (for imports a variant adds)
	// (only DIRECT imports of module packages: export data of indirect
	// dependencies is partial and must not be used for new imports)
	all := map[string]*packages.Package{}
	for _, p := range base.Pkgs {
		for path, q := range p.Imports {
			all[path] = q
		}
	}
	fresh := map[string]*packages.Package{}
	var firstErr error
	for _, p := range order {
		if !affected[p.PkgPath] {
			fresh[p.PkgPath] = p
			continue
		}
		var files []*ast.File
		for i, fname := range p.CompiledGoFiles {
			if src, ok := overlay[fname]; ok {
				f, err := parser.ParseFile(base.Fset, fname, src, parser.ParseComments|parser.SkipObjectResolution)
				if err != nil {
					return nil, fmt.Errorf("parse %s: %v", fname, err)
				}
				files = append(files, f)
			} else {
				files = append(files, p.Syntax[i])
			}
		}
		for _, fname := range added[p.PkgPath] {
			f, err := parser.ParseFile(base.Fset, fname, overlay[fname], parser.ParseComments|parser.SkipObjectResolution)
			if err != nil {
				return nil, fmt.Errorf("parse %s: %v", fname, err)
			}
			files = append(files, f)
		}
		np := &packages.Package{ID: p.ID, Name: p.Name, PkgPath: p.PkgPath, GoFiles: p.GoFiles, CompiledGoFiles: append(append([]string(nil), p.CompiledGoFiles...), added[p.PkgPath]...),
			Imports: map[string]*packages.Package{}, Syntax: files, Fset: base.Fset, TypesSizes: p.TypesSizes, Module: p.Module}
		for ip, q := range p.Imports {
			if f, ok := fresh[ip]; ok {
				np.Imports[ip] = f
			} else {
				np.Imports[ip] = q
			}
		}
		info := &types.Info{Types: map[ast.Expr]types.TypeAndValue{}, Defs: map[*ast.Ident]types.Object{}, Uses: map[*ast.Ident]types.Object{},
			Implicits: map[ast.Node]types.Object{}, Instances: map[*ast.Ident]types.Instance{}, Scopes: map[ast.Node]*types.Scope{},
			Selections: map[*ast.SelectorExpr]*types.Selection{}, FileVersions: map[*ast.File]string{}}
		var errs []string
		cfg := &types.Config{
			Importer: importerFn(func(path string) (*types.Package, error) {
				if q, ok := np.Imports[path]; ok && q.Types != nil {
					return q.Types, nil
				}
				if path == "unsafe" {
					return types.Unsafe, nil
				}
				if q, ok := all[path]; ok && q.Types != nil {
					np.Imports[path] = q
					return q.Types, nil
				}
				return nil, fmt.Errorf("import %q not available", path)
			}),
			Sizes: p.TypesSizes,
			Error: func(err error) { errs = append(errs, err.Error()) },
		}
		if p.Module != nil && p.Module.GoVersion != "" {
			cfg.GoVersion = "go" + p.Module.GoVersion
		}
		tp, _ := cfg.Check(p.PkgPath, base.Fset, files, info)
		if len(errs) > 0 {
			for _, e := range errs {
				if strings.Contains(e, "not available") || strings.Contains(e, "could not import") {
					// the variant imports a package outside the loaded graph: full load
					return Load(LoadOpts{Overlay: overlay, GOARCH: base.GOARCH})
				}
			}
			if firstErr == nil {
				firstErr = fmt.Errorf("load/type errors:\n  %s: %s", p.PkgPath, strings.Join(errs[:min(3, len(errs))], "; "))
			}
			return nil, firstErr
		}
		np.Types, np.TypesInfo = tp, info
		fresh[p.PkgPath] = np
	}
	var pkgs []*packages.Package
	for _, p := range base.Pkgs {
		pkgs = append(pkgs, fresh[p.PkgPath])
	}
	w := &World{RepoDir: base.RepoDir, Fset: base.Fset, Pkgs: pkgs, ByPath: map[string]*packages.Package{}, SSA: map[string]*ssa.Package{}, GOARCH: base.GOARCH}
	for _, p := range pkgs {
		w.ByPath[p.PkgPath] = p
	}
	prog, spkgs := ssautil.Packages(pkgs, ssa.InstantiateGenerics)
	for i, sp := range spkgs {
		if sp == nil {
			return nil, fmt.Errorf("no SSA for %s", pkgs[i].PkgPath)
		}
		sp.Build()
		w.SSA[pkgs[i].PkgPath] = sp
	}
	w.Prog = prog
	w.collectFuncs()
	return w, nil
}

type importerFn func(path string) (*types.Package, error)

func (f importerFn) Import(path string) (*types.Package, error) { return f(path) }

var _ = token.NoPos
