package main

import (
	"fmt"
	"strings"

	"golang.org/x/tools/go/ssa"
)

// C20 — L2 mempool admission: fee floor, lane matching, redundant-relay filter

func anonOf(c *Ctx, parent *ssa.Function, n int) *ssa.Function {
	if parent == nil || len(parent.AnonFuncs) <= n {
		panic(anchorErr{fmt.Sprintf("closure #%d of %v", n, parent)})
	}
	return parent.AnonFuncs[n]
}

// returnedFunc: the function a constructor returns as a value - a closure, a bound
// method value (x.m) or a named function - found through the constructor's return
// instruction, not by closure position or name.  recv reports whether the function takes
// the bound receiver as its first parameter.
func returnedFunc(c *Ctx, ctor *ssa.Function) (fn *ssa.Function, recv bool) {
	for _, b := range ctor.Blocks {
		for _, in := range b.Instrs {
			ret, ok := in.(*ssa.Return)
			if !ok || len(ret.Results) != 1 {
				continue
			}
			v := ret.Results[0]
			for {
				if ct, ok := v.(*ssa.ChangeType); ok {
					v = ct.X
					continue
				}
				break
			}
			switch x := v.(type) {
			case *ssa.Function:
				return x, false
			case *ssa.MakeClosure:
				f := x.Fn.(*ssa.Function)
				if f.Synthetic == "" {
					return f, false
				}
				// bound method wrapper: its body calls the method with the bound receiver
				for _, fb := range f.Blocks {
					for _, fi := range fb.Instrs {
						if ci, ok := fi.(ssa.CallInstruction); ok {
							if callee := ci.Common().StaticCallee(); callee != nil && callee.Blocks != nil {
								return callee, true
							}
						}
					}
				}
			}
		}
	}
	panic(anchorErr{"function value returned by " + ctor.String()})
}

func laneParams(recv bool) []string {
	if recv {
		return []string{"h", "ctx", "tx"}
	}
	return []string{"ctx", "tx"}
}

func propC20(c *Ctx) {
	c.Clauses = append(c.Clauses,
		"no fallible call of the fee checker loses its error on an admitting path (the chain floor cannot drop out through a failed params read)",
		"fee gate: the insufficient-fee error is reachable only with IsCheckTx, a non-zero combined floor and !fee.IsAnyGTE(required) (any-denom predicate); required = computeRequiredFees(tx gas, CombinedMinGasPrices(node prices, chain prices)); outside CheckTx or with an all-zero floor nothing is enforced",
		"CombinedMinGasPrices: per chain price, a zero node price adds the chain price, a node price strictly below the chain price (relation {<}) is raised by the difference, otherwise unchanged (pointwise maximum); computeRequiredFees charges Ceil(price * gas) per denom",
		"system lane: true only for exactly one message that is MsgUpdateOracle, or one authz MsgExec whose GetMessages succeeded with exactly one MsgUpdateOracle",
		"free lane: true only when an element of FeeWhitelist(ctx) equals the bech32 of FeePayer() or of a non-nil FeeGranter(); every error yields false",
		"redundant relay: active iff (IsCheckTx or IsReCheckTx) and not simulate; ErrRedundantTx iff every MsgFinalizeTokenDeposit answered NOOP and there is at least one; otherwise next is called")
	c.NotDecided = append(c.NotDecided, "the Ceil/RoundInt/MulInt arithmetic and Coins.IsAnyGTE themselves (SDK numerics)")
	c.Assumptions = append(c.Assumptions, "A1", "A7 (the app wires these decorators and lanes)", "A10")

	c.Rule("C20.R1", func() {
		fn := c.Method("opchild/ante", "MempoolFeeChecker", "CheckTxFeeWithMinGasPrices")
		o := c.Ob("C20.R1", "CheckTxFeeWithMinGasPrices: reject iff CheckTx and floor non-zero and no fee denom covers the requirement")
		// the required-fee computation is inlined (it may or may not be a function of its own)
		po := PO{Params: []string{"mfd", "ctx", "tx"}, Visits: 3, NoInline: []string{"CombinedMinGasPrices"}, Pure: []string{"CombinedMinGasPrices"}}
		o3 := c.Ob("C20.R1", "computeRequiredFees: per denom NewCoin(denom, RoundInt(Ceil(price * gas)))")
		nRej, nOK := 0, 0
		feeTx := "tx.(sdk.FeeTx).0"
		for _, p := range c.Paths(fn, po) {
			o.Paths++
			o.Facts += p.NFacts()
			if p.Panic {
				continue
			}
			check := p.HasFact(len(p.Events), func(a *Term, pol bool) bool { return pol && a.Key() == "(sdk.Context).IsCheckTx(ctx)" })
			notCheck := p.HasFact(len(p.Events), func(a *Term, pol bool) bool { return !pol && a.Key() == "(sdk.Context).IsCheckTx(ctx)" })
			// the floor used on this path
			var floor *Term
			zeroFloor, nonZeroFloor := false, false
			covered, notCovered := false, false
			var req *Term
			for i := range p.Events {
				ev := &p.Events[i]
				if ev.Kind != EvFact || ev.Cond.Op != "call" {
					continue
				}
				if strings.HasSuffix(ev.Cond.Name, "(sdk.DecCoins).IsZero") {
					floor = ev.Cond.Args[0]
					zeroFloor, nonZeroFloor = ev.Pol, !ev.Pol
				}
				if strings.HasSuffix(ev.Cond.Name, "(sdk.Coins).IsAnyGTE") {
					req = ev.Cond.Args[1]
					covered, notCovered = ev.Pol, !ev.Pol
					if ev.Cond.Args[0].Key() != "(sdk.FeeTx).GetFee("+feeTx+")" {
						o.Fail(c.evPos(ev), "compares "+trunc(ev.Cond.Args[0].Key(), 80)+" instead of the transaction fee", c.Dump(p, -1))
					}
				}
				if strings.HasSuffix(ev.Cond.Name, "(sdk.Coins).IsAllGTE") || strings.HasSuffix(ev.Cond.Name, "(sdk.Coins).IsAllGT") {
					o.Fail(c.evPos(ev), "fee compared with an all-denom predicate ("+methodOf(ev.Cond.Name)+"): a fee paying one sufficient denom would be rejected", c.Dump(p, -1))
				}
			}
			if floor != nil {
				o.Sites++
				k := floor.Key()
				withKeeper := "opchild/ante.CombinedMinGasPrices((sdk.Context).MinGasPrices(ctx), (opchild/types.AnteKeeper).MinGasPrices(mfd.keeper, ctx).0)"
				if k != withKeeper && !(k == "(sdk.Context).MinGasPrices(ctx)" && p.HasFact(len(p.Events), func(a *Term, pol bool) bool { return pol && eqAtom(a, "mfd.keeper", "nil") })) {
					o.Fail(c.W.Pos(fn.Pos()), "floor is "+trunc(k, 200)+", want CombinedMinGasPrices(ctx.MinGasPrices(), keeper.MinGasPrices())", c.Dump(p, -1))
				}
			}
			if req != nil && floor != nil {
				o3.Sites++
				if why := requiredFeeShape(p, req, floor.Key(), "(sdk.FeeTx).GetGas("+feeTx+")"); why != "" {
					o3.Fail(c.W.Pos(fn.Pos()), why, c.Dump(p, -1))
				}
			}
			org := ""
			if !p.OK() {
				org = errOrigin(p.Ret[len(p.Ret)-1])
			}
			if strings.Contains(org, "ErrInsufficientFee") {
				nRej++
				if !(check && nonZeroFloor && notCovered) {
					o.Fail(c.W.Pos(fn.Pos()), fmt.Sprintf("insufficient-fee rejection without: CheckTx [%v], non-zero floor [%v], !IsAnyGTE [%v]", check, nonZeroFloor, notCovered), c.Dump(p, -1))
				}
			}
			if p.OK() {
				nOK++
				if !(notCheck || zeroFloor || covered) {
					o.Fail(c.W.Pos(fn.Pos()), "transaction admitted although CheckTx, floor non-zero and fee not shown to cover it", c.Dump(p, -1))
				}
				if got := p.Ret[0].Key(); got != "(sdk.FeeTx).GetFee("+feeTx+")" {
					o.Fail(c.W.Pos(fn.Pos()), "returns fee "+trunc(got, 80), c.Dump(p, -1))
				}
			}
		}
		if nRej == 0 || nOK == 0 {
			o.Fail(c.W.Pos(fn.Pos()), fmt.Sprintf("reject paths=%d admit paths=%d (floor 1 each)", nRej, nOK), nil)
		}

		cm := c.Func("opchild/ante", "CombinedMinGasPrices")
		o2 := c.Ob("C20.R1", "CombinedMinGasPrices: pointwise maximum (zero -> add chain price; node < chain -> add the difference; else unchanged)")
		for _, p := range c.Paths(cm, PO{Params: []string{"node", "chain"}, Visits: 3}) {
			o2.Paths++
			o2.Facts += p.NFacts()
			if p.Panic {
				continue
			}
			// replay the iterations
			cur := "node"
			for i := 0; ; i++ {
				el := fmt.Sprintf("chain[%d]", i)
				in := p.HasFact(len(p.Events), func(a *Term, pol bool) bool {
					return pol && a.Op == "bin" && a.Name == "<" && a.Args[0].Key() == fmt.Sprint(i) && a.Args[1].Key() == "builtin.len(chain)"
				})
				if !in {
					break
				}
				o2.Sites++
				amt := "(sdk.DecCoins).AmountOf(" + cur + ", " + el + ".Denom)"
				isZero := p.HasFact(len(p.Events), func(a *Term, pol bool) bool { return pol && a.Key() == "(sdkmath.LegacyDec).IsZero("+amt+")" })
				rel, n := p.Relation(len(p.Events), keyIs(amt), keyIs(el+".Amount"))
				switch {
				case isZero:
					cur = "(sdk.DecCoins).Add(" + cur + ", zero{[0]:=" + el + "}[:])"
				case n > 0 && rel == rLT:
					cur = "(sdk.DecCoins).Add(" + cur + ", zero{[0]:=(sdk.DecCoin).Sub(" + el + ", sdk.NewDecCoinFromDec(" + el + ".Denom, " + amt + "))}[:])"
				case n > 0 && rel&rLT == 0:
					// node price >= chain price: unchanged
				default:
					o2.Fail(c.W.Pos(cm.Pos()), fmt.Sprintf("iteration %d decides with relation(node price, chain price) = %s", i, relString(rel)), c.Dump(p, -1))
				}
			}
			want := "(sdk.DecCoins).Sort(" + cur + ")"
			if got := p.Ret[0].Key(); got != want {
				o2.Fail(c.W.Pos(cm.Pos()), "result is "+trunc(got, 260)+", want "+trunc(want, 260), c.Dump(p, -1))
			}
		}
		if o2.Sites == 0 {
			o2.Fail(c.W.Pos(cm.Pos()), "no iteration examined", nil)
		}

		if o3.Sites == 0 {
			o3.Fail(c.W.Pos(fn.Pos()), "no path compares the fee with a required fee", nil)
		}
	})

	// the chain floor cannot be skipped by a failed read: an error of the params read (or of any
	// other fallible call) is never dropped on an admitting path
	c.Rule("C20.R5", func() {
		fn := c.Method("opchild/ante", "MempoolFeeChecker", "CheckTxFeeWithMinGasPrices")
		errorDiscipline(c, "C20.R5", "MempoolFeeChecker.CheckTxFeeWithMinGasPrices", fn, PO{Params: []string{"mfd", "ctx", "tx"}, Visits: 3, NoInline: []string{"CombinedMinGasPrices"}, Pure: []string{"CombinedMinGasPrices"}})
	})

	c.Rule("C20.R2", func() {
		fn, recvS := returnedFunc(c, c.Func("opchild/lanes", "SystemLaneMatchHandler"))
		o := c.Ob("C20.R2", "system lane: true only for one MsgUpdateOracle or one MsgExec wrapping exactly one MsgUpdateOracle")
		msgs := "(sdk.HasMsgs).GetMsgs(tx)"
		nT := 0
		for _, p := range c.Paths(fn, PO{Params: laneParams(recvS), Visits: 4}) {
			o.Paths++
			o.Facts += p.NFacts()
			if p.Panic || len(p.Ret) != 1 || p.Ret[0].IsFalse() {
				continue
			}
			o.Sites++
			nT++
			if !p.Ret[0].IsTrue() {
				o.Fail(c.W.Pos(fn.Pos()), "result is not constant: "+p.Ret[0].Key(), c.Dump(p, -1))
				continue
			}
			rel, n := p.Relation(len(p.Events), keyIs("builtin.len("+msgs+")"), keyIs("1"))
			one := n > 0 && rel == rEQ
			direct := p.HasFact(len(p.Events), func(a *Term, pol bool) bool { return pol && a.Key() == msgs+"[0].(*opchild/types.MsgUpdateOracle).1" })
			exec := msgs + "[0].(*github.com/cosmos/cosmos-sdk/x/authz.MsgExec)"
			inner := "(github.com/cosmos/cosmos-sdk/x/authz.MsgExec).GetMessages(" + exec + ".0)"
			wrapped := p.HasFact(len(p.Events), func(a *Term, pol bool) bool { return pol && a.Key() == exec+".1" }) &&
				p.HasFact(len(p.Events), func(a *Term, pol bool) bool { return pol && eqAtom(a, inner+".1", "nil") }) &&
				func() bool {
					r, n := p.Relation(len(p.Events), keyIs("builtin.len("+inner+".0)"), keyIs("1"))
					return n > 0 && r == rEQ
				}() &&
				p.HasFact(len(p.Events), func(a *Term, pol bool) bool {
					return pol && a.Key() == inner+".0[0].(*opchild/types.MsgUpdateOracle).1"
				})
			if !one || !(direct || wrapped) {
				o.Fail(c.W.Pos(fn.Pos()), fmt.Sprintf("matches without: exactly one message [%v] and (MsgUpdateOracle [%v] or single-message MsgExec of MsgUpdateOracle [%v])", one, direct, wrapped), c.Dump(p, -1))
			}
		}
		if nT < 2 {
			o.Fail(c.W.Pos(fn.Pos()), fmt.Sprintf("%d matching paths (want the direct and the wrapped form)", nT), nil)
		}
	})

	c.Rule("C20.R3", func() {
		fn, recvF := returnedFunc(c, c.Method("opchild/lanes", "FreeLaneMatchHandler", "MatchHandler"))
		o := c.Ob("C20.R3", "free lane: true only when a whitelist element equals the fee payer or the (non-nil) fee granter")
		feeTx := "tx.(sdk.FeeTx).0"
		nT := 0
		for _, p := range c.Paths(fn, PO{Params: laneParams(recvF), Visits: 3}) {
			o.Paths++
			o.Facts += p.NFacts()
			if p.Panic || len(p.Ret) != 1 || p.Ret[0].IsFalse() {
				continue
			}
			o.Sites++
			nT++
			if !p.Ret[0].IsTrue() {
				o.Fail(c.W.Pos(fn.Pos()), "result is not constant: "+p.Ret[0].Key(), c.Dump(p, -1))
				continue
			}
			wl := "(opchild/lanes.FeeWhitelistKeeper).FeeWhitelist(h.fwk, ctx)"
			payer := "(address.Codec).BytesToString(h.ac, (sdk.FeeTx).FeePayer(" + feeTx + ")).0"
			granter := "(address.Codec).BytesToString(h.ac, (sdk.FeeTx).FeeGranter(" + feeTx + ")).0"
			okWl := p.HasFact(len(p.Events), func(a *Term, pol bool) bool { return pol && eqAtom(a, wl+".1", "nil") })
			okPayerErr := p.HasFact(len(p.Events), func(a *Term, pol bool) bool {
				return pol && eqAtom(a, "(address.Codec).BytesToString(h.ac, (sdk.FeeTx).FeePayer("+feeTx+")).1", "nil")
			})
			// an element of the loaded whitelist (any index) compared equal with x
			elemEq := func(x string) bool {
				return p.HasFact(len(p.Events), func(a *Term, pol bool) bool {
					el := eqOther(a, x)
					if !pol || el == nil {
						return false
					}
					el = strip(el)
					return el.Op == "index" && strip(el.Args[0]).Key() == wl+".0"
				})
			}
			match := elemEq(payer) || (elemEq(granter) &&
				p.HasFact(len(p.Events), func(a *Term, pol bool) bool {
					return !pol && eqAtom(a, "(sdk.FeeTx).FeeGranter("+feeTx+")", "nil")
				}) &&
				p.HasFact(len(p.Events), func(a *Term, pol bool) bool {
					return pol && eqAtom(a, "(address.Codec).BytesToString(h.ac, (sdk.FeeTx).FeeGranter("+feeTx+")).1", "nil")
				}))
			// granter stays "" when FeeGranter() is nil: a match then needs an empty whitelist
			// element, which validated params exclude (obligation below) - such a path is infeasible.
			emptyEl := p.HasFact(len(p.Events), func(a *Term, pol bool) bool {
				x := eqOther(a, `""`)
				return pol && x != nil && strings.HasPrefix(x.Key(), wl+".0[")
			})
			if emptyEl && okWl && okPayerErr && !match {
				o.Note("path with an empty whitelist element skipped (excluded by Params.Validate)")
				continue
			}
			if !okWl || !okPayerErr || !match {
				o.Fail(c.W.Pos(fn.Pos()), fmt.Sprintf("fee-exempt without: whitelist loaded [%v], payer encoded [%v], element equals payer or non-nil granter [%v]", okWl, okPayerErr, match), c.Dump(p, -1))
			}
		}
		if nT == 0 {
			o.Fail(c.W.Pos(fn.Pos()), "no matching path", nil)
		}
		// invariant used above: stored whitelist elements decode as addresses (never empty)
		pv := c.Method(childTypes, "Params", "Validate")
		o2 := c.Ob("C20.R3", "Params.Validate: nil only if every FeeWhitelist element decodes as an address (so no element is empty)")
		nOK := 0
		for _, p := range c.Paths(pv, PO{Params: []string{"p", "ac"}, Visits: 3, NoInline: []string{"MinGasPrices"}}) {
			o2.Paths++
			o2.Facts += p.NFacts()
			if !p.OK() || p.Panic {
				continue
			}
			nOK++
			for i := 0; ; i++ {
				in := p.HasFact(len(p.Events), func(a *Term, pol bool) bool {
					return pol && a.Op == "bin" && a.Name == "<" && a.Args[0].Key() == fmt.Sprint(i) && a.Args[1].Key() == "builtin.len(p.FeeWhitelist)"
				})
				if !in {
					break
				}
				o2.Sites++
				el := fmt.Sprintf("p.FeeWhitelist[%d]", i)
				if !p.HasFact(len(p.Events), func(a *Term, pol bool) bool {
					x := eqOther(a, "nil")
					return pol && x != nil && x.Op == "extract" && x.Name == "1" && decodedFrom(x.Args[0]) != nil && decodedFrom(x.Args[0]).Key() == el
				}) {
					o2.Fail(c.W.Pos(pv.Pos()), "whitelist element "+el+" accepted without decoding it", c.Dump(p, -1))
				}
			}
		}
		// the search form (slices.IndexFunc / ContainsFunc over the list): a nil path on which
		// the symbolic element of the whitelist was decoded without error
		if o2.Sites == 0 {
			for _, p := range c.Paths(pv, PO{Params: []string{"p", "ac"}, Visits: 3, NoInline: []string{"MinGasPrices"}}) {
				if !p.OK() || p.Panic {
					continue
				}
				if p.HasFact(len(p.Events), func(a *Term, pol bool) bool {
					x := eqOther(a, "nil")
					if !pol || x == nil || x.Op != "extract" || x.Name != "1" {
						return false
					}
					d := decodedFrom(x.Args[0])
					return d != nil && d.Op == "index" && strip(d.Args[0]).Key() == "p.FeeWhitelist"
				}) {
					o2.Sites++
				}
			}
		}
		if nOK == 0 || o2.Sites == 0 {
			o2.Fail(c.W.Pos(pv.Pos()), "no nil path that visits a whitelist element", nil)
		}
	})

	c.Rule("C20.R4", func() {
		fn := c.Method("opchild/ante", "RedundantBridgeDecorator", "AnteHandle")
		o := c.Ob("C20.R4", "RedundantBridgeDecorator: check-mode gating; ErrRedundantTx iff all deposit messages are NOOP and there is at least one; else next")
		noop := c.constVal(childTypes, "NOOP")
		po := PO{Params: []string{"rbd", "ctx", "tx", "simulate", "next"}, Visits: 3, NoInline: []string{"FinalizeTokenDeposit"}}
		nRed := 0
		for _, p := range c.Paths(fn, po) {
			o.Paths++
			o.Facts += p.NFacts()
			if p.Panic {
				continue
			}
			o.Sites++
			chk := p.HasFact(len(p.Events), func(a *Term, pol bool) bool { return pol && a.Key() == "(sdk.Context).IsCheckTx(ctx)" })
			rechk := p.HasFact(len(p.Events), func(a *Term, pol bool) bool { return pol && a.Key() == "(sdk.Context).IsReCheckTx(ctx)" })
			noChk := p.HasFact(len(p.Events), func(a *Term, pol bool) bool { return !pol && a.Key() == "(sdk.Context).IsCheckTx(ctx)" }) &&
				p.HasFact(len(p.Events), func(a *Term, pol bool) bool { return !pol && a.Key() == "(sdk.Context).IsReCheckTx(ctx)" })
			sim := p.HasFact(len(p.Events), func(a *Term, pol bool) bool { return pol && a.Key() == "simulate" })
			notSim := p.HasFact(len(p.Events), func(a *Term, pol bool) bool { return !pol && a.Key() == "simulate" })
			active := (chk || rechk) && notSim
			inactive := noChk || sim
			deps := p.Find(func(ev *Event) bool {
				return ev.Kind == EvCall && strings.HasSuffix(ev.Call.Name, "MsgServer).FinalizeTokenDeposit")
			})
			nextCalls := p.Find(func(ev *Event) bool {
				return ev.Kind == EvCall && ev.Call.Name == "dynamic" && strip(ev.Fun).Key() == "next"
			})
			if inactive && len(deps) > 0 {
				o.Fail(c.W.Pos(fn.Pos()), "deposit messages are executed outside check mode / in simulation", c.Dump(p, -1))
			}
			if len(deps) > 0 && !active {
				o.Fail(c.W.Pos(fn.Pos()), "filter active without (CheckTx or ReCheckTx) and !simulate", c.Dump(p, -1))
			}
			nNoop, nFresh := 0, 0
			for _, i := range deps {
				r := p.Events[i].Call
				if p.HasFact(len(p.Events), func(a *Term, pol bool) bool { return pol && eqAtomS(a, r.String()+".0.Result", noop) }) {
					nNoop++
				} else if p.HasFact(len(p.Events), func(a *Term, pol bool) bool { return !pol && eqAtomS(a, r.String()+".0.Result", noop) }) {
					nFresh++
				}
				// the message passed is the transaction's own message
				if !strings.Contains(r.Args[2].Key(), "(sdk.HasMsgs).GetMsgs(tx)[") {
					o.Fail(c.evPos(&p.Events[i]), "deposit executed for "+trunc(r.Args[2].Key(), 100), nil)
				}
			}
			org := ""
			if !p.OK() && len(p.Ret) == 2 {
				org = errOrigin(p.Ret[1])
			}
			if strings.Contains(org, "ErrRedundantTx") {
				nRed++
				if !(active && len(deps) > 0 && nNoop == len(deps)) {
					o.Fail(c.W.Pos(fn.Pos()), fmt.Sprintf("ErrRedundantTx with %d deposit messages of which %d NOOP (active=%v)", len(deps), nNoop, active), c.Dump(p, -1))
				}
				if len(nextCalls) > 0 {
					o.Fail(c.W.Pos(fn.Pos()), "next called although the tx is rejected", c.Dump(p, -1))
				}
			} else if len(nextCalls) == 1 {
				// passes: must not be an all-NOOP non-empty set in active mode
				if active && len(deps) > 0 && nNoop == len(deps) {
					o.Fail(c.W.Pos(fn.Pos()), "a transaction consisting solely of already processed deposits passes", c.Dump(p, -1))
				}
				a := p.Events[nextCalls[0]].Call.Args
				if a[0].Key() != "ctx" || a[1].Key() != "tx" || a[2].Key() != "simulate" {
					o.Fail(c.W.Pos(fn.Pos()), "next called with different arguments", c.Dump(p, -1))
				}
			} else if org == "" || strings.HasPrefix(org, "call:(opchild/keeper.MsgServer).FinalizeTokenDeposit") {
				// error of a deposit message itself: propagated
			} else {
				o.Fail(c.W.Pos(fn.Pos()), "path neither rejects as redundant, nor propagates a deposit error, nor calls next: "+org, c.Dump(p, -1))
			}
		}
		if nRed == 0 {
			o.Fail(c.W.Pos(fn.Pos()), "no path returns ErrRedundantTx", nil)
		}
		// each check mode alone activates the filter
		chkAlone, rechkAlone := false, false
		for _, p := range c.Paths(fn, po) {
			if len(p.Find(func(ev *Event) bool {
				return ev.Kind == EvCall && strings.HasSuffix(ev.Call.Name, "MsgServer).FinalizeTokenDeposit")
			})) == 0 {
				continue
			}
			chk := p.HasFact(len(p.Events), func(a *Term, pol bool) bool { return pol && a.Key() == "(sdk.Context).IsCheckTx(ctx)" })
			rechk := p.HasFact(len(p.Events), func(a *Term, pol bool) bool { return pol && a.Key() == "(sdk.Context).IsReCheckTx(ctx)" })
			if chk && !rechk {
				chkAlone = true
			}
			if rechk && !chk {
				rechkAlone = true
			}
		}
		if !chkAlone || !rechkAlone {
			o.Fail(c.W.Pos(fn.Pos()), fmt.Sprintf("the filter is not activated by CheckTx alone [%v] and by ReCheckTx alone [%v] (and/or slip in the mode gate)", chkAlone, rechkAlone), nil)
		}
	})
}

// requiredFeeShape: req is Sort(list) where list has one element per floor element visited on
// the path, element i being NewCoin(floor[i].Denom, RoundInt(Ceil(MulInt(floor[i].Amount, NewIntFromUint64(gas))))).
// Returns "" when the shape holds, else what is wrong.
func requiredFeeShape(p *Path, req *Term, floor, gas string) string {
	r := strip(req)
	if r.Op != "call" || !strings.HasSuffix(r.Name, "(sdk.Coins).Sort") || len(r.Args) != 1 {
		return "required fee is " + trunc(r.Key(), 200) + ", want the sorted per-denom list"
	}
	cur := strip(r.Args[0])
	writes := map[int64]*Term{}
	for {
		switch {
		case cur.Op == "updidx":
			i, ok := cur.Args[1].Int()
			if !ok {
				return "required fee list written at symbolic index " + cur.Args[1].Key()
			}
			if _, dup := writes[i]; !dup {
				writes[i] = cur.Args[2]
			}
			cur = strip(cur.Args[0])
			continue
		case cur.Op == "filled" && len(cur.Args) == 2:
			cur = strip(cur.Args[1])
			continue
		}
		break
	}
	if !(cur.Op == "zero" || cur.Op == "make" || cur.IsNil()) {
		return "required fee list is built on " + trunc(cur.Key(), 120)
	}
	if cur.Op == "make" && (len(cur.Args) == 0 || cur.Args[0].Key() != "builtin.len("+floor+")") {
		return "required fee list has length " + trunc(cur.Key(), 120) + ", want len(floor)"
	}
	n := int64(0)
	for p.HasFact(len(p.Events), func(a *Term, pol bool) bool {
		return pol && a.Op == "bin" && a.Name == "<" && a.Args[0].Key() == fmt.Sprint(n) && a.Args[1].Key() == "builtin.len("+floor+")"
	}) {
		n++
	}
	if int64(len(writes)) != n {
		return fmt.Sprintf("%d floor element(s) visited but %d required-fee element(s) written", n, len(writes))
	}
	for i := int64(0); i < n; i++ {
		el := fmt.Sprintf("%s[%d]", floor, i)
		want := "sdk.NewCoin(" + el + ".Denom, (sdkmath.LegacyDec).RoundInt((sdkmath.LegacyDec).Ceil((sdkmath.LegacyDec).MulInt(" + el + ".Amount, sdkmath.NewIntFromUint64(" + gas + ")))))"
		if w := writes[i]; w == nil || w.Key() != want {
			got := "nothing"
			if w != nil {
				got = trunc(w.Key(), 240)
			}
			return fmt.Sprintf("required fee element %d is %s, want %s", i, got, trunc(want, 240))
		}
	}
	return ""
}
