package main

import (
	"go/constant"
	"go/types"
	"sort"
	"strconv"
	"strings"

	"golang.org/x/tools/go/ssa"
)

// Term is a canonical symbolic value (E3 provenance term).
type Term struct {
	Op   string // see constructors below
	Name string
	Args []*Term
	ID   int // instance id for impure calls / allocs (0 = none)
	Typ  types.Type
	Fn   *ssa.Function   // closure / fn
	Site ssa.Instruction // where it was created (calls, allocs)
	Plc  *Term           // for "slice": the place it aliases (write-through), may be nil
	Off  *Term           // for "slice" with Plc: element offset of this slice within Plc (nil = 0)
	s    string
	k    string
}

// Ops:
//  param name | free name | const lit | global name | zero | alloc(ID) | deref x
//  field x .Name | index x i | update x .Name v | updidx x i v
//  call Name(args)#ID | extract x #Name | tuple(args)
//  bin Name(a,b) | un Name(a) | convert Name(x) | typeassert Name(x)
//  slice(x,lo,hi,max) | closure Fn(bindings) | fn Fn | make Name #ID | lookup(m,k)#ID
//  range(x)#ID | next(it)#ID | addr(place) | list(args) | opaque Name #ID

func (t *Term) String() string {
	if t == nil {
		return "_"
	}
	if t.s == "" {
		t.s = t.render(true)
	}
	return t.s
}

// Key renders without instance ids: the "shape" of a term.
func (t *Term) Key() string {
	if t == nil {
		return "_"
	}
	if t.k == "" {
		t.k = t.render(false)
	}
	return t.k
}

func (t *Term) render(ids bool) string {
	str := func(x *Term) string {
		if ids {
			return x.String()
		}
		return x.Key()
	}
	id := func() string {
		if ids && t.ID != 0 {
			return "#" + strconv.Itoa(t.ID)
		}
		return ""
	}
	args := func() string {
		var b []string
		for _, a := range t.Args {
			b = append(b, str(a))
		}
		return strings.Join(b, ", ")
	}
	switch t.Op {
	case "param", "free":
		return t.Name
	case "const":
		return t.Name
	case "global":
		return t.Name
	case "zero":
		return "zero"
	case "alloc":
		return "alloc:" + t.Name + id()
	case "deref":
		return str(t.Args[0])
	case "field":
		return str(t.Args[0]) + "." + t.Name
	case "index":
		return str(t.Args[0]) + "[" + str(t.Args[1]) + "]"
	case "update":
		return str(t.Args[0]) + "{" + t.Name + ":=" + str(t.Args[1]) + "}"
	case "updidx":
		return str(t.Args[0]) + "{[" + str(t.Args[1]) + "]:=" + str(t.Args[2]) + "}"
	case "call":
		return t.Name + "(" + args() + ")" + id()
	case "extract":
		return str(t.Args[0]) + "." + t.Name
	case "tuple":
		return "<" + args() + ">"
	case "bin":
		return "(" + str(t.Args[0]) + " " + t.Name + " " + str(t.Args[1]) + ")"
	case "un":
		return t.Name + str(t.Args[0])
	case "convert":
		return t.Name + "(" + str(t.Args[0]) + ")"
	case "typeassert":
		return str(t.Args[0]) + ".(" + t.Name + ")"
	case "slice":
		s := str(t.Args[0]) + "["
		if t.Args[1] != nil {
			s += str(t.Args[1])
		}
		s += ":"
		if t.Args[2] != nil {
			s += str(t.Args[2])
		}
		if t.Args[3] != nil {
			s += ":" + str(t.Args[3])
		}
		return s + "]"
	case "closure":
		return "closure:" + t.Name + "(" + args() + ")"
	case "fn":
		return "fn:" + t.Name
	case "addr":
		return "&" + str(t.Args[0])
	case "iface":
		return str(t.Args[0])
	case "filled":
		return "filled(" + str(t.Args[1]) + ")"
	case "list":
		return "[" + args() + "]"
	default: // make, lookup, range, next, opaque
		return t.Op + ":" + t.Name + "(" + args() + ")" + id()
	}
}

func mk(op, name string, args ...*Term) *Term { return &Term{Op: op, Name: name, Args: args} }

func constTerm(c *ssa.Const) *Term {
	t := &Term{Op: "const", Typ: c.Type()}
	if c.Value == nil {
		// zero value of the type
		switch u := c.Type().Underlying().(type) {
		case *types.Basic:
			switch {
			case u.Info()&types.IsString != 0:
				t.Name = `""`
			case u.Info()&types.IsBoolean != 0:
				t.Name = "false"
			case u.Info()&types.IsNumeric != 0:
				t.Name = "0"
			default:
				t.Name = "nil"
			}
		case *types.Struct, *types.Array:
			return &Term{Op: "zero", Typ: c.Type()}
		default:
			t.Name = "nil"
		}
		return t
	}
	switch c.Value.Kind() {
	case constant.String:
		t.Name = strconv.Quote(constant.StringVal(c.Value))
	case constant.Bool:
		t.Name = strconv.FormatBool(constant.BoolVal(c.Value))
	default:
		t.Name = c.Value.ExactString()
	}
	return t
}

func zeroOf(T types.Type) *Term {
	switch u := T.Underlying().(type) {
	case *types.Basic:
		switch {
		case u.Info()&types.IsString != 0:
			return &Term{Op: "const", Name: `""`, Typ: T}
		case u.Info()&types.IsBoolean != 0:
			return &Term{Op: "const", Name: "false", Typ: T}
		case u.Info()&types.IsNumeric != 0:
			return &Term{Op: "const", Name: "0", Typ: T}
		}
		return &Term{Op: "const", Name: "nil", Typ: T}
	case *types.Struct, *types.Array:
		return &Term{Op: "zero", Typ: T}
	}
	return &Term{Op: "const", Name: "nil", Typ: T}
}

func (t *Term) IsConst() bool { return t != nil && t.Op == "const" }
func (t *Term) IsNil() bool   { return t != nil && t.Op == "const" && t.Name == "nil" }
func (t *Term) IsTrue() bool  { return t != nil && t.Op == "const" && t.Name == "true" }
func (t *Term) IsFalse() bool { return t != nil && t.Op == "const" && t.Name == "false" }
func boolTerm(b bool) *Term {
	return &Term{Op: "const", Name: strconv.FormatBool(b), Typ: types.Typ[types.Bool]}
}
func intTerm(i int64) *Term {
	return &Term{Op: "const", Name: strconv.FormatInt(i, 10), Typ: types.Typ[types.Int]}
}
func (t *Term) Int() (int64, bool) {
	if t == nil || t.Op != "const" {
		return 0, false
	}
	v, err := strconv.ParseInt(t.Name, 10, 64)
	if err != nil {
		return 0, false
	}
	return v, true
}

// project: field selection with simplification over functional updates.
func project(v *Term, field string, ft types.Type) *Term {
	// the result of an opaque call that returns a carrier struct: component i of a tuple
	if v.Op == "call" && v.Typ != nil {
		if st, ok := carrierStruct(v.Typ); ok {
			for k := 0; k < st.NumFields(); k++ {
				if st.Field(k).Name() == field {
					return &Term{Op: "extract", Name: strconv.Itoa(k), Args: []*Term{v}, Typ: ft}
				}
			}
		}
	}
	for {
		switch v.Op {
		case "update":
			if v.Name == field {
				return v.Args[1]
			}
			v = v.Args[0]
			continue
		case "zero":
			if ft != nil {
				return zeroOf(ft)
			}
		}
		break
	}
	return &Term{Op: "field", Name: field, Args: []*Term{v}, Typ: ft}
}

func projectIdx(v *Term, idx *Term, et types.Type) *Term {
	cur := v
	for cur.Op == "deref" {
		cur = cur.Args[0]
	}
	for cur.Op == "updidx" {
		if cur.Args[1].Key() == idx.Key() {
			return cur.Args[2]
		}
		if cur.Args[1].IsConst() && idx.IsConst() {
			cur = cur.Args[0]
			continue
		}
		break // symbolic index: cannot decide aliasing
	}
	if cur.Op == "zero" && et != nil && idx.IsConst() {
		return zeroOf(et)
	}
	if cur.Op == "list" {
		if i, ok := idx.Int(); ok && int(i) < len(cur.Args) {
			return cur.Args[i]
		}
	}
	if l, ok := listOf(cur); ok && cur.Op != "zero" {
		if i, ok := idx.Int(); ok && i >= 0 && int(i) < len(l) {
			return l[i]
		}
	}
	return &Term{Op: "index", Args: []*Term{v, idx}, Typ: et}
}

func update(v *Term, field string, val *Term) *Term {
	if v.Op == "update" && v.Name == field {
		v = v.Args[0]
	}
	return &Term{Op: "update", Name: field, Args: []*Term{v, val}, Typ: v.Typ}
}

func updateIdx(v *Term, idx, val *Term) *Term {
	return &Term{Op: "updidx", Args: []*Term{v, idx, val}, Typ: v.Typ}
}

// appendList: the elements of append(append(nil, a...), b...) chains.
func appendList(v *Term) ([]*Term, bool) {
	if v.Op == "call" && v.Name == "builtin.append" && len(v.Args) == 2 {
		base, ok := listOf(v.Args[0])
		if !ok {
			return nil, false
		}
		more, ok := listOf(v.Args[1])
		if !ok {
			return nil, false
		}
		return append(append([]*Term(nil), base...), more...), true
	}
	return nil, false
}

// listOf reads an array/slice value built by constant-index stores back as an ordered list.
func listOf(v *Term) ([]*Term, bool) {
	if v == nil {
		return nil, false
	}
	switch v.Op {
	case "const":
		if v.Name == "nil" {
			return nil, true
		}
		return nil, false
	case "call":
		return appendList(v)
	case "list":
		return v.Args, true
	case "slice":
		if v.Args[1] == nil && v.Args[2] == nil {
			return listOf(v.Args[0])
		}
		if v.Args[2] != nil && v.Args[2].IsConst() && v.Args[2].Name == "0" {
			return nil, true // x[:0]: empty (make([]T, 0, constCap) is new([cap]T)[:0] in go/ssa)
		}
		return nil, false
	case "convert":
		return listOf(v.Args[0])
	case "zero":
		return nil, true
	case "make":
		if v.Name == "slice" && len(v.Args) > 0 && v.Args[0].IsConst() && v.Args[0].Name == "0" {
			return nil, true // make([]T, 0, cap): empty
		}
		return nil, false
	case "updidx":
		m := map[int]*Term{}
		max := -1
		cur := v
		for cur.Op == "updidx" {
			i, ok := cur.Args[1].Int()
			if !ok {
				return nil, false
			}
			if _, dup := m[int(i)]; !dup {
				m[int(i)] = cur.Args[2]
			}
			if int(i) > max {
				max = int(i)
			}
			cur = cur.Args[0]
		}
		if cur.Op != "zero" {
			return nil, false
		}
		out := make([]*Term, max+1)
		for i := range out {
			out[i] = m[i]
			if out[i] == nil {
				out[i] = &Term{Op: "zero"}
			}
		}
		return out, true
	}
	return nil, false
}

// Walk visits t and all sub-terms.
func (t *Term) Walk(f func(*Term) bool) {
	if t == nil {
		return
	}
	if !f(t) {
		return
	}
	for _, a := range t.Args {
		a.Walk(f)
	}
}

// Mentions reports whether some sub-term has the given Key.
func (t *Term) Mentions(key string) bool {
	found := false
	t.Walk(func(x *Term) bool {
		if found {
			return false
		}
		if x.Key() == key {
			found = true
			return false
		}
		return true
	})
	return found
}

// MentionsCall reports whether some sub-term is a call whose name has the suffix.
func (t *Term) MentionsCall(suffix string) bool {
	found := false
	t.Walk(func(x *Term) bool {
		if x.Op == "call" && strings.HasSuffix(x.Name, suffix) {
			found = true
		}
		return !found
	})
	return found
}

// wholeCopy: t = X[lo:hi] where X's content is a single copy of src at offset 0 into a
// zero buffer and [lo:hi] spans exactly the N bytes of the fixed-size src.
func wholeCopy(t *Term) (*Term, bool) {
	if t.Op != "slice" || t.Args[2] == nil {
		return nil, false
	}
	if t.Args[1] != nil {
		if v, ok := t.Args[1].Int(); !ok || v != 0 {
			return nil, false
		}
	}
	n, ok := t.Args[2].Int()
	if !ok {
		return nil, false
	}
	x := t.Args[0]
	if x.Op == "filled" && len(x.Args) == 2 {
		x = x.Args[1]
	}
	if x.Op != "opaque" || x.Name != "copied" || len(x.Args) != 3 {
		return nil, false
	}
	if b := x.Args[0]; !(b.Op == "zero" || b.Op == "make" || b.Op == "deref") {
		return nil, false
	}
	if x.Args[2] != nil && !x.Args[2].IsNil() {
		if v, ok := x.Args[2].Int(); !ok || v != 0 {
			return nil, false
		}
	}
	src := x.Args[1]
	base := src
	for base != nil && (base.Op == "slice" && base.Args[1] == nil && base.Args[2] == nil || base.Op == "convert" || base.Op == "deref") {
		base = base.Args[0]
	}
	if base == nil || base.Typ == nil {
		return nil, false
	}
	if a, ok := base.Typ.Underlying().(*types.Array); ok && a.Len() == n {
		return src, true
	}
	return nil, false
}

// strip removes value-preserving wrappers (conversions, derefs, whole-value copies).
func strip(t *Term) *Term {
	for t != nil {
		switch t.Op {
		case "convert", "deref":
			t = t.Args[0]
			continue
		case "slice":
			if t.Args[1] == nil && t.Args[2] == nil && t.Args[3] == nil {
				t = t.Args[0]
				continue
			}
			// a byte-for-byte copy of a whole fixed-size value into a fresh buffer, re-sliced to
			// its full length: copied(zero, src, 0)[:N] with src an N-byte array (slice) - the bytes are src
			if src, ok := wholeCopy(t); ok {
				t = src
				continue
			}
		}
		break
	}
	return t
}

func sortedKeys[M ~map[string]V, V any](m M) []string {
	var ks []string
	for k := range m {
		ks = append(ks, k)
	}
	sort.Strings(ks)
	return ks
}

var abbrev = strings.NewReplacer(
	modPath+"/x/", "",
	modPath+"/", "",
	"github.com/cosmos/cosmos-sdk/types/errors.", "sdkerrors.",
	"github.com/cosmos/cosmos-sdk/types/address.", "sdkaddress.",
	"github.com/cosmos/cosmos-sdk/types.", "sdk.",
	"cosmossdk.io/collections.", "collections.",
	"cosmossdk.io/core/address.", "address.",
	"cosmossdk.io/errors.", "errorsmod.",
	"cosmossdk.io/math.", "sdkmath.",
	"cosmossdk.io/store/types.", "storetypes.",
	"github.com/cosmos/cosmos-sdk/x/staking/types.", "stakingtypes.",
	"github.com/cosmos/cosmos-sdk/x/gov/types.", "govtypes.",
	"github.com/cosmos/cosmos-sdk/x/auth/types.", "authtypes.",
	"github.com/cosmos/cosmos-sdk/x/bank/types.", "banktypes.",
	"github.com/cosmos/cosmos-sdk/crypto/types.", "cryptotypes.",
	"github.com/cosmos/cosmos-sdk/baseapp.", "baseapp.",
	"github.com/cometbft/cometbft/proto/tendermint/types.", "cmtproto.",
	"github.com/cometbft/cometbft/abci/types.", "abci.",
	"github.com/skip-mev/connect/v2/", "connect/",
)

// shortName abbreviates package paths.  For methods of this module's own types the
// receiver's pointer-ness is dropped ("(*opchild/keeper.Keeper).M" = "(opchild/keeper.Keeper).M"):
// switching a type between value and pointer receivers must not change any name a rule compares.
func shortName(full string) string {
	n := abbrev.Replace(full)
	if strings.HasPrefix(n, "(*ophost") || strings.HasPrefix(n, "(*opchild") {
		n = "(" + n[2:]
	}
	return n
}
