package main

import (
	"regexp"
	"fmt"
	"go/types"
	"sort"
	"strings"

	"golang.org/x/tools/go/ssa"
)

// C16 — genesis export / import preserves state (writer's and reader's tables agree)

// collFields: the collections-typed fields of a struct type (name -> kind).
func collFields(c *Ctx, pkg, typ string) map[string]string {
	p := c.W.ByPath[modPath+"/x/"+pkg]
	if p == nil {
		panic(anchorErr{"package " + pkg})
	}
	o := p.Types.Scope().Lookup(typ)
	if o == nil {
		panic(anchorErr{pkg + "." + typ})
	}
	st := o.Type().Underlying().(*types.Struct)
	out := map[string]string{}
	for i := 0; i < st.NumFields(); i++ {
		f := st.Field(i)
		if n, ok := f.Type().(*types.Named); ok && n.Obj().Pkg() != nil && n.Obj().Pkg().Path() == "cosmossdk.io/collections" && n.Obj().Name() != "Schema" {
			out[f.Name()] = n.Obj().Name()
		}
	}
	return out
}

func structFields(c *Ctx, pkg, typ string) []string {
	p := c.W.ByPath[modPath+"/x/"+pkg]
	o := p.Types.Scope().Lookup(typ)
	if o == nil {
		panic(anchorErr{pkg + "." + typ})
	}
	st := o.Type().Underlying().(*types.Struct)
	var out []string
	for i := 0; i < st.NumFields(); i++ {
		out = append(out, st.Field(i).Name())
	}
	return out
}

// fieldsSet: names of fields explicitly set in a struct value term (functional updates).
func fieldsSet(v *Term) map[string]*Term {
	out := map[string]*Term{}
	for v != nil && v.Op == "update" {
		if _, dup := out[v.Name]; !dup {
			out[v.Name] = v.Args[1]
		}
		v = v.Args[0]
	}
	return out
}

func propC16(c *Ctx) {
	c.Clauses = append(c.Clauses,
		"collection coverage: every persisted collection of both keepers is read by ExportGenesis and written by InitGenesis (exemptions: HistoricalInfos, the cached host validator store, the in-memory executor-change plans); the consensus-key index is rebuilt on import",
		"field coverage: ExportGenesis sets every field of GenesisState (and of each exported Bridge record); InitGenesis reads every field",
		"key fidelity: each import setter receives the record's own key parts and value (e.g. SetOutputProposal(bridge id, proposal.OutputIndex, proposal.OutputProposal)); each exported record field comes from the matching key part / value",
		"key-domain containment: export enumerates bridges through BridgeConfigs, and every per-bridge write at run time requires an existing bridge config (same obligation as C10.R1)",
		"ValidateGenesis is what the module's ValidateGenesis entry point runs, and it rejects zero ids, sequences below the start, malformed hashes/denoms",
		"record freshness: no slice placed in an exported record is rooted in a variable captured from an enclosing activation, and captured accumulators are only appended to (records never share a backing array)")
	defer c16Freshness(c)
	defer c.Rule("C16.R7", func() {
		for _, m := range []struct{ name, pkg string }{{"ophost", hostKeeper}, {"opchild", childKeeper}} {
			errorDiscipline(c, "C16.R7", m.name+" ExportGenesis", c.Method(m.pkg, "Keeper", "ExportGenesis"), PO{Params: []string{"k", "ctx"}, Callbacks: true, Visits: 2})
			errorDiscipline(c, "C16.R7", m.name+" InitGenesis", c.Method(m.pkg, "Keeper", "InitGenesis"), PO{Params: []string{"k", "ctx", "data"}, Callbacks: true, Visits: 2,
				NoInline: []string{"ApplyAndReturnValidatorSetUpdates", ".Validate"}})
		}
	})
	c.NotDecided = append(c.NotDecided, "behavioural equivalence of the re-imported chain (responses to later messages) and byte-identical re-export: these are execution statements; the table agreement above is their structural necessary condition")
	c.Assumptions = append(c.Assumptions, "A1", "A3", "A10")
	eff := c.W.BuildEffects()

	type mod struct {
		name, keeperPkg string
		exempt          map[string]string
		derived         map[string]bool // written on import, not exported (rebuilt index)
	}
	mods := []mod{
		{"ophost", hostKeeper, map[string]string{}, map[string]bool{}},
		{"opchild", childKeeper, map[string]string{"HistoricalInfos": "per-height history is deliberately not part of genesis"}, map[string]bool{"ValidatorsByConsAddr": true}},
	}

	for _, m := range mods {
		m := m
		c.Rule("C16.R1", func() {
			fields := collFields(c, m.keeperPkg, "Keeper")
			exp := c.Method(m.keeperPkg, "Keeper", "ExportGenesis")
			imp := c.Method(m.keeperPkg, "Keeper", "InitGenesis")
			reads := map[string]bool{}
			for _, s := range eff.ReachSites(exp, func(s *Site) bool { return s.Kind == SColl && strings.HasSuffix(s.Owner, "keeper.Keeper") }) {
				if collReads[s.Method] {
					reads[s.Field] = true
				}
			}
			writes := map[string]bool{}
			for _, s := range eff.ReachSites(imp, func(s *Site) bool { return s.Kind == SColl && strings.HasSuffix(s.Owner, "keeper.Keeper") }) {
				if s.Method == "Set" { // a restore is a Set (removals reachable through the validator diff do not count)
					writes[s.Field] = true
				}
			}
			for _, f := range sortedKeys(fields) {
				o := c.Ob("C16.R1", m.name+": collection "+f+" is exported and imported")
				o.Sites = 1
				if why, ok := m.exempt[f]; ok {
					o.Note("exempt: " + why)
					if reads[f] || writes[f] {
						o.Note("(touched by genesis code anyway)")
					}
					continue
				}
				if m.derived[f] {
					if !writes[f] {
						o.Fail(c.W.Pos(imp.Pos()), "derived index "+f+" is not rebuilt by InitGenesis", nil)
					}
					continue
				}
				if !reads[f] {
					o.Fail(c.W.Pos(exp.Pos()), "ExportGenesis never reads "+f+" (state lost on export)", nil)
				}
				if !writes[f] {
					o.Fail(c.W.Pos(imp.Pos()), "InitGenesis never writes "+f+" (state lost on import)", nil)
				}
			}
			of := c.Ob("C16.R1", m.name+": collection field count floor")
			of.Sites = len(fields)
			if len(fields) < 9 {
				of.Fail("-", fmt.Sprintf("only %d collection fields resolved on the Keeper (floor 9)", len(fields)), nil)
			}
			// export must not write, import must not depend on unexported collections
			ow := c.Ob("C16.R1", m.name+": ExportGenesis is read-only")
			for _, s := range eff.ReachSites(exp, func(s *Site) bool { return s.Kind == SColl && s.IsCollWrite() }) {
				ow.Sites++
				ow.Fail(c.W.Pos(s.Pos), "ExportGenesis writes "+s.Field+"."+s.Method+" (in "+fnShort(s.Root())+")", nil)
			}
			if ow.Sites == 0 {
				ow.Sites = len(reads)
			}
		})
	}

	// ---- ophost R2/R3
	c.Rule("C16.R2", func() {
		exp := c.Method(hostKeeper, "Keeper", "ExportGenesis")
		o := c.Ob("C16.R2", "ophost ExportGenesis: every GenesisState and Bridge field is set, from the matching store value")
		gsFields := structFields(c, hostTypes, "GenesisState")
		brFields := structFields(c, hostTypes, "Bridge")
		nOK := 0
		for _, p := range c.Paths(exp, PO{Params: []string{"k", "ctx"}, Callbacks: true, Depth: 9}) {
			o.Paths++
			o.Facts += p.NFacts()
			if p.Panic || len(p.RetVal) != 1 {
				continue
			}
			nOK++
			set := fieldsSet(p.RetVal[0])
			for _, f := range gsFields {
				o.Sites++
				if _, ok := set[f]; !ok {
					o.Fail(c.W.Pos(exp.Pos()), "exported GenesisState leaves field "+f+" unset", nil)
				}
			}
			if v := set["Params"]; v != nil && !strings.Contains(v.Key(), "Get(k.Params, ctx)") {
				o.Fail(c.W.Pos(exp.Pos()), "exported Params is "+trunc(v.Key(), 100), nil)
			}
			if v := set["NextBridgeId"]; v != nil && v.Key() != "1" && !strings.Contains(v.Key(), "Peek(k.NextBridgeId, ctx)") {
				o.Fail(c.W.Pos(exp.Pos()), "exported NextBridgeId is "+trunc(v.Key(), 100), nil)
			}
			// the Bridge records: elements appended to the slice stored in Bridges
			elems, ok := listOf(set["Bridges"])
			if !ok {
				continue
			}
			for _, e := range elems {
				bs := fieldsSet(e)
				for _, f := range brFields {
					o.Sites++
					if _, ok := bs[f]; !ok {
						o.Fail(c.W.Pos(exp.Pos()), "exported Bridge record leaves field "+f+" unset", nil)
					}
				}
				// provenance of the scalar fields
				if v := bs["BridgeId"]; v != nil && !(v.Op == "opaque" && v.Name == "cbarg0") {
					o.Fail(c.W.Pos(exp.Pos()), "Bridge.BridgeId is "+trunc(v.Key(), 100)+", want the walked key", nil)
				}
				if v := bs["BridgeConfig"]; v != nil && !(v.Op == "opaque" && v.Name == "cbarg1") {
					o.Fail(c.W.Pos(exp.Pos()), "Bridge.BridgeConfig is "+trunc(v.Key(), 100)+", want the walked value", nil)
				}
				id := ""
				if v := bs["BridgeId"]; v != nil {
					id = v.Key()
				}
				if v := bs["NextL1Sequence"]; v != nil && v.Key() != "1" && !strings.Contains(v.Key(), "Get(k.NextL1Sequences, ctx, "+id+")") {
					o.Fail(c.W.Pos(exp.Pos()), "Bridge.NextL1Sequence is "+trunc(v.Key(), 120), nil)
				}
				if v := bs["NextOutputIndex"]; v != nil && v.Key() != "1" && !strings.Contains(v.Key(), "Get(k.NextOutputIndexes, ctx, "+id+")") {
					o.Fail(c.W.Pos(exp.Pos()), "Bridge.NextOutputIndex is "+trunc(v.Key(), 120), nil)
				}
				// nested records
				for _, pe := range listElems(bs["Proposals"]) {
					o.Sites++
					fs := fieldsSet(pe)
					oi, op := fs["OutputIndex"], fs["OutputProposal"]
					if oi == nil || op == nil || !strings.HasPrefix(oi.Key(), "(collections.Pair[K1, K2]).K2(opaque:cbarg0(") || !(op.Op == "opaque" && op.Name == "cbarg1") {
						o.Fail(c.W.Pos(exp.Pos()), "exported proposal record is "+trunc(pe.Key(), 200)+", want {OutputIndex: key.K2(), OutputProposal: value}", nil)
					}
				}
				for _, te := range listElems(bs["TokenPairs"]) {
					o.Sites++
					fs := fieldsSet(te)
					l1, l2 := fs["L1Denom"], fs["L2Denom"]
					if l1 == nil || l2 == nil || !(l1.Op == "opaque" && l1.Name == "cbarg1") || !strings.HasPrefix(l2.Key(), "(collections.Pair[K1, K2]).K2(opaque:cbarg0(") {
						o.Fail(c.W.Pos(exp.Pos()), "exported token pair record is "+trunc(te.Key(), 200)+", want {L1Denom: value, L2Denom: key.K2()}", nil)
					}
				}
				for _, be := range listElems(bs["BatchInfos"]) {
					o.Sites++
					if !(be.Op == "opaque" && be.Name == "cbarg1") {
						o.Fail(c.W.Pos(exp.Pos()), "exported batch info is "+trunc(be.Key(), 160)+", want the walked value", nil)
					}
				}
				for _, we := range listElems(bs["ProvenWithdrawals"]) {
					o.Sites++
					if !strings.Contains(we.Key(), "(collections.Pair[K1, K2]).K2(opaque:cbarg0(") {
						o.Fail(c.W.Pos(exp.Pos()), "exported claim hash is "+trunc(we.Key(), 160)+", want the walked key's hash part", nil)
					}
				}
			}
		}
		if nOK == 0 {
			o.Fail(c.W.Pos(exp.Pos()), "no returning path", nil)
		}
		oc := c.Ob("C16.R2", "ophost ExportGenesis: every enumerated element reaches its list (no early stop, no skipped element)")
		for _, p := range pathsWithFallback(c, exp, PO{Params: []string{"k", "ctx"}, Callbacks: true, Depth: 9, WalkRounds: 2}, PO{Params: []string{"k", "ctx"}, Callbacks: true, Depth: 9}) {
			oc.Paths++
			if p.Panic || len(p.RetVal) != 1 {
				continue
			}
			set := fieldsSet(p.RetVal[0])
			lists := map[string][]*Term{"BridgeConfigs": listElems(set["Bridges"]), "OutputProposals": nil, "ProvenWithdrawals": nil, "TokenPairs": nil, "BatchInfos": nil}
			raws := map[string]*Term{"BridgeConfigs": set["Bridges"]}
			for _, e := range lists["BridgeConfigs"] {
				bs := fieldsSet(e)
				raws["OutputProposals"], raws["ProvenWithdrawals"], raws["TokenPairs"], raws["BatchInfos"] = bs["Proposals"], bs["ProvenWithdrawals"], bs["TokenPairs"], bs["BatchInfos"]
				lists["OutputProposals"] = append(lists["OutputProposals"], listElems(bs["Proposals"])...)
				lists["ProvenWithdrawals"] = append(lists["ProvenWithdrawals"], listElems(bs["ProvenWithdrawals"])...)
				lists["TokenPairs"] = append(lists["TokenPairs"], listElems(bs["TokenPairs"])...)
				lists["BatchInfos"] = append(lists["BatchInfos"], listElems(bs["BatchInfos"])...)
			}
			exportComplete(c, oc, c.W.Pos(exp.Pos()), p, lists, raws)
		}
		if oc.Sites < 5 {
			oc.Fail(c.W.Pos(exp.Pos()), fmt.Sprintf("only %d enumerations found on returning export paths (floor 5)", oc.Sites), nil)
		}
		// record construction inside the iterate helpers / callbacks: WrappedOutput, TokenPair
		o2 := c.Ob("C16.R2", "ophost export records: WrappedOutput{OutputIndex: key.K2(), OutputProposal: value}; TokenPair{L1Denom: value, L2Denom: key.K2()}; per-bridge prefix ranges")
		for _, p := range c.Paths(exp, PO{Params: []string{"k", "ctx"}, Callbacks: true, Depth: 9}) {
			for i := range p.Events {
				ev := &p.Events[i]
				if f, m, ok := collOp(ev); ok && (m == "Walk" || m == "Iterate") {
					o2.Sites++
					rng := strip(ev.Call.Args[2])
					switch f {
					case "BridgeConfigs":
						if rng.Key() != "nil" {
							o2.Fail(c.evPos(ev), "bridges enumerated over range "+rng.Key(), nil)
						}
					case "OutputProposals", "ProvenWithdrawals", "TokenPairs", "BatchInfos":
						bk := bridgeKeyOf(rng)
						if !(bk.Op == "opaque" && bk.Name == "cbarg0") || strings.Contains(rng.Key(), "Descending") {
							o2.Fail(c.evPos(ev), f+" exported over range "+trunc(rng.Key(), 120)+" (want ascending prefix of the walked bridge id)", nil)
						}
					}
				}
			}
		}
		if o2.Sites < 5 {
			o2.Fail(c.W.Pos(exp.Pos()), fmt.Sprintf("only %d walks found in export (floor 5)", o2.Sites), nil)
		}
		// closures that build the records
		for _, an := range exp.AnonFuncs {
			for _, p := range c.Paths(an, PO{Visits: 2}) {
				_ = p
			}
		}
	})

	c.Rule("C16.R3", func() {
		imp := c.Method(hostKeeper, "Keeper", "InitGenesis")
		o := c.Ob("C16.R3", "ophost InitGenesis: every setter receives the record's own key parts and value")
		want := map[string][]string{
			"Keeper).SetParams":              {"data.Params"},
			"Keeper).SetBridgeConfig":        {"B.BridgeId", "B.BridgeConfig"},
			"Keeper).SetNextL1Sequence":      {"B.BridgeId", "B.NextL1Sequence"},
			"Keeper).SetOutputProposal":      {"B.BridgeId", "B.Proposals[#].OutputIndex", "B.Proposals[#].OutputProposal"},
			"Keeper).SetNextOutputIndex":     {"B.BridgeId", "B.NextOutputIndex"},
			"Keeper).RecordProvenWithdrawal": {"B.BridgeId", "*"},
			"Keeper).SetTokenPair":           {"B.BridgeId", "B.TokenPairs[#].L2Denom", "B.TokenPairs[#].L1Denom"},
			"Keeper).SetBatchInfo":           {"B.BridgeId", "B.BatchInfos[#].BatchInfo", "B.BatchInfos[#].Output"},
			"Keeper).SetNextBridgeId":        {"data.NextBridgeId"},
		}
		var noInl []string
		for k := range want {
			noInl = append(noInl, k)
		}
		sort.Strings(noInl)
		seen := map[string]bool{}
		for _, p := range c.Paths(imp, PO{Params: []string{"k", "ctx", "data"}, Visits: 3, NoInline: noInl}) {
			o.Paths++
			o.Facts += p.NFacts()
			for i := range p.Events {
				ev := &p.Events[i]
				if ev.Kind != EvCall {
					continue
				}
				for suffix, ws := range want {
					if !strings.HasSuffix(ev.Call.Name, suffix) {
						continue
					}
					seen[suffix] = true
					o.Sites++
					args := ev.Call.Args[2:]
					if len(args) != len(ws) {
						o.Fail(c.evPos(ev), methodOf(suffix)+" arity", nil)
						continue
					}
					// which bridge element?
					bridge := ""
					for k, a := range args {
						got := strip(a).Key()
						w := ws[k]
						if w == "*" {
							// the hash: copied from B.ProvenWithdrawals[j]
							if !strings.Contains(got, ".ProvenWithdrawals[") {
								o.Fail(c.evPos(ev), "claim restored from "+trunc(got, 120), c.Dump(p, i))
							}
							// ... of the SAME bridge record the id was taken from
							if j := strings.Index(got, "data.Bridges["); j >= 0 {
								b := got[j:]
								b = b[:strings.Index(b, "]")+1]
								if bridge == "" {
									bridge = b
								} else if bridge != b {
									o.Fail(c.evPos(ev), methodOf(suffix)+" mixes two bridge records: id of "+bridge+", claim of "+b, c.Dump(p, i))
								}
							}
							continue
						}
						if strings.HasPrefix(w, "data.") {
							if got != w {
								o.Fail(c.evPos(ev), methodOf(suffix)+" argument "+fmt.Sprint(k)+" is "+trunc(got, 120)+", want "+w, c.Dump(p, i))
							}
							continue
						}
						// B.<path> where B = data.Bridges[i] and [#] any constant index, consistent within the call
						if !strings.HasPrefix(got, "data.Bridges[") {
							o.Fail(c.evPos(ev), methodOf(suffix)+" argument "+fmt.Sprint(k)+" is "+trunc(got, 120)+", want a field of the imported bridge record", c.Dump(p, i))
							continue
						}
						end := strings.Index(got, "]")
						b := got[:end+1]
						if bridge == "" {
							bridge = b
						} else if bridge != b {
							o.Fail(c.evPos(ev), methodOf(suffix)+" mixes two bridge records: "+bridge+" and "+b, c.Dump(p, i))
						}
						rest := got[end+1:]
						wrest := strings.TrimPrefix(w, "B")
						if !matchIndexed(rest, wrest) {
							o.Fail(c.evPos(ev), methodOf(suffix)+" argument "+fmt.Sprint(k)+" is "+trunc(got, 120)+", want "+w, c.Dump(p, i))
						}
					}
					// element index consistency: all [#] in one call equal
					idx := ""
					for _, a := range args {
						g := strip(a).Key()
						if j := strings.LastIndex(g, "["); j > strings.Index(g, "]") && j >= 0 {
							e := g[j:]
							e = e[:strings.Index(e, "]")+1]
							if idx == "" {
								idx = e
							} else if idx != e {
								o.Fail(c.evPos(ev), methodOf(suffix)+" combines fields of different list elements ("+idx+" vs "+e+")", c.Dump(p, i))
							}
						}
					}
				}
			}
		}
		for suffix := range want {
			if !seen[suffix] {
				o.Fail(c.W.Pos(imp.Pos()), "InitGenesis never calls "+methodOf(suffix)+" within the unrolling bound", nil)
			}
		}
		oi := c.Ob("C16.R3", "ophost InitGenesis: every list of the genesis record (bridges and their nested lists) is walked to its end on every returning path and every visited element is written")
		hgst := c.W.ByPath[modPath+"/x/"+hostTypes].Types.Scope().Lookup("GenesisState").Type().Underlying().(*types.Struct)
		for _, p := range c.Paths(imp, PO{Params: []string{"k", "ctx", "data"}, Visits: 3, NoInline: noInl}) {
			oi.Paths++
			if p.Panic {
				continue
			}
			importComplete(c, oi, c.W.Pos(imp.Pos()), p, "data", hgst, nil, 0)
		}
		if oi.Sites == 0 {
			oi.Fail(c.W.Pos(imp.Pos()), "no list examined on a returning path", nil)
		}
		// field coverage on the read side
		o2 := c.Ob("C16.R2", "ophost InitGenesis reads every field of GenesisState and Bridge")
		mention := map[string]bool{}
		for _, p := range c.Paths(imp, PO{Params: []string{"k", "ctx", "data"}, Visits: 3, NoInline: noInl}) {
			for i := range p.Events {
				if t := p.Events[i].Call; t != nil {
					t.Walk(func(x *Term) bool {
						if x.Op == "field" {
							k := x.Key()
							if strings.HasPrefix(k, "data.") {
								mention[k] = true
							}
						}
						return true
					})
				}
			}
		}
		for _, f := range structFields(c, hostTypes, "GenesisState") {
			o2.Sites++
			ok := false
			for k := range mention {
				if k == "data."+f || strings.HasPrefix(k, "data."+f+"[") || strings.HasPrefix(k, "data."+f+".") {
					ok = true
				}
			}
			if !ok {
				o2.Fail(c.W.Pos(imp.Pos()), "InitGenesis never uses GenesisState."+f, nil)
			}
		}
		for _, f := range structFields(c, hostTypes, "Bridge") {
			o2.Sites++
			ok := false
			for k := range mention {
				if strings.HasPrefix(k, "data.Bridges[") && (strings.Contains(k, "]."+f+".") || strings.HasSuffix(k, "]."+f) || strings.Contains(k, "]."+f+"[")) {
					ok = true
				}
			}
			if !ok {
				o2.Fail(c.W.Pos(imp.Pos()), "InitGenesis never uses Bridge."+f, nil)
			}
		}
	})

	// ---- opchild R2/R3
	c.Rule("C16.R3", func() {
		imp := c.Method(childKeeper, "Keeper", "InitGenesis")
		o := c.Ob("C16.R3", "opchild InitGenesis: setters receive the imported records' own keys and values; the consensus-key index is rebuilt for every validator")
		noInl := []string{"Keeper).SetParams", "Keeper).SetValidator", "Keeper).SetValidatorByConsAddr", "Keeper).SetLastValidatorPower", "Keeper).GetValidator", "ApplyAndReturnValidatorSetUpdates", "Keeper).SetNextL1Sequence", "Keeper).SetNextL2Sequence", "ABCIValidatorUpdate", "BridgeInfo).Validate"}
		seen := map[string]bool{}
		for _, p := range c.Paths(imp, PO{Params: []string{"k", "ctx", "data"}, Visits: 3, NoInline: noInl, Pure: []string{"ABCIValidatorUpdate"}}) {
			o.Paths++
			o.Facts += p.NFacts()
			for i := range p.Events {
				ev := &p.Events[i]
				if ev.Kind != EvCall {
					continue
				}
				n := ev.Call.Name
				a := ev.Call.Args
				chk := func(k int, want string) {
					if got := strip(a[k]).Key(); got != want {
						o.Fail(c.evPos(ev), methodOf(n)+" argument is "+trunc(got, 120)+", want "+want, c.Dump(p, i))
					}
				}
				switch {
				case strings.HasSuffix(n, "Keeper).SetParams"):
					seen["Params"] = true
					o.Sites++
					chk(2, "data.Params")
				case strings.HasSuffix(n, "Keeper).SetValidator"):
					seen["Validators"] = true
					o.Sites++
					if !strings.HasPrefix(strip(a[2]).Key(), "data.Validators[") {
						o.Fail(c.evPos(ev), "validator restored from "+trunc(a[2].Key(), 100), c.Dump(p, i))
					}
				case strings.HasSuffix(n, "Keeper).SetLastValidatorPower"):
					seen["LastValidatorPowers"] = true
					o.Sites++
					d := decodedFrom(a[2])
					if d == nil || !strings.HasPrefix(d.Key(), "data.LastValidatorPowers[") || !strings.HasSuffix(d.Key(), ".Address") ||
						strip(a[3]).Key() != strings.TrimSuffix(d.Key(), ".Address")+".Power" {
						o.Fail(c.evPos(ev), "last power restored as ("+trunc(a[2].Key(), 100)+", "+trunc(a[3].Key(), 60)+")", c.Dump(p, i))
					}
				case strings.HasSuffix(n, "Keeper).SetNextL1Sequence"):
					seen["NextL1Sequence"] = true
					o.Sites++
					chk(2, "data.NextL1Sequence")
				case strings.HasSuffix(n, "Keeper).SetNextL2Sequence"):
					seen["NextL2Sequence"] = true
					o.Sites++
					chk(2, "data.NextL2Sequence")
				default:
					if f, m, ok := collOp(ev); ok && m == "Set" {
						switch f {
						case "BridgeInfo":
							seen["BridgeInfo"] = true
							o.Sites++
							chk(2, "data.BridgeInfo")
						case "DenomPairs":
							seen["DenomPairs"] = true
							o.Sites++
							k := strip(a[2]).Key()
							if !strings.HasPrefix(k, "data.DenomPairs[") || !strings.HasSuffix(k, ".Denom") || strip(a[3]).Key() != strings.TrimSuffix(k, ".Denom")+".BaseDenom" {
								o.Fail(c.evPos(ev), "denom pair restored as ("+trunc(k, 80)+" -> "+trunc(a[3].Key(), 80)+")", c.Dump(p, i))
							}
						}
					}
				}
			}
		}
		for _, f := range []string{"Params", "Validators", "LastValidatorPowers", "NextL1Sequence", "NextL2Sequence", "BridgeInfo", "DenomPairs"} {
			if !seen[f] {
				o.Fail(c.W.Pos(imp.Pos()), "InitGenesis never restores "+f+" within the unrolling bound", nil)
			}
		}
		indexPaired(c, "C16.R3", "InitGenesis")
		oi := c.Ob("C16.R3", "opchild InitGenesis: every list of the genesis record is walked to its end on every returning path and every visited element is written")
		gst := c.W.ByPath[modPath+"/x/"+childTypes].Types.Scope().Lookup("GenesisState").Type().Underlying().(*types.Struct)
		for _, p := range c.Paths(imp, PO{Params: []string{"k", "ctx", "data"}, Visits: 3, NoInline: noInl, Pure: []string{"ABCIValidatorUpdate"}}) {
			oi.Paths++
			if p.Panic {
				continue
			}
			importComplete(c, oi, c.W.Pos(imp.Pos()), p, "data", gst, map[string]string{"data.LastValidatorPowers": "data.Exported"}, 0)
		}
		if oi.Sites == 0 {
			oi.Fail(c.W.Pos(imp.Pos()), "no list examined on a returning path", nil)
		}
		exp := c.Method(childKeeper, "Keeper", "ExportGenesis")
		o2 := c.Ob("C16.R2", "opchild ExportGenesis: every GenesisState field is set from the matching store value; Exported = true")
		nOK := 0
		for _, p := range c.Paths(exp, PO{Params: []string{"k", "ctx"}, Callbacks: true, NoInline: []string{"GetAllValidators", "Keeper).GetNextL1Sequence", "Keeper).GetNextL2Sequence"}}) {
			o2.Paths++
			if p.Panic || len(p.RetVal) != 1 {
				continue
			}
			nOK++
			set := fieldsSet(p.RetVal[0])
			for _, f := range structFields(c, childTypes, "GenesisState") {
				o2.Sites++
				if _, ok := set[f]; !ok {
					o2.Fail(c.W.Pos(exp.Pos()), "exported GenesisState leaves field "+f+" unset", nil)
				}
			}
			wantSrc := map[string]string{"Params": "Get(k.Params, ctx)", "Validators": "GetAllValidators(k, ctx)", "NextL1Sequence": "GetNextL1Sequence(k, ctx)", "NextL2Sequence": "GetNextL2Sequence(k, ctx)"}
			for f, src := range wantSrc {
				if v := set[f]; v != nil && !strings.Contains(v.Key(), src) {
					o2.Fail(c.W.Pos(exp.Pos()), "exported "+f+" is "+trunc(v.Key(), 100)+", want "+src, nil)
				}
			}
			// BridgeInfo: the stored value whenever one exists; nil only when Has == false
			if v := set["BridgeInfo"]; v != nil {
				var has *Term
				for _, i := range collEvents(p, len(p.Events), "BridgeInfo", "Has") {
					has = p.Events[i].Call
				}
				switch {
				case has == nil:
					o2.Fail(c.W.Pos(exp.Pos()), "BridgeInfo exported without probing the store (Has)", c.Dump(p, -1))
				case p.factIs(len(p.Events), has.String()+".0", true):
					// the field points at a local holding the loaded value
					loaded := false
					for _, i := range collEvents(p, len(p.Events), "BridgeInfo", "Get") {
						if p.factIs(len(p.Events), "("+p.Events[i].Call.String()+".1 == nil)", true) {
							loaded = true
						}
					}
					if !(strings.Contains(v.Key(), "Get(k.BridgeInfo, ctx)") || (v.Op == "addr" && loaded)) {
						o2.Fail(c.W.Pos(exp.Pos()), "a stored BridgeInfo is exported as "+trunc(v.Key(), 100), c.Dump(p, -1))
					}
				case p.factIs(len(p.Events), has.String()+".0", false):
					if !v.IsNil() && !strings.Contains(v.Key(), "zero") {
						o2.Fail(c.W.Pos(exp.Pos()), "BridgeInfo exported as "+trunc(v.Key(), 100)+" although none is stored", c.Dump(p, -1))
					}
				default:
					o2.Fail(c.W.Pos(exp.Pos()), "BridgeInfo export does not depend on whether one is stored", c.Dump(p, -1))
				}
			}
			// the two walked lists come from their own collections
			for f, coll := range map[string]string{"LastValidatorPowers": "k.LastValidatorPowers", "DenomPairs": "k.DenomPairs"} {
				for _, e := range listElems(set[f]) {
					okSrc := false
					e.Walk(func(x *Term) bool {
						if x.Op == "opaque" && strings.HasPrefix(x.Name, "cbarg") && len(x.Args) >= 1 && strings.Contains(x.Args[0].Key(), coll) {
							okSrc = true
						}
						return !okSrc
					})
					if !okSrc {
						o2.Fail(c.W.Pos(exp.Pos()), "exported "+f+" element "+trunc(e.Key(), 120)+" does not come from a walk over "+coll, nil)
					}
				}
			}
			if v := set["Exported"]; v != nil && !v.IsTrue() {
				o2.Fail(c.W.Pos(exp.Pos()), "Exported flag is "+v.Key()+" (re-import would re-run the validator diff instead of replaying last powers)", nil)
			}
			for _, e := range listElems(set["LastValidatorPowers"]) {
				fs := fieldsSet(e)
				if a, pw := fs["Address"], fs["Power"]; a == nil || pw == nil || !strings.Contains(a.Key(), "cbarg0") || !(pw.Op == "opaque" && pw.Name == "cbarg1") {
					o2.Fail(c.W.Pos(exp.Pos()), "exported LastValidatorPower is "+trunc(e.Key(), 160), nil)
				}
			}
			for _, e := range listElems(set["DenomPairs"]) {
				fs := fieldsSet(e)
				if d, b := fs["Denom"], fs["BaseDenom"]; d == nil || b == nil || !(d.Op == "opaque" && d.Name == "cbarg0") || !(b.Op == "opaque" && b.Name == "cbarg1") {
					o2.Fail(c.W.Pos(exp.Pos()), "exported DenomPair is "+trunc(e.Key(), 160), nil)
				}
			}
		}
		if nOK == 0 {
			o2.Fail(c.W.Pos(exp.Pos()), "no returning path", nil)
		}
		oc := c.Ob("C16.R2", "opchild ExportGenesis: every enumerated element reaches its list (no early stop, no skipped element)")
		for _, p := range c.Paths(exp, PO{Params: []string{"k", "ctx"}, Callbacks: true, WalkRounds: 2, NoInline: []string{"GetAllValidators", "Keeper).GetNextL1Sequence", "Keeper).GetNextL2Sequence"}}) {
			oc.Paths++
			if p.Panic || len(p.RetVal) != 1 {
				continue
			}
			set := fieldsSet(p.RetVal[0])
			exportComplete(c, oc, c.W.Pos(exp.Pos()), p, map[string][]*Term{"LastValidatorPowers": listElems(set["LastValidatorPowers"]), "DenomPairs": listElems(set["DenomPairs"])},
				map[string]*Term{"LastValidatorPowers": set["LastValidatorPowers"], "DenomPairs": set["DenomPairs"]})
		}
		if oc.Sites < 2 {
			oc.Fail(c.W.Pos(exp.Pos()), fmt.Sprintf("only %d enumerations found on returning export paths (floor 2)", oc.Sites), nil)
		}
	})

	c.Rule("C16.R4", func() {
		// same obligation as C10.R1, evaluated here for the genesis argument
		hs := c.Handlers("ophost")
		o := c.Ob("C16.R4", "every run-time per-bridge write happens under an existing bridge config (so export, which enumerates BridgeConfigs, sees it)")
		for _, hn := range sortedKeys(hs) {
			if hn == "CreateBridge" {
				continue
			}
			for _, p := range c.Paths(hs[hn], PO{Params: hParams, NoInline: []string{".Validate"}}) {
				o.Paths++
				o.Facts += p.NFacts()
				for i := range p.Events {
					ev := &p.Events[i]
					k := effectKind(ev)
					if !strings.HasPrefix(k, "coll:") {
						continue
					}
					f, _, _ := collOp(ev)
					per := false
					for _, n := range hostPerBridge {
						if n == f {
							per = true
						}
					}
					if !per {
						continue
					}
					o.Sites++
					if !p.HasFact(i, func(a *Term, pol bool) bool {
						x := eqOther(a, "nil")
						return pol && x != nil && x.Key() == "(collections.Map[K, V]).Get(ms.Keeper.BridgeConfigs, ctx, req.BridgeId).1"
					}) {
						o.Fail(c.evPos(ev), "ophost."+hn+" writes "+k+" for a bridge id without a config: that state is invisible to ExportGenesis", c.Dump(p, i))
					}
				}
			}
		}
		// CreateBridge writes the config itself before anything else per-bridge
		cb := hs["CreateBridge"]
		o2 := c.Ob("C16.R4", "CreateBridge stores the bridge config before any other per-bridge record")
		for _, p := range c.Paths(cb, PO{Params: hParams, NoInline: []string{".Validate"}}) {
			o2.Paths++
			first := ""
			for i := range p.Events {
				ev := &p.Events[i]
				if f, m, ok := collOp(ev); ok && !collReads[m] {
					for _, n := range hostPerBridge {
						if n == f && first == "" {
							first = f
							o2.Sites++
						}
					}
				}
			}
			if first != "" && first != "BridgeConfigs" {
				o2.Fail(c.W.Pos(cb.Pos()), "first per-bridge write is "+first, c.Dump(p, -1))
			}
		}
	})

	c.Rule("C16.R5", func() {
		for _, m := range []string{"ophost", "opchild"} {
			vg := c.Func(m+"/types", "ValidateGenesis")
			ab := c.Method(m, "AppModuleBasic", "ValidateGenesis")
			o := c.Ob("C16.R5", m+": the module's ValidateGenesis entry point runs types.ValidateGenesis on the decoded state and returns its result")
			found := false
			for _, s := range eff.ReachSites(ab, func(s *Site) bool { return s.Kind == SStatic && s.Target == vg }) {
				_ = s
				found = true
				o.Sites++
			}
			if !found {
				o.Fail(c.W.Pos(ab.Pos()), "types.ValidateGenesis is not reachable from AppModuleBasic.ValidateGenesis", nil)
			}
			for _, p := range c.Paths(ab, PO{NoInline: []string{"types.ValidateGenesis"}}) {
				o.Paths++
				calls := p.Find(func(ev *Event) bool {
					return ev.Kind == EvCall && strings.HasSuffix(ev.Call.Name, "types.ValidateGenesis")
				})
				if p.OK() && !p.Panic {
					if len(calls) != 1 || !p.factIsOrRet(p.Events[calls[0]].Call) {
						o.Fail(c.W.Pos(ab.Pos()), "success without a successful types.ValidateGenesis", c.Dump(p, -1))
					}
				}
			}
		}
		for _, m := range []struct{ pkg, label string }{{hostTypes, "ophost"}, {childTypes, "opchild"}} {
			vgf := c.Func(m.pkg, "ValidateGenesis")
			orr := c.Ob("C16.R5", m.label+" ValidateGenesis: every relational rejection (record against record, field against field) is one of the confirmed invariants of exportable states")
			got := relationalRejections(c, vgf, PO{Params: []string{"data", "ac"}, Visits: 3, NoInline: []string{"BridgeConfig).Validate", "Output).Validate", "Params).Validate", "BridgeInfo).Validate"}})
			for _, k := range sortedKeys(got) {
				orr.Sites++
				if !pinnedRelationalRejections[m.label][k] && !(m.label == "opchild" && dupConsKeyRejection(k)) {
					orr.Fail(got[k], "new relational rejection in ValidateGenesis: "+trunc(k, 220)+" - an exported state that violates it would not re-import (confirm the invariant and pin it)", nil)
				}
			}
			if orr.Sites == 0 {
				orr.Sites = 1 // validator examined; it has no relational rejection
			}
		}
		vg := c.Func(hostTypes, "ValidateGenesis")
		o := c.Ob("C16.R5", "ophost ValidateGenesis: nil only with valid bridge config, non-zero bridge id, sequence >= 1, 32-byte claims, non-zero output indexes, next bridge id >= 1")
		nOK := 0
		for _, p := range c.Paths(vg, PO{Params: []string{"data", "ac"}, Visits: 3, NoInline: []string{"BridgeConfig).Validate", "Output).Validate", "Params).Validate", "IsEmpty"}}) {
			o.Paths++
			o.Facts += p.NFacts()
			if !p.MayOK() {
				continue
			}
			nOK++
			end := len(p.Events)
			// the tail call must be the params validation
			if last := p.Ret[len(p.Ret)-1]; !last.IsNil() && !(last.Op == "call" && strings.HasSuffix(last.Name, "Params).Validate") && last.Args[0].Key() == "data.Params") {
				o.Fail(c.W.Pos(vg.Pos()), "accepting path does not end in data.Params.Validate(): "+trunc(last.Key(), 100), c.Dump(p, -1))
			}
			for i := 0; ; i++ {
				b := fmt.Sprintf("data.Bridges[%d]", i)
				if !p.HasFact(end, func(a *Term, pol bool) bool {
					return pol && a.Op == "bin" && a.Name == "<" && a.Args[0].Key() == fmt.Sprint(i) && a.Args[1].Key() == "builtin.len(data.Bridges)"
				}) {
					break
				}
				o.Sites++
				need := map[string]bool{
					"bridge config validated": p.HasFact(end, func(a *Term, pol bool) bool {
						x := eqOther(a, "nil")
						return pol && x != nil && x.Op == "call" && strings.HasSuffix(x.Name, "BridgeConfig).Validate") && x.Args[0].Key() == b+".BridgeConfig"
					}),
					"bridge id != 0": p.nonZeroOn(end, b+".BridgeId"),
					"next L1 sequence >= 1": func() bool {
						rel, n := p.Relation(end, keyIs(b+".NextL1Sequence"), keyIs("1"))
						return n > 0 && rel&rLT == 0
					}(),
				}
				for k, ok := range need {
					if !ok {
						o.Fail(c.W.Pos(vg.Pos()), "genesis accepted without: "+k+" (bridge "+fmt.Sprint(i)+")", c.Dump(p, -1))
					}
				}
				for j := 0; ; j++ {
					w := fmt.Sprintf("%s.ProvenWithdrawals[%d]", b, j)
					if !p.HasFact(end, func(a *Term, pol bool) bool {
						return pol && a.Op == "bin" && a.Name == "<" && a.Args[0].Key() == fmt.Sprint(j) && a.Args[1].Key() == "builtin.len("+b+".ProvenWithdrawals)"
					}) {
						break
					}
					if !p.HasFact(end, func(a *Term, pol bool) bool { return pol && eqAtom(a, "builtin.len("+w+")", "32") }) {
						o.Fail(c.W.Pos(vg.Pos()), "claim hash "+w+" accepted without len == 32 (import copies it into a [32]byte)", c.Dump(p, -1))
					}
				}
				for j := 0; ; j++ {
					w := fmt.Sprintf("%s.Proposals[%d]", b, j)
					if !p.HasFact(end, func(a *Term, pol bool) bool {
						return pol && a.Op == "bin" && a.Name == "<" && a.Args[0].Key() == fmt.Sprint(j) && a.Args[1].Key() == "builtin.len("+b+".Proposals)"
					}) {
						break
					}
					if !p.nonZeroOn(end, w+".OutputIndex") {
						o.Fail(c.W.Pos(vg.Pos()), "proposal "+w+" accepted with output index 0", c.Dump(p, -1))
					}
				}
			}
			rel, n := p.Relation(end, keyIs("data.NextBridgeId"), keyIs("1"))
			if n == 0 || rel&rLT != 0 {
				o.Fail(c.W.Pos(vg.Pos()), "genesis accepted with NextBridgeId < 1", c.Dump(p, -1))
			}
		}
		if nOK == 0 {
			o.Fail(c.W.Pos(vg.Pos()), "no nil path", nil)
		}
		if o.Sites == 0 {
			o.Fail(c.W.Pos(vg.Pos()), "no nil path visits a bridge record", nil)
		}
	})
}

// matchIndexed: got like ".Proposals[1].OutputIndex" matches want ".Proposals[#].OutputIndex".
func matchIndexed(got, want string) bool {
	gi, wi := 0, 0
	for gi < len(got) && wi < len(want) {
		if want[wi] == '#' {
			for gi < len(got) && got[gi] >= '0' && got[gi] <= '9' {
				gi++
			}
			wi++
			continue
		}
		if got[gi] != want[wi] {
			return false
		}
		gi++
		wi++
	}
	return gi == len(got) && wi == len(want)
}

func listElems(t *Term) []*Term {
	if t == nil {
		return nil
	}
	l, _ := listOf(t)
	return l
}

// factIsOrRet: the call's error is established nil on the path, or the call's result is what the path returns.
func (p *Path) factIsOrRet(call *Term) bool {
	if p.factIs(len(p.Events), "("+call.String()+" == nil)", true) {
		return true
	}
	return len(p.Ret) > 0 && p.Ret[len(p.Ret)-1].String() == call.String()
}

var _ *ssa.Function

// exportComplete: on a returning export path every enumeration (Walk callback invocation or
// cursor position) of the listed collections contributes exactly one record to its list, a
// Walk callback never asks to stop with a nil error, and a cursor is left only when exhausted.
// lists maps the collection field to the exported elements that must come from it.
func exportComplete(c *Ctx, o *Obl, pos string, p *Path, lists map[string][]*Term, raw ...map[string]*Term) {
	// a callback that ends with an error that is established non-nil makes the enumeration
	// fail (export panics): such a path is not a returning path in reality
	errNonNil := func(t *Term) bool {
		if t.IsNil() {
			return false
		}
		return nonNil(t) || p.HasFact(len(p.Events), func(a *Term, pol bool) bool { return !pol && eqAtomS(a, strip(t).String(), "nil") })
	}
	for i := range p.Events {
		ev := &p.Events[i]
		if ev.Kind == EvCbEnd && ev.Res != nil && ev.Res.Op == "tuple" && len(ev.Res.Args) == 2 && errNonNil(ev.Res.Args[1]) {
			return
		}
	}
	for i := range p.Events {
		ev := &p.Events[i]
		f, m, ok := collOp(ev)
		if !ok || (m != "Walk" && m != "Iterate") {
			continue
		}
		elems, tracked := lists[f]
		if !tracked {
			continue
		}
		o.Sites++
		wkey := ev.Call.String()
		visited := 0
		if m == "Walk" {
			for j := range p.Events {
				e2 := &p.Events[j]
				if e2.Kind != EvCbEnd || e2.Call == nil || e2.Call.String() != wkey {
					continue
				}
				visited++
				if r := e2.Res; r != nil && r.Op == "tuple" && len(r.Args) == 2 && !r.Args[0].IsFalse() {
					o.Fail(pos, "walk over "+f+" may stop early with a nil error (stop="+trunc(r.Args[0].Key(), 60)+"): the export would be truncated silently", c.Dump(p, j))
				}
			}
		} else {
			validAt := func(k int64, want bool) bool {
				return p.HasFact(len(p.Events), func(a *Term, pol bool) bool {
					if a.Op != "opaque" || a.Name != "itervalid" || len(a.Args) != 2 || a.Args[0].String() != wkey {
						return false
					}
					v, ok := a.Args[1].Int()
					return ok && v == k && pol == want
				})
			}
			n := int64(0)
			for validAt(n, true) {
				n++
			}
			if !validAt(n, false) {
				o.Fail(pos, "the cursor over "+f+" is left before it is exhausted: the export would be truncated silently", c.Dump(p, i))
			}
			visited = int(n)
		}
		got := 0
		for _, e := range elems {
			if strings.Contains(e.String(), wkey) {
				got++
			}
		}
		if got != visited {
			extra := ""
			if len(raw) > 0 && raw[0][f] != nil {
				extra = "; list = " + trunc(raw[0][f].Key(), 300)
			}
			o.Fail(pos, fmt.Sprintf("enumeration of %s visits %d element(s) but %d record(s) reach the exported list%s", f, visited, got, extra), c.Dump(p, i))
		}
	}
}

// importComplete: on a returning import path every list of the genesis record is walked to
// its end - for each slice-typed field F of the record (one level of nesting: the slice fields
// of the elements of a list of structs) there is an exhaustion fact !(n < len(root.F)) after n
// taken iterations, and every visited element i < n is mentioned by a restoring write.
// cond names lists that are restored only under a stated flag (fact key -> must be true).
func importComplete(c *Ctx, o *Obl, pos string, p *Path, root string, st *types.Struct, cond map[string]string, depth int) {
	lenFact := func(list string, i int, want bool) bool {
		return p.HasFact(len(p.Events), func(a *Term, pol bool) bool {
			return pol == want && a.Op == "bin" && a.Name == "<" && a.Args[0].Key() == fmt.Sprint(i) && strip(a.Args[1]).Key() == "builtin.len("+list+")"
		})
	}
	for k := 0; k < st.NumFields(); k++ {
		f := st.Field(k)
		sl, ok := f.Type().Underlying().(*types.Slice)
		if !ok {
			continue
		}
		if b, isB := sl.Elem().Underlying().(*types.Basic); isB && b.Kind() == types.Uint8 {
			continue // []byte: a value, not a list of records
		}
		list := root + "." + f.Name()
		if flag, isCond := cond[list]; isCond {
			if !p.HasFact(len(p.Events), func(a *Term, pol bool) bool { return pol && a.Key() == flag }) {
				continue
			}
		}
		o.Sites++
		n := 0
		for lenFact(list, n, true) {
			n++
		}
		if !lenFact(list, n, false) {
			o.Fail(pos, fmt.Sprintf("import returns without walking %s to its end (%d element(s) visited, no exhaustion test): records of the genesis file are dropped silently", list, n), c.Dump(p, -1))
			continue
		}
		for i := 0; i < n; i++ {
			el := fmt.Sprintf("%s[%d]", list, i)
			used := false
			for j := range p.Events {
				ev := &p.Events[j]
				if ev.Kind != EvCall || ev.Call == nil {
					continue
				}
				_, m, isColl := collOp(ev)
				if !(isColl && m == "Set") && !strings.Contains(ev.Call.Name, ").Set") && !strings.Contains(ev.Call.Name, ").Record") {
					continue
				}
				for _, a := range ev.Call.Args {
					if strings.Contains(a.Key(), el) {
						used = true
					}
				}
			}
			if !used {
				o.Fail(pos, "element "+el+" is visited but never written to the store", c.Dump(p, -1))
			}
			if est, ok := sl.Elem().Underlying().(*types.Struct); ok && depth == 0 {
				importComplete(c, o, pos, p, el, est, cond, depth+1)
			}
		}
	}
}

// relationalRejections: the guards under which a genesis validator returns an error and that
// compare two non-constant values of the genesis record with each other (record against
// record, field against field).  Single-field well-formedness tests (x == 0, len(x) != 32,
// Validate() != nil) are local and cannot contradict the exporter; a relational rejection is
// sound only if the relation is an invariant of every exportable state, which was confirmed by
// reading for the pinned ones and cannot be decided for a new one.
func relationalRejections(c *Ctx, fn *ssa.Function, po PO) map[string]string {
	idx := regexp.MustCompile(`\[\d+\]`)
	out := map[string]string{}
	for _, p := range c.Paths(fn, po) {
		if p.OK() || p.Panic || len(p.Ret) == 0 {
			continue
		}
		// the deciding guard: the last fact before the return
		for i := len(p.Events) - 1; i >= 0; i-- {
			ev := &p.Events[i]
			if ev.Kind != EvFact {
				continue
			}
			rf, ok := factRel(ev.Cond, ev.Pol)
			if !ok {
				break
			}
			x, y := rf.X.Key(), rf.Y.Key()
			if rf.X.IsConst() || rf.Y.IsConst() || !strings.Contains(x, "data.") || !strings.Contains(y, "data.") {
				break
			}
			// a loop test i < len(list) is not a rejection guard
			if strings.HasPrefix(y, "builtin.len(") || strings.HasPrefix(x, "builtin.len(") && rf.Y.IsConst() {
				break
			}
			x, y = idx.ReplaceAllString(x, "[#]"), idx.ReplaceAllString(y, "[#]")
			rel := rf.Rel
			if x > y { // operand order is not part of the condition
				x, y, rel = y, x, flipRel(rel)
			}
			k := x + " " + relString(rel) + " " + y
			out[k] = c.evPos(ev)
			break
		}
	}
	return out
}

// confirmed by reading: (ophost) the last batch info of a bridge equals the config's batch info
// - SetBatchInfo and the config update are performed together by CreateBridge / UpdateBatchInfo.
var pinnedRelationalRejections = map[string]map[string]bool{
	"ophost": {
		"data.Bridges[#].BatchInfos[(builtin.len(data.Bridges[#].BatchInfos) - 1)].BatchInfo {<,>} data.Bridges[#].BridgeConfig.BatchInfo": true,
	},
	"opchild": {},
}

// dupConsKeyRejection: (opchild) two validator records of the genesis file carry the same
// consensus key (the scratch-map duplicate check of validateGenesisStateValidators, now seen as
// the key equality it is).  Confirmed by reading: AddValidator refuses a consensus key that
// resolves in the by-consensus-address index and the record and index writers are paired
// (C13.R2); the executor-change path that can break the pairing is known finding D6 (C14.R5).
func dupConsKeyRejection(k string) bool {
	parts := strings.Split(k, " {=} ")
	return len(parts) == 2 && parts[0] == parts[1] && strings.Contains(parts[0], "data.Validators[#].ConsensusPubkey") && strings.Contains(parts[0], "PubKey).Bytes(")
}

// pathsWithFallback enumerates fn under po; when the bounded enumeration overflows (the two
// symbolic walk rounds multiply with cursor loops nested in the walked callback) it falls back
// to alt, a cheaper query for the same obligation.
func pathsWithFallback(c *Ctx, fn *ssa.Function, po, alt PO) (ps []*Path) {
	defer func() {
		if r := recover(); r != nil {
			if u, ok := r.(ErrUndecided); ok && strings.Contains(u.Why, "paths") {
				ps = c.Paths(fn, alt)
				return
			}
			panic(r)
		}
	}()
	return c.Paths(fn, po)
}
