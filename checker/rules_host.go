package main

import (
	"regexp"
	"fmt"
	"go/types"
	"strings"

	"golang.org/x/tools/go/ssa"
)

// ---------------------------------------------------------------------------
// shared recognisers for the ophost withdraw/deposit cluster

const (
	codecT  = "(ophost/types.AccountKeeper).AddressCodec(ms.Keeper.authKeeper)"
	outKey  = "collections.Join(req.BridgeId, req.OutputIndex)"
	outGet  = "(collections.Map[K, V]).Get(ms.Keeper.OutputProposals, ctx, " + outKey + ").0"
	hashFn  = "ophost/types.GenerateWithdrawalHash"
	rootFn  = "ophost/types.GenerateOutputRoot"
	proofFn = "ophost/types.GenerateRootHashFromProofs"
)

var wantHashArgs = []string{"req.BridgeId", "req.Sequence", "req.From", "req.To", "req.Amount.Denom", "(sdkmath.Int).Uint64(req.Amount.Amount)"}

// isClaimHash: t is GenerateWithdrawalHash over exactly the claimed request fields.
func isClaimHash(t *Term) (ok bool, why string) {
	t = strip(t)
	if t.Op != "call" || t.Name != hashFn || len(t.Args) != 6 {
		return false, "not a GenerateWithdrawalHash call: " + trunc(t.Key(), 120)
	}
	for i, w := range wantHashArgs {
		if strip(t.Args[i]).Key() != w {
			return false, fmt.Sprintf("hash argument %d is %s, want %s", i, strip(t.Args[i]).Key(), w)
		}
	}
	return true, ""
}

// claimKeyOK: Join(req.BridgeId, H[:]).
func claimKeyOK(k *Term) (ok bool, why string) {
	k = strip(k)
	if k.Op != "call" || k.Name != "collections.Join" || len(k.Args) != 2 {
		return false, "claim key is not collections.Join(bridgeId, hash): " + trunc(k.Key(), 120)
	}
	if k.Args[0].Key() != "req.BridgeId" {
		return false, "claim key's bridge component is " + k.Args[0].Key() + ", want req.BridgeId"
	}
	return isClaimHash(k.Args[1])
}

// finalityFact: the path (before upto) carries "blockTime is not before
// output(index).L1BlockTime + config.FinalizationPeriod", either on time.Time
// or on Unix seconds of both sides. which=+1: finalized (rel excludes <);
// which=-1: not finalized (rel is exactly <).
func finalityRel(p *Path, upto int, outVal, cfgVal string) (rel uint8, n int) {
	isNow := func(t *Term) bool {
		k := t.Key()
		return k == "(sdk.Context).BlockTime(ctx)" || k == "(time.Time).Unix((sdk.Context).BlockTime(ctx))"
	}
	dl := "(time.Time).Add(" + outVal + ".L1BlockTime, " + cfgVal + ".FinalizationPeriod)"
	isDeadline := func(t *Term) bool {
		k := t.Key()
		return k == dl || k == "(time.Time).Unix("+dl+")"
	}
	// both sides must be in the same unit: mixed forms are not recognised
	rel, n = p.Relation(upto, func(t *Term) bool { return isNow(t) }, func(t *Term) bool { return isDeadline(t) })
	return
}

func unitsAgree(p *Path, upto int) bool {
	ok := true
	for i := 0; i < upto && i < len(p.Events); i++ {
		ev := &p.Events[i]
		if ev.Kind != EvFact {
			continue
		}
		rf, is := factRel(ev.Cond, ev.Pol)
		if !is {
			continue
		}
		ux := strings.HasPrefix(rf.X.Key(), "(time.Time).Unix(")
		uy := strings.HasPrefix(rf.Y.Key(), "(time.Time).Unix(")
		if (strings.Contains(rf.X.Key(), "BlockTime") || strings.Contains(rf.Y.Key(), "BlockTime")) && ux != uy {
			ok = false
		}
	}
	return ok
}

func hostHandler(c *Ctx, name string) *ssa.Function {
	fn := c.W.Method(hostKeeper, "MsgServer", name)
	if fn == nil {
		panic(anchorErr{"ophost handler " + name})
	}
	return fn
}

func childHandler(c *Ctx, name string) *ssa.Function {
	fn := c.W.Method(childKeeper, "MsgServer", name)
	if fn == nil {
		panic(anchorErr{"opchild handler " + name})
	}
	return fn
}

var hostPO = PO{Params: hParams, NoInline: []string{".Validate"}}

// payoutIdx: index of the finalize SendCoins event on a path (-1 if none).
func payoutIdx(p *Path) int {
	for i := range p.Events {
		if isCall(&p.Events[i], "(ophost/types.BankKeeper).SendCoins") && p.Events[i].Kind == EvCall {
			return i
		}
	}
	return -1
}

func collEvents(p *Path, upto int, field, method string) []int {
	var out []int
	for i := 0; i < upto && i < len(p.Events); i++ {
		if f, m, ok := collOp(&p.Events[i]); ok && f == field && m == method {
			out = append(out, i)
		}
	}
	return out
}

// reqFieldsOf: the set of req.<Field> mentions inside a term.
func reqFieldsOf(t *Term) map[string]bool {
	out := map[string]bool{}
	t.Walk(func(x *Term) bool {
		if x.Op == "field" && len(x.Args) == 1 {
			b := x.Args[0]
			for b.Op == "deref" {
				b = b.Args[0]
			}
			if b.Op == "param" && b.Name == "req" {
				out[x.Name] = true
				return false
			}
		}
		return true
	})
	return out
}

// writersTable checks the exact set of root functions that contain a write
// site on a collection field (E6), with a floor.
func (c *Ctx) writersTable(rule, owner, field string, methods map[string]bool, allowed []string) {
	eff := c.W.BuildEffects()
	o := c.Ob(rule, fmt.Sprintf("writers of %s.%s %v = %v", owner, field, keysOf(methods), allowed))
	al := setOf(allowed...)
	seen := map[string]bool{}
	for _, s := range eff.Where(func(s *Site) bool {
		return s.Kind == SColl && s.Field == field && strings.HasPrefix(s.Owner, owner) && methods[s.Method]
	}) {
		o.Sites++
		for _, r := range eff.OwnerNames(s) {
			seen[r] = true
			o.Note(r + " " + s.Method + " @" + c.W.Pos(s.Pos) + attributedNote(s, r))
			if !al[r] {
				o.Fail(c.W.Pos(s.Pos), fmt.Sprintf("%s.%s in %s%s: not in the allowed writer table", field, s.Method, r, attributedNote(s, r)), nil)
			}
		}
	}
	for a := range al {
		if !seen[a] {
			o.Fail("-", "expected writer "+a+" not found (instance floor)", nil)
		}
	}
}

// attributedNote: " (via helper)" when the site sits in a transparent helper of its owner.
func attributedNote(s *Site, owner string) string {
	if in := fnShort(s.Root()); in != owner {
		return " (via " + in + ")"
	}
	return ""
}

// noSites: zero sites expected (positive control is in selftest witnesses).
func (c *Ctx) noCollSites(rule, owner, field string, methods map[string]bool) {
	eff := c.W.BuildEffects()
	o := c.Ob(rule, fmt.Sprintf("no %v on %s.%s anywhere", keysOf(methods), owner, field))
	// count reads to show the field is resolved at all
	for _, s := range eff.Where(func(s *Site) bool { return s.Kind == SColl && s.Field == field && strings.HasPrefix(s.Owner, owner) }) {
		o.Sites++
		if methods[s.Method] || (!collReads[s.Method] && !collWrites[s.Method]) {
			o.Fail(c.W.Pos(s.Pos), fmt.Sprintf("%s.%s in %s", field, s.Method, fnShort(s.Root())), nil)
		}
	}
	if o.Sites == 0 {
		o.Fail("-", "collection field "+owner+"."+field+" has no access site at all (anchor lost)", nil)
	}
}

// ---------------------------------------------------------------------------
// C02 — a withdrawal is paid out at most once

func propC02(c *Ctx) {
	c.Clauses = append(c.Clauses,
		"every path to the payout carries ProvenWithdrawals.Has(key)==(false,nil) and ProvenWithdrawals.Set(key,true)==nil on the same key term",
		"the claim key is Join(req.BridgeId, GenerateWithdrawalHash(bridge id, sequence, from, to, denom, amount)) and mentions no output-dependent field",
		"the claim set is monotone: Set(true) only in RecordProvenWithdrawal (callers: finalize handler, InitGenesis); no Remove/Clear anywhere",
		"Has/Record helpers build the same key; Query/Claimed returns the Has result unmodified")
	c.NotDecided = append(c.NotDecided, "collision resistance of the hash (A5)")
	c.Assumptions = append(c.Assumptions, "A1", "A2", "A3", "A5", "A10")
	fn := hostHandler(c, "FinalizeTokenWithdrawal")

	// claim records must survive a genesis export: the exported per-bridge claim lists never share memory
	defer exportFreshness(c, "C02.R6", "ophost")

	c.Rule("C02.R1", func() {
		o := c.Ob("C02.R1", "FinalizeTokenWithdrawal: payout guarded by not-claimed and recorded on the same key")
		o2 := c.Ob("C02.R2", "FinalizeTokenWithdrawal: claim key is output-independent and covers all six leaf fields")
		n := 0
		for _, p := range c.Paths(fn, hostPO) {
			o.Paths++
			o.Facts += p.NFacts()
			i := payoutIdx(p)
			if i < 0 {
				continue
			}
			n++
			o.Sites++
			where := c.evPos(&p.Events[i])
			has := collEvents(p, i, "ProvenWithdrawals", "Has")
			set := collEvents(p, i, "ProvenWithdrawals", "Set")
			if len(has) != 1 || len(set) != 1 {
				o.Fail(where, fmt.Sprintf("payout reached with %d claim lookups and %d claim records before it (want 1 and 1)", len(has), len(set)), c.Dump(p, i))
				continue
			}
			h, s := p.Events[has[0]].Call, p.Events[set[0]].Call
			if !p.factIs(i, h.String()+".0", false) {
				o.Fail(where, "payout reachable although the already-claimed lookup did not return false", c.Dump(p, i))
			}
			if !p.factIs(i, "("+h.String()+".1 == nil)", true) {
				o.Fail(where, "claim lookup error is not checked before the payout", c.Dump(p, i))
			}
			if !p.factIs(i, "("+s.String()+" == nil)", true) {
				o.Fail(where, "claim record error is not checked before the payout", c.Dump(p, i))
			}
			if h.Args[2].String() != s.Args[2].String() {
				o.Fail(where, "the key that is recorded differs from the key that was checked: "+trunc(s.Args[2].Key(), 150)+" vs "+trunc(h.Args[2].Key(), 150), c.Dump(p, i))
			}
			if v := s.Args[3]; !v.IsTrue() {
				o.Fail(where, "claim recorded with value "+v.Key()+" (want true)", c.Dump(p, i))
			}
			o2.Paths++
			o2.Sites++
			o2.Facts += p.NFacts()
			if ok, why := claimKeyOK(h.Args[2]); !ok {
				o2.Fail(where, why, c.Dump(p, i))
			}
			flds := reqFieldsOf(h.Args[2])
			if !sameSet(flds, setOf("BridgeId", "Sequence", "From", "To", "Amount")) {
				o2.Fail(where, "claim key mentions request fields "+fmt.Sprint(keysOf(flds))+", want exactly [Amount BridgeId From Sequence To]", c.Dump(p, i))
			}
		}
		if n == 0 {
			o.Fail(c.W.Pos(fn.Pos()), "no path reaches the payout (anchor floor)", nil)
		}
	})
	// "claimed exactly if paid": the claim record and the payout are committed together, so no
	// error of the handler's fallible calls (the bank send above all) may be dropped
	c.Rule("C02.R7", func() {
		errorDiscipline(c, "C02.R7", "ophost.FinalizeTokenWithdrawal", hostHandler(c, "FinalizeTokenWithdrawal"), PO{Params: hParams, Visits: 3})
	})

	// the paid-claim records survive a genesis round trip under their own bridge: the importer
	// records every claim of a bridge record under that record's id
	c.Rule("C02.R8", func() {
		imp := c.Method(hostKeeper, "Keeper", "InitGenesis")
		o := c.Ob("C02.R8", "ophost InitGenesis: every imported claim is recorded under the id of the bridge record it belongs to")
		re := regexp.MustCompile(`data\.Bridges\[\d+\]`)
		for _, p := range c.Paths(imp, PO{Params: []string{"k", "ctx", "data"}, Visits: 3, NoInline: []string{"Keeper).RecordProvenWithdrawal", "Keeper).SetBridgeConfig", "Keeper).SetOutputProposal", "Keeper).SetTokenPair", "Keeper).SetBatchInfo"}}) {
			o.Paths++
			for _, i := range p.Find(func(ev *Event) bool { return ev.Kind == EvCall && isCall(ev, "Keeper).RecordProvenWithdrawal") }) {
				o.Sites++
				a := p.Events[i].Call.Args
				if len(a) < 4 {
					continue
				}
				id, claim := strip(a[2]).Key(), strip(a[3]).Key()
				bi, bc := re.FindString(id), re.FindString(claim)
				if bi == "" || bc == "" || bi != bc || id != bi+".BridgeId" || !strings.Contains(claim, bc+".ProvenWithdrawals[") {
					o.Fail(c.evPos(&p.Events[i]), "claim "+trunc(claim, 100)+" recorded under "+trunc(id, 60), c.Dump(p, i))
				}
			}
		}
		if o.Sites == 0 {
			o.Fail(c.W.Pos(imp.Pos()), "no imported claim is recorded within the unrolling bound", nil)
		}
	})

	c.Rule("C02.R3", func() {
		c.writersTable("C02.R3", "ophost/keeper.Keeper", "ProvenWithdrawals", setOf("Set"), []string{"(ophost/keeper.MsgServer).FinalizeTokenWithdrawal", "(ophost.AppModule).InitGenesis"})
		c.noCollSites("C02.R3", "ophost/keeper.Keeper", "ProvenWithdrawals", setOf("Remove", "Clear"))
		rec := c.Method(hostKeeper, "Keeper", "RecordProvenWithdrawal")
		eff := c.W.BuildEffects()
		o := c.Ob("C02.R3", "callers of RecordProvenWithdrawal = {FinalizeTokenWithdrawal, InitGenesis}")
		al := setOf("(ophost/keeper.MsgServer).FinalizeTokenWithdrawal", "(ophost.AppModule).InitGenesis")
		seen := map[string]bool{}
		for _, f := range eff.Callers(rec) {
			o.Sites++
			seen[fnShort(f)] = true
			if !al[fnShort(f)] {
				o.Fail(c.W.Pos(f.Pos()), "RecordProvenWithdrawal called from "+fnShort(f), nil)
			}
		}
		for a := range al {
			if !seen[a] {
				o.Fail("-", "expected caller "+a+" not found", nil)
			}
		}
	})
	c.Rule("C02.R4", func() {
		o := c.Ob("C02.R4", "HasProvenWithdrawal / RecordProvenWithdrawal build the key Join(bridgeId, hash[:]) on ProvenWithdrawals")
		for _, nm := range []string{"HasProvenWithdrawal", "RecordProvenWithdrawal"} {
			f := c.Method(hostKeeper, "Keeper", nm)
			for _, p := range c.Paths(f, PO{Params: []string{"k", "ctx", "bridgeId", "hash"}}) {
				o.Paths++
				cnt := 0
				for i := range p.Events {
					fl, m, ok := collOp(&p.Events[i])
					if !ok {
						continue
					}
					cnt++
					o.Sites++
					k := p.Events[i].Call.Args[2]
					ks := strip(k)
					keyOK := ks.Op == "call" && ks.Name == "collections.Join" && len(ks.Args) == 2 && strip(ks.Args[0]).Key() == "bridgeId" && strip(ks.Args[1]).Key() == "hash"
					if fl != "ProvenWithdrawals" || !keyOK {
						o.Fail(c.evPos(&p.Events[i]), nm+" accesses "+fl+"."+m+" with key "+strip(k).Key()+" (want ProvenWithdrawals, Join(bridgeId, hash[:]))", nil)
					}
				}
				if cnt != 1 {
					o.Fail(c.W.Pos(f.Pos()), fmt.Sprintf("%s performs %d store accesses (want 1)", nm, cnt), nil)
				}
			}
		}
	})
	c.Rule("C02.R5", func() {
		q := c.Method(hostKeeper, "Querier", "Claimed")
		o := c.Ob("C02.R5", "Query/Claimed returns ProvenWithdrawals.Has(Join(req.BridgeId, req.WithdrawalHash)) unmodified")
		okPaths := 0
		for _, p := range c.Paths(q, PO{Params: []string{"q", "ctx", "req"}}) {
			o.Paths++
			o.Facts += p.NFacts()
			if !p.OK() || p.Panic {
				continue
			}
			okPaths++
			has := collEvents(p, len(p.Events), "ProvenWithdrawals", "Has")
			if len(has) != 1 {
				o.Fail(c.W.Pos(q.Pos()), "success path without exactly one ProvenWithdrawals.Has", c.Dump(p, -1))
				continue
			}
			h := p.Events[has[0]].Call
			k := strip(h.Args[2])
			if k.Op != "call" || k.Name != "collections.Join" || k.Args[0].Key() != "req.BridgeId" || !strings.Contains(strip(k.Args[1]).Key(), "req.WithdrawalHash") || len(reqFieldsOf(k)) != 2 {
				o.Fail(c.evPos(&p.Events[has[0]]), "lookup key is "+trunc(k.Key(), 160), c.Dump(p, -1))
			}
			rv := p.RetVal[0]
			got := project(rv, "Claimed", nil)
			if got.String() != h.String()+".0" {
				o.Fail(c.W.Pos(q.Pos()), "response.Claimed is "+trunc(got.String(), 160)+", want the Has result", c.Dump(p, -1))
			}
		}
		if okPaths == 0 {
			o.Fail(c.W.Pos(q.Pos()), "no success path", nil)
		}
	})
}

// ---------------------------------------------------------------------------
// C03 — withdrawals cannot be forged

func propC03(c *Ctx) {
	c.Clauses = append(c.Clauses,
		"FinalizeTokenWithdrawal: no store write, keeper write or event before output-root and proof equality (a rejected claim leaves no mark)",
		"the payout is reachable only with: Validate ok, the output at (req.BridgeId, req.OutputIndex) final, its stored root equal to GenerateOutputRoot(req.Version[0], req.StorageRoot, req.LastBlockHash), and req.StorageRoot equal to the root folded from GenerateWithdrawalHash(the six claimed fields) through req.WithdrawalProofs",
		"what is paid is what was proven: recipient, denom and amount operands of the bank send are the hashed request fields; escrow of the same bridge id",
		"every parameter of the four digest functions reaches the hashed byte layout (E8)",
		"MsgFinalizeTokenWithdrawal.Validate: on the nil path len(version)=1, len(storage root)=len(block hash)=32, every proof item 32 bytes, ids and sequence non-zero, amount valid and non-zero")
	c.NotDecided = append(c.NotDecided, "collision/preimage resistance of SHA3-256 (A5)")
	c.Assumptions = append(c.Assumptions, "A1", "A2", "A3", "A5", "A10")
	fn := hostHandler(c, "FinalizeTokenWithdrawal")

	c.Rule("C03.R1", func() {
		o := c.Ob("C03.R1", "FinalizeTokenWithdrawal: payout guarded by validate, finality, output-root equality and proof equality")
		o2 := c.Ob("C03.R2", "FinalizeTokenWithdrawal: bank operands are the proven fields")
		n := 0
		for _, p := range c.Paths(fn, hostPO) {
			o.Paths++
			o.Facts += p.NFacts()
			i := payoutIdx(p)
			if i < 0 {
				continue
			}
			n++
			o.Sites++
			where := c.evPos(&p.Events[i])
			// (i) validate
			if !p.HasFact(i, func(a *Term, pol bool) bool {
				x := eqOther(a, "nil")
				return pol && x != nil && x.Op == "call" && strings.HasSuffix(x.Name, "MsgFinalizeTokenWithdrawal).Validate") && x.Args[0].Key() == "req"
			}) {
				o.Fail(where, "payout reachable without req.Validate() == nil", c.Dump(p, i))
			}
			// (ii) finality of the named output
			rel, nf := finalityRel(p, i, outGet, cfgGet)
			if nf == 0 || rel&rLT != 0 || !unitsAgree(p, i) {
				o.Fail(where, "payout reachable without the fact blockTime >= output("+outKey+").L1BlockTime + config.FinalizationPeriod (relation found: "+relString(rel)+fmt.Sprintf(", %d facts)", nf), c.Dump(p, i))
			}
			// (iii) output root
			okRoot := p.HasFact(i, func(a *Term, pol bool) bool {
				args := callAtom(a, "bytes.Equal")
				if !pol || len(args) != 2 {
					return false
				}
				for k := 0; k < 2; k++ {
					x, y := strip(args[k]), strip(args[1-k])
					if x.Key() == outGet+".OutputRoot" && y.Op == "call" && y.Name == rootFn && len(y.Args) == 3 &&
						strip(y.Args[0]).Key() == "req.Version[0]" && strip(y.Args[1]).Key() == "req.StorageRoot" && strip(y.Args[2]).Key() == "req.LastBlockHash" {
						return true
					}
				}
				return false
			})
			if !okRoot {
				o.Fail(where, "payout reachable without bytes.Equal(output("+outKey+").OutputRoot, GenerateOutputRoot(req.Version[0], req.StorageRoot, req.LastBlockHash))", c.Dump(p, i))
			}
			// the output load itself must have succeeded
			// (iv) proof
			okProof := p.HasFact(i, func(a *Term, pol bool) bool {
				args := callAtom(a, "bytes.Equal")
				if !pol || len(args) != 2 {
					return false
				}
				for k := 0; k < 2; k++ {
					x, y := strip(args[k]), strip(args[1-k])
					if x.Key() == "req.StorageRoot" && y.Op == "call" && y.Name == proofFn && len(y.Args) == 2 && strip(y.Args[1]).Key() == "req.WithdrawalProofs" {
						if ok, _ := isClaimHash(y.Args[0]); ok {
							return true
						}
					}
				}
				return false
			})
			if !okProof {
				o.Fail(where, "payout reachable without bytes.Equal(req.StorageRoot, GenerateRootHashFromProofs(leaf(six claimed fields), req.WithdrawalProofs))", c.Dump(p, i))
			}
			// R2 operands
			o2.Paths++
			o2.Sites++
			a := p.Events[i].Call.Args
			if len(a) != 5 {
				o2.Fail(where, "unexpected SendCoins arity", nil)
				continue
			}
			if strip(a[2]).Key() != "ophost/types.BridgeAddress(req.BridgeId)" {
				o2.Fail(where, "pays from "+strip(a[2]).Key()+", want BridgeAddress(req.BridgeId)", c.Dump(p, i))
			}
			if d := decodedFrom(a[3]); d == nil || d.Key() != "req.To" {
				o2.Fail(where, "pays to "+trunc(strip(a[3]).Key(), 120)+", want the decoded req.To", c.Dump(p, i))
			}
			if !coinsAre(a[4], "sdk.NewCoin(req.Amount.Denom, req.Amount.Amount)") && !coinsAre(a[4], "req.Amount") {
				o2.Fail(where, "pays "+trunc(strip(a[4]).Key(), 160)+", want NewCoins(NewCoin(req.Amount.Denom, req.Amount.Amount))", c.Dump(p, i))
			}
		}
		if n == 0 {
			o.Fail(c.W.Pos(fn.Pos()), "no path reaches the payout (anchor floor)", nil)
		}
	})
	// "makes it fail with no effect": nothing is written, paid or announced before the output-root
	// and proof equalities hold - a claim that is then rejected has left no mark (not even its
	// claim record)
	c.Rule("C03.R6", func() {
		o := c.Ob("C03.R6", "FinalizeTokenWithdrawal: no store write, keeper write or event before output-root equality and proof equality are established")
		for _, p := range c.Paths(fn, hostPO) {
			o.Paths++
			for i := range p.Events {
				ev := &p.Events[i]
				k := effectKind(ev)
				if !(strings.HasPrefix(k, "coll:") || strings.HasPrefix(k, "keeper:") || k == "event") {
					continue
				}
				o.Sites++
				okRoot := p.HasFact(i, func(a *Term, pol bool) bool {
					args := callAtom(a, "bytes.Equal")
					if !pol || len(args) != 2 {
						return false
					}
					for k := 0; k < 2; k++ {
						x, y := strip(args[k]), strip(args[1-k])
						if x.Key() == outGet+".OutputRoot" && y.Op == "call" && y.Name == rootFn {
							return true
						}
					}
					return false
				})
				okProof := p.HasFact(i, func(a *Term, pol bool) bool {
					args := callAtom(a, "bytes.Equal")
					if !pol || len(args) != 2 {
						return false
					}
					for k := 0; k < 2; k++ {
						x, y := strip(args[k]), strip(args[1-k])
						if x.Key() == "req.StorageRoot" && y.Op == "call" && y.Name == proofFn {
							return true
						}
					}
					return false
				})
				if !okRoot || !okProof {
					o.Fail(c.evPos(ev), fmt.Sprintf("effect %s before the claim is verified (output root equality [%v], proof equality [%v]): a rejected claim leaves a mark", k, okRoot, okProof), c.Dump(p, i))
				}
			}
		}
		if o.Sites == 0 {
			o.Fail(c.W.Pos(fn.Pos()), "no effect found (anchor floor)", nil)
		}
	})
	c.Rule("C03.R3", func() { digestParamRule(c, "C03.R3") })
	// the leaf / root commit to the claimed fields byte for byte (no case folding, trimming,
	// truncation or re-encoding on the way into the digest): pinned layouts
	c.Rule("C03.R5", func() { layoutRule(c, "C03.R5", []string{"GenerateWithdrawalHash", "GenerateOutputRoot"}) })
	c.Rule("C03.R4", func() {
		v := c.Method(hostTypes, "MsgFinalizeTokenWithdrawal", "Validate")
		o := c.Ob("C03.R4", "MsgFinalizeTokenWithdrawal.Validate: length and non-zero discipline on the nil path")
		nOK := 0
		for _, p := range c.Paths(v, PO{Params: []string{"msg", "ac"}, Visits: 4}) {
			o.Paths++
			o.Facts += p.NFacts()
			if !p.OK() || p.Panic {
				continue
			}
			nOK++
			end := len(p.Events)
			need := func(desc string, pred func(a *Term, pol bool) bool) {
				if !p.HasFact(end, pred) {
					o.Fail(c.W.Pos(v.Pos()), "Validate returns nil without "+desc, c.Dump(p, -1))
				}
			}
			lenIs := func(f string, n string) {
				need("len(msg."+f+") == "+n, func(a *Term, pol bool) bool { return pol && eqAtom(a, "builtin.len(msg."+f+")", n) })
			}
			lenIs("Version", "1")
			lenIs("StorageRoot", "32")
			lenIs("LastBlockHash", "32")
			for _, f := range []string{"Sequence", "BridgeId", "OutputIndex"} {
				f := f
				if !p.nonZeroOn(end, "msg."+f) {
					o.Fail(c.W.Pos(v.Pos()), "Validate returns nil without msg."+f+" != 0", c.Dump(p, -1))
				}
			}
			need("msg.Amount.IsValid()", func(a *Term, pol bool) bool {
				return pol && a.Key() == "(sdk.Coin).IsValid(msg.Amount)"
			})
			need("!msg.Amount.IsZero()", func(a *Term, pol bool) bool { return !pol && a.Key() == "(sdk.Coin).IsZero(msg.Amount)" })
			need("recipient address decodes", func(a *Term, pol bool) bool {
				x := eqOther(a, "nil")
				return pol && x != nil && x.Op == "extract" && x.Name == "1" && decodedFrom(x.Args[0]) != nil && decodedFrom(x.Args[0]).Key() == "msg.To"
			})
			// every proof element visited on this path is 32 bytes long
			for i := range p.Events {
				ev := &p.Events[i]
				if ev.Kind == EvFact && ev.Cond.Op == "bin" && ev.Cond.Name == "<" {
					// loop test i < len(msg.WithdrawalProofs) taken => element i must be checked
					if ev.Pol && ev.Cond.Args[1].Key() == "builtin.len(msg.WithdrawalProofs)" && ev.Cond.Args[0].IsConst() {
						idx := ev.Cond.Args[0].Name
						if !p.HasFact(end, func(a *Term, pol bool) bool {
							return pol && eqAtom(a, "builtin.len(msg.WithdrawalProofs["+idx+"])", "32")
						}) {
							o.Fail(c.W.Pos(v.Pos()), "proof element "+idx+" accepted without len == 32", c.Dump(p, -1))
						}
					}
				}
			}
		}
		if nOK == 0 {
			o.Fail(c.W.Pos(v.Pos()), "no nil-return path", nil)
		}
		// the loop over proofs must exist: some nil path visits element 0
		seen := false
		for _, p := range c.Paths(v, PO{Params: []string{"msg", "ac"}, Visits: 4}) {
			if p.OK() && p.HasFact(len(p.Events), func(a *Term, pol bool) bool {
				// element 0 of the loop, or the symbolic element of a slices search
				x := eqOther(a, "32")
				return pol && x != nil && strings.HasPrefix(x.Key(), "builtin.len(msg.WithdrawalProofs[") && strings.HasSuffix(x.Key(), "])")
			}) {
				seen = true
			}
		}
		if !seen {
			o.Fail(c.W.Pos(v.Pos()), "no nil-return path checks the length of a proof element", nil)
		}
	})
}

// coinsAre: t is sdk.NewCoins(<single element with key want>).
func coinsAre(t *Term, want string) bool {
	t = strip(t)
	if t.Op != "call" || t.Name != "sdk.NewCoins" || len(t.Args) != 1 {
		return false
	}
	l, ok := listOf(t.Args[0])
	return ok && len(l) == 1 && strip(l[0]).Key() == want
}

// ---------------------------------------------------------------------------
// C05 — challenge window honoured; finality irreversible

func propC05(c *Ctx) {
	c.Clauses = append(c.Clauses,
		"payout only on paths with blockTime >= proposalTime(req.BridgeId, req.OutputIndex) + period (same index as the root comparison)",
		"BridgeConfig.Validate / ValidateWithNoAddrValidation return nil only with FinalizationPeriod > 0 (relation {>}, not merely != 0); SetBridgeConfig and MsgCreateBridge.Validate run it before the config is stored",
		"the period is immutable: Update* handlers store exactly one own field; BridgeConfigs.Set only in SetBridgeConfig",
		"OutputProposals.Remove only in DeleteOutputProposal and only on paths with blockTime < proposalTime + period for the same key; OutputProposals.Set only via SetOutputProposal at the incremented index with L1BlockTime = ctx.BlockTime()",
		"GetLastFinalizedOutput walks the bridge's outputs in descending order and stops at the first final one")
	c.NotDecided = append(c.NotDecided, "monotonicity of block time (A9)", "sub-second arithmetic of time.Add / Unix truncation")
	c.Assumptions = append(c.Assumptions, "A1", "A2", "A3", "A9", "A10")

	c.Rule("C05.R1", func() {
		fn := hostHandler(c, "FinalizeTokenWithdrawal")
		o := c.Ob("C05.R1", "FinalizeTokenWithdrawal: payout only when the named output's window has elapsed")
		n := 0
		for _, p := range c.Paths(fn, hostPO) {
			o.Paths++
			o.Facts += p.NFacts()
			i := payoutIdx(p)
			if i < 0 {
				continue
			}
			n++
			o.Sites++
			rel, nf := finalityRel(p, i, outGet, cfgGet)
			if nf == 0 || rel&rLT != 0 || !unitsAgree(p, i) {
				o.Fail(c.evPos(&p.Events[i]), "payout reachable with relation(blockTime, proposalTime+period) = "+relString(rel)+fmt.Sprintf(" (%d facts); must exclude <", nf), c.Dump(p, i))
			}
		}
		if n == 0 {
			o.Fail(c.W.Pos(fn.Pos()), "no path reaches the payout", nil)
		}
	})

	c.Rule("C05.R2", func() {
		for _, nm := range []string{"Validate", "ValidateWithNoAddrValidation"} {
			v := c.Method(hostTypes, "BridgeConfig", nm)
			o := c.Ob("C05.R2", "BridgeConfig."+nm+": nil only with FinalizationPeriod > 0")
			nOK := 0
			for _, p := range c.Paths(v, PO{Params: []string{"config", "ac"}}) {
				o.Paths++
				o.Facts += p.NFacts()
				if !p.OK() || p.Panic {
					continue
				}
				nOK++
				rel, _ := p.Relation(len(p.Events), keyIs("config.FinalizationPeriod"), func(t *Term) bool { return t.Key() == "0" })
				if rel != rGT {
					o.Fail(c.W.Pos(v.Pos()), "a config is accepted with relation(FinalizationPeriod, 0) = "+relString(rel)+" (a signed duration: negative periods pass); want {>}", c.Dump(p, -1))
				}
			}
			if nOK == 0 {
				o.Fail(c.W.Pos(v.Pos()), "no nil-return path", nil)
			}
		}
		// validate-before-store
		sbc := c.Method(hostKeeper, "Keeper", "SetBridgeConfig")
		o := c.Ob("C05.R2", "SetBridgeConfig: BridgeConfigs.Set only after bridgeConfig.Validate == nil, same value")
		for _, p := range c.Paths(sbc, PO{Params: []string{"k", "ctx", "bridgeId", "cfg"}, NoInline: []string{".Validate"}}) {
			o.Paths++
			o.Facts += p.NFacts()
			for _, i := range collEvents(p, len(p.Events), "BridgeConfigs", "Set") {
				o.Sites++
				ev := &p.Events[i]
				if ev.Call.Args[2].Key() != "bridgeId" || ev.Call.Args[3].Key() != "cfg" {
					o.Fail(c.evPos(ev), "stores "+ev.Call.Args[3].Key()+" under "+ev.Call.Args[2].Key(), c.Dump(p, i))
				}
				if !p.HasFact(i, func(a *Term, pol bool) bool {
					x := eqOther(a, "nil")
					return pol && x != nil && x.Op == "call" && strings.HasSuffix(x.Name, "BridgeConfig).Validate") && x.Args[0].Key() == "cfg"
				}) {
					o.Fail(c.evPos(ev), "config stored without cfg.Validate() == nil", c.Dump(p, i))
				}
			}
		}
		if o.Sites == 0 {
			o.Fail(c.W.Pos(sbc.Pos()), "no BridgeConfigs.Set in SetBridgeConfig", nil)
		}
		mv := c.Method(hostTypes, "MsgCreateBridge", "Validate")
		o3 := c.Ob("C05.R2", "MsgCreateBridge.Validate: nil only with msg.Config.Validate == nil")
		for _, p := range c.Paths(mv, PO{Params: []string{"msg", "ac"}, NoInline: []string{"BridgeConfig).Validate"}}) {
			o3.Paths++
			o3.Facts += p.NFacts()
			if p.OK() && !p.HasFact(len(p.Events), func(a *Term, pol bool) bool {
				x := eqOther(a, "nil")
				return pol && x != nil && x.Op == "call" && strings.HasSuffix(x.Name, "BridgeConfig).Validate") && x.Args[0].Key() == "msg.Config"
			}) {
				o3.Fail(c.W.Pos(mv.Pos()), "message accepted without validating its config", c.Dump(p, -1))
			}
		}
	})

	c.Rule("C05.R3", func() {
		c.writersTable("C05.R3", "ophost/keeper.Keeper", "BridgeConfigs", setOf("Set", "Remove", "Clear"), []string{"(ophost/keeper.MsgServer).CreateBridge", "(ophost/keeper.MsgServer).UpdateProposer", "(ophost/keeper.MsgServer).UpdateChallenger", "(ophost/keeper.MsgServer).UpdateBatchInfo", "(ophost/keeper.MsgServer).UpdateOracleConfig", "(ophost/keeper.MsgServer).UpdateMetadata", "(ophost.AppModule).InitGenesis"})
		eff := c.W.BuildEffects()
		sbc := c.Method(hostKeeper, "Keeper", "SetBridgeConfig")
		o := c.Ob("C05.R3", "callers of SetBridgeConfig = {CreateBridge, 5 Update* handlers, InitGenesis}")
		al := setOf("(ophost/keeper.MsgServer).CreateBridge", "(ophost/keeper.MsgServer).UpdateProposer", "(ophost/keeper.MsgServer).UpdateChallenger",
			"(ophost/keeper.MsgServer).UpdateBatchInfo", "(ophost/keeper.MsgServer).UpdateOracleConfig", "(ophost/keeper.MsgServer).UpdateMetadata", "(ophost.AppModule).InitGenesis")
		seen := map[string]bool{}
		for _, f := range eff.Callers(sbc) {
			o.Sites++
			seen[fnShort(f)] = true
			if !al[fnShort(f)] {
				o.Fail(c.W.Pos(f.Pos()), "SetBridgeConfig called from "+fnShort(f)+" (not in the table)", nil)
			}
		}
		for a := range al {
			if !seen[a] {
				o.Fail("-", "expected caller "+a+" not found", nil)
			}
		}
		// each Update* stores exactly its own field (shared with C12.R4): FinalizationPeriod untouched
		for _, h := range []string{"UpdateProposer", "UpdateChallenger", "UpdateBatchInfo", "UpdateOracleConfig", "UpdateMetadata"} {
			fn := hostHandler(c, h)
			o := c.Ob("C05.R3", h+": stored config keeps the loaded FinalizationPeriod")
			for _, p := range c.Paths(fn, PO{Params: hParams, NoInline: []string{".Validate", "GetLastFinalizedOutput", "SetBatchInfo"}}) {
				o.Paths++
				o.Facts += p.NFacts()
				for _, i := range collEvents(p, len(p.Events), "BridgeConfigs", "Set") {
					o.Sites++
					val := p.Events[i].Call.Args[3]
					if got := project(val, "FinalizationPeriod", nil).Key(); got != cfgGet+".FinalizationPeriod" {
						o.Fail(c.evPos(&p.Events[i]), "stored FinalizationPeriod is "+trunc(got, 160)+", want the loaded one", c.Dump(p, i))
					}
				}
			}
			if o.Sites == 0 {
				o.Fail(c.W.Pos(fn.Pos()), "no BridgeConfigs.Set reached", nil)
			}
		}
	})

	c.Rule("C05.R4", func() {
		c.writersTable("C05.R4", "ophost/keeper.Keeper", "OutputProposals", setOf("Remove", "Clear"), []string{"(ophost/keeper.MsgServer).DeleteOutput"})
		d := c.Method(hostKeeper, "Keeper", "DeleteOutputProposal")
		o := c.Ob("C05.R4", "DeleteOutputProposal: Remove(Join(bridgeId, outputIndex)) only when not yet final")
		outV := "(collections.Map[K, V]).Get(k.OutputProposals, ctx, collections.Join(bridgeId, outputIndex)).0"
		cfgV := "(collections.Map[K, V]).Get(k.BridgeConfigs, ctx, bridgeId).0"
		for _, p := range c.Paths(d, PO{Params: []string{"k", "ctx", "bridgeId", "outputIndex"}}) {
			o.Paths++
			o.Facts += p.NFacts()
			for _, i := range collEvents(p, len(p.Events), "OutputProposals", "Remove") {
				o.Sites++
				ev := &p.Events[i]
				if strip(ev.Call.Args[2]).Key() != "collections.Join(bridgeId, outputIndex)" {
					o.Fail(c.evPos(ev), "removes key "+strip(ev.Call.Args[2]).Key(), c.Dump(p, i))
				}
				rel, nf := finalityRelK(p, i, outV, cfgV)
				if nf == 0 || rel != rLT {
					o.Fail(c.evPos(ev), "output removable with relation(blockTime, proposalTime+period) = "+relString(rel)+fmt.Sprintf(" (%d facts); must be exactly {<}", nf), c.Dump(p, i))
				}
			}
		}
		if o.Sites == 0 {
			o.Fail(c.W.Pos(d.Pos()), "no OutputProposals.Remove in DeleteOutputProposal", nil)
		}
		// the finality predicate used for deletion and for payout is the same function
		o2 := c.Ob("C05.R4", "DeleteOutput handler removes outputs only through DeleteOutputProposal")
		eff := c.W.BuildEffects()
		for _, f := range eff.Callers(d) {
			o2.Sites++
			o2.Note(fnShort(f))
		}
		if o2.Sites == 0 {
			o2.Fail("-", "DeleteOutputProposal has no caller", nil)
		}
	})

	c.Rule("C05.R5", func() {
		c.writersTable("C05.R5", "ophost/keeper.Keeper", "OutputProposals", setOf("Set"), []string{"(ophost/keeper.MsgServer).ProposeOutput", "(ophost.AppModule).InitGenesis"})
		eff := c.W.BuildEffects()
		sop := c.Method(hostKeeper, "Keeper", "SetOutputProposal")
		o := c.Ob("C05.R5", "callers of SetOutputProposal = {ProposeOutput, InitGenesis}")
		al := setOf("(ophost/keeper.MsgServer).ProposeOutput", "(ophost.AppModule).InitGenesis")
		seen := map[string]bool{}
		for _, f := range eff.Callers(sop) {
			o.Sites++
			seen[fnShort(f)] = true
			if !al[fnShort(f)] {
				o.Fail(c.W.Pos(f.Pos()), "SetOutputProposal called from "+fnShort(f), nil)
			}
		}
		for a := range al {
			if !seen[a] {
				o.Fail("-", "expected caller "+a+" not found", nil)
			}
		}
		fn := hostHandler(c, "ProposeOutput")
		o2 := c.Ob("C05.R5", "ProposeOutput: stores at the incremented index with L1BlockTime = ctx.BlockTime()")
		for _, p := range c.Paths(fn, hostPO) {
			o2.Paths++
			o2.Facts += p.NFacts()
			for _, i := range collEvents(p, len(p.Events), "OutputProposals", "Set") {
				o2.Sites++
				ev := &p.Events[i]
				k := strip(ev.Call.Args[2])
				if k.Op != "call" || k.Name != "collections.Join" || k.Args[0].Key() != "req.BridgeId" || !isNextOutputIndex(k.Args[1]) {
					o2.Fail(c.evPos(ev), "output stored under "+trunc(k.Key(), 160)+", want Join(req.BridgeId, next output index)", c.Dump(p, i))
				}
				v := ev.Call.Args[3]
				if got := project(v, "L1BlockTime", nil).Key(); got != "(sdk.Context).BlockTime(ctx)" {
					o2.Fail(c.evPos(ev), "stored L1BlockTime is "+trunc(got, 120)+", want ctx.BlockTime()", c.Dump(p, i))
				}
			}
		}
		if o2.Sites == 0 {
			o2.Fail(c.W.Pos(fn.Pos()), "no OutputProposals.Set reached from ProposeOutput", nil)
		}
	})

	// one clock for finality: payout, deletion refusal and the last-finalized query must compare
	// block time and deadline in the SAME unit (all Unix seconds or all time.Time) - otherwise an
	// output is final for one of them and not yet final for another inside the boundary second
	c.Rule("C05.R7", func() { oneFinalityClock(c, "C05.R7") })
	c.Rule("C05.R8", func() { deleteOutputRule(c, "C05.R8") })

	c.Rule("C05.R6", func() {
		g := c.Method(hostKeeper, "Keeper", "GetLastFinalizedOutput")
		o := c.Ob("C05.R6", "GetLastFinalizedOutput: descending walk over the bridge's prefix; stop at the first final output and report its index")
		paths := c.Paths(g, PO{Params: []string{"k", "ctx", "bridgeId"}, Callbacks: true})
		walks := 0
		for _, p := range paths {
			o.Paths++
			o.Facts += p.NFacts()
			for i := range p.Events {
				ev := &p.Events[i]
				if f, m, ok := collOp(ev); ok && f == "OutputProposals" && m == "Walk" {
					walks++
					o.Sites++
					rng := strip(ev.Call.Args[2]).Key()
					if rng != "(*collections.PairRange[K1, K2]).Descending(collections.NewPrefixedPairRange(bridgeId))" {
						o.Fail(c.evPos(ev), "walk range is "+rng+", want NewPrefixedPairRange(bridgeId).Descending()", nil)
					}
				}
			}
			// callback behaviour: examine the symbolic invocation
			for i := range p.Events {
				ev := &p.Events[i]
				if ev.Kind != EvCbEnd {
					continue
				}
				// find matching begin
				b := i
				for b >= 0 && p.Events[b].Kind != EvCbBegin {
					b--
				}
				cbCall := p.Events[i].Call
				outV := "opaque:cbarg1(" + cbCall.Key() + ")"
				cfgV := "(collections.Map[K, V]).Get(k.BridgeConfigs, ctx, bridgeId).0"
				rel, nf := finalityRelK(p, i, outV, cfgV)
				res := ev.Res
				if res.Op != "tuple" || len(res.Args) != 2 {
					o.Fail(c.W.Pos(g.Pos()), "callback result shape", nil)
					continue
				}
				stop := res.Args[0]
				if nf == 0 {
					if !res.Args[1].IsNil() {
						continue // error path of the callback
					}
					o.Fail(c.W.Pos(g.Pos()), "callback decides without the finality comparison", c.Dump(p, i))
					continue
				}
				if rel&rLT == 0 { // final
					if !stop.IsTrue() {
						o.Fail(c.W.Pos(g.Pos()), "walk does not stop at a final output", c.Dump(p, i))
					}
				} else if rel == rLT {
					if !stop.IsFalse() {
						o.Fail(c.W.Pos(g.Pos()), "walk stops at a non-final output", c.Dump(p, i))
					}
				}
			}
		}
		// the explicit cursor form of the same walk
		for _, p := range paths {
			for i := range p.Events {
				ev := &p.Events[i]
				f, m, ok := collOp(ev)
				if !ok || f != "OutputProposals" || m != "Iterate" {
					continue
				}
				walks++
				o.Sites++
				if rng := strip(ev.Call.Args[2]).Key(); rng != "(*collections.PairRange[K1, K2]).Descending(collections.NewPrefixedPairRange(bridgeId))" {
					o.Fail(c.evPos(ev), "cursor range is "+rng+", want NewPrefixedPairRange(bridgeId).Descending()", nil)
				}
				if !p.OK() || p.Panic {
					continue
				}
				src := ev.Call
				validAt := func(k int64, want bool) bool {
					return p.HasFact(len(p.Events), func(a *Term, pol bool) bool {
						if a.Op != "opaque" || a.Name != "itervalid" || len(a.Args) != 2 || a.Args[0].String() != src.String() {
							return false
						}
						v, ok := a.Args[1].Int()
						return ok && v == k && pol == want
					})
				}
				n := int64(0)
				for validAt(n, true) {
					n++
				}
				cfgV := "(collections.Map[K, V]).Get(k.BridgeConfigs, ctx, bridgeId).0"
				for j := int64(0); j < n; j++ {
					outV := "opaque:cbarg1(" + src.Key() + ")"
					if j > 0 {
						outV = fmt.Sprintf("opaque:cbarg1(%s, %d)", src.Key(), j)
					}
					rel, nf := finalityRelK(p, len(p.Events), outV, cfgV)
					if nf == 0 {
						o.Fail(c.W.Pos(g.Pos()), fmt.Sprintf("cursor position %d is passed without the finality comparison", j), c.Dump(p, i))
						continue
					}
					last := j == n-1
					switch {
					case rel&rLT == 0 && !last:
						o.Fail(c.W.Pos(g.Pos()), "the cursor moves on past a final output", c.Dump(p, i))
					case rel == rLT && last && !validAt(n, false):
						o.Fail(c.W.Pos(g.Pos()), "the cursor is left at a non-final output before it is exhausted", c.Dump(p, i))
					}
				}
			}
		}
		if walks == 0 {
			o.Fail(c.W.Pos(g.Pos()), "no OutputProposals.Walk reached", nil)
		}
	})
}

// finalityRelK: like finalityRel, with explicit output/config value keys.
func finalityRelK(p *Path, upto int, outVal, cfgVal string) (uint8, int) {
	isNow := func(t *Term) bool {
		k := t.Key()
		return k == "(sdk.Context).BlockTime(ctx)" || k == "(time.Time).Unix((sdk.Context).BlockTime(ctx))"
	}
	dl := "(time.Time).Add(" + outVal + ".L1BlockTime, " + cfgVal + ".FinalizationPeriod)"
	isDeadline := func(t *Term) bool {
		k := t.Key()
		return k == dl || k == "(time.Time).Unix("+dl+")"
	}
	return p.Relation(upto, isNow, isDeadline)
}

// isNextOutputIndex: the value IncreaseNextOutputIndex returns: the loaded
// NextOutputIndexes[req.BridgeId] or the default 1.
func isNextOutputIndex(t *Term) bool {
	k := strip(t).Key()
	return k == "(collections.Map[K, V]).Get(ms.Keeper.NextOutputIndexes, ctx, req.BridgeId).0" || k == "1"
}

var _ = types.Typ

// oneFinalityClock: payout, deletion refusal, the finality query and the last-finalized query
// compare block time and deadline in the same unit (C05: the window; C11: what is deletable is
// exactly what is not final, so the final outputs stay a prefix).
func oneFinalityClock(c *Ctx, id string) {
		o := c.Ob(id, "every finality comparison of ophost uses the same time unit")
		units := map[string][]string{}
		type tgt struct {
			fn *ssa.Function
			po PO
		}
		tgts := []tgt{
			{hostHandler(c, "FinalizeTokenWithdrawal"), hostPO},
			{c.Method(hostKeeper, "Keeper", "DeleteOutputProposal"), PO{Params: []string{"k", "ctx", "bridgeId", "outputIndex"}}},
			{c.Method(hostKeeper, "Keeper", "GetLastFinalizedOutput"), PO{Params: []string{"k", "ctx", "bridgeId"}, Callbacks: true}},
			{c.Method(hostKeeper, "Keeper", "IsFinalized"), PO{Params: []string{"k", "ctx", "bridgeId", "outputIndex"}}},
		}
		for _, t := range tgts {
			for _, p := range c.Paths(t.fn, t.po) {
				o.Paths++
				for i := range p.Events {
					ev := &p.Events[i]
					if ev.Kind != EvFact {
						continue
					}
					rf, ok := factRel(ev.Cond, ev.Pol)
					if !ok {
						continue
					}
					x, y := rf.X.Key(), rf.Y.Key()
					if !strings.Contains(x, "BlockTime(ctx)") {
						x, y = y, x
					}
					if !strings.Contains(x, "BlockTime(ctx)") || !strings.Contains(y, ".L1BlockTime") {
						continue
					}
					o.Sites++
					u := func(k string) string {
						if strings.HasPrefix(k, "(time.Time).Unix(") {
							return "seconds"
						}
						if strings.HasPrefix(k, "(time.Time).UnixNano(") || strings.HasPrefix(k, "(time.Time).UnixMilli(") {
							return "sub-seconds"
						}
						return "time.Time"
					}
					ux, uy := u(x), u(y)
					if ux != uy {
						o.Fail(c.evPos(ev), "finality comparison mixes units: "+ux+" vs "+uy, c.Dump(p, i))
						continue
					}
					units[ux] = append(units[ux], fnShort(t.fn)+" @"+c.evPos(ev))
				}
			}
		}
		if len(units) > 1 {
			var parts []string
			for _, k := range sortedKeys(units) {
				parts = append(parts, k+": "+units[k][0])
			}
			o.Fail("-", "finality is decided in different time units ("+strings.Join(parts, "; ")+"): inside the boundary second an output is final for one and still deletable / unpaid for another", nil)
		}
		if o.Sites == 0 {
			o.Fail("-", "no finality comparison found (floor 1)", nil)
		}
}
