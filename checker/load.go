package main

import (
	"fmt"
	"go/ast"
	"go/token"
	"go/types"
	"os"
	"sort"
	"strings"
	"sync"

	"golang.org/x/tools/go/packages"
	"golang.org/x/tools/go/ssa"
	"golang.org/x/tools/go/ssa/ssautil"
)

const modPath = "github.com/initia-labs/OPinit"

// World is the resolved program every rule works on.
type World struct {
	RepoDir string
	Fset    *token.FileSet
	Pkgs    []*packages.Package // module packages, sorted by path
	ByPath  map[string]*packages.Package
	Prog    *ssa.Program
	SSA     map[string]*ssa.Package
	// Funcs: every source function (incl. anonymous) of module packages in rule scope.
	Funcs []*ssa.Function
	// canonical helper names (canon.go)
	canonByName map[string]*ssa.Function
	canonNotes  []string
	// AllFuncs: every source function incl. generated / cli (for closure checks).
	AllFuncs []*ssa.Function
	GOARCH   string
	effOnce  sync.Once
	eff      *Effects
}

func repoDir() string {
	if d := os.Getenv("VERIF_REPO"); d != "" {
		return d
	}
	return "/repo"
}

// loadEnv: the harness env minus GOFLAGS/GOWORK so that /repo's own go.work
// is honoured exactly as the baseline test command does.
func loadEnv(goarch string) []string {
	var env []string
	for _, kv := range os.Environ() {
		if strings.HasPrefix(kv, "GOFLAGS=") || strings.HasPrefix(kv, "GOWORK=") ||
			strings.HasPrefix(kv, "GOPROXY=") || strings.HasPrefix(kv, "GOSUMDB=") ||
			strings.HasPrefix(kv, "GOTOOLCHAIN=") || strings.HasPrefix(kv, "GOARCH=") {
			continue
		}
		env = append(env, kv)
	}
	env = append(env, "GOPROXY=off", "GOSUMDB=off", "GOTOOLCHAIN=local")
	if goarch != "" {
		env = append(env, "GOARCH="+goarch, "CGO_ENABLED=0")
	}
	return env
}

type LoadOpts struct {
	Patterns []string
	GOARCH   string
	Overlay  map[string][]byte
}

func Load(opts LoadOpts) (*World, error) {
	dir := repoDir()
	if len(opts.Patterns) == 0 {
		opts.Patterns = []string{"./x/..."}
	}
	fset := token.NewFileSet()
	cfg := &packages.Config{
		Mode: packages.NeedName | packages.NeedFiles | packages.NeedCompiledGoFiles |
			packages.NeedImports | packages.NeedTypes | packages.NeedTypesSizes |
			packages.NeedSyntax | packages.NeedTypesInfo | packages.NeedModule,
		Dir:     dir,
		Env:     loadEnv(opts.GOARCH),
		Fset:    fset,
		Overlay: opts.Overlay,
		Tests:   false,
	}
	pkgs, err := packages.Load(cfg, opts.Patterns...)
	if err != nil {
		return nil, fmt.Errorf("packages.Load: %w", err)
	}
	var errs []string
	for _, p := range pkgs {
		for _, e := range p.Errors {
			errs = append(errs, p.PkgPath+": "+e.Error())
		}
		if p.IllTyped {
			errs = append(errs, p.PkgPath+": ill-typed")
		}
	}
	if len(errs) > 0 {
		sort.Strings(errs)
		if len(errs) > 12 {
			errs = errs[:12]
		}
		return nil, fmt.Errorf("load/type errors:\n  %s", strings.Join(errs, "\n  "))
	}
	sort.Slice(pkgs, func(i, j int) bool { return pkgs[i].PkgPath < pkgs[j].PkgPath })
	w := &World{RepoDir: dir, Fset: fset, Pkgs: pkgs, ByPath: map[string]*packages.Package{},
		SSA: map[string]*ssa.Package{}, GOARCH: opts.GOARCH}
	for _, p := range pkgs {
		w.ByPath[p.PkgPath] = p
	}
	if len(pkgs) < 12 {
		return nil, fmt.Errorf("only %d module packages loaded (floor 12)", len(pkgs))
	}
	prog, spkgs := ssautil.Packages(pkgs, ssa.InstantiateGenerics)
	for i, sp := range spkgs {
		if sp == nil {
			return nil, fmt.Errorf("no SSA for %s", pkgs[i].PkgPath)
		}
		sp.Build()
		w.SSA[pkgs[i].PkgPath] = sp
	}
	w.Prog = prog
	w.collectFuncs()
	return w, nil
}

// inRuleScope: hand-written consensus code only.
func (w *World) fileInScope(name string) bool {
	if strings.HasSuffix(name, "_test.go") || strings.HasSuffix(name, ".pb.go") || strings.HasSuffix(name, ".pb.gw.go") || strings.HasSuffix(name, ".pulsar.go") {
		return false
	}
	if strings.Contains(name, "/client/cli/") {
		return false
	}
	return true
}

func (w *World) posFile(p token.Pos) string {
	if !p.IsValid() {
		return ""
	}
	return w.Fset.Position(p).Filename
}

func (w *World) collectFuncs() {
	seen := map[*ssa.Function]bool{}
	var add func(f *ssa.Function)
	add = func(f *ssa.Function) {
		if f == nil || seen[f] {
			return
		}
		seen[f] = true
		if f.Blocks == nil {
			return
		}
		if f.Synthetic != "" && !strings.HasPrefix(f.Synthetic, "instance of") {
			// wrappers, bound methods, thunks, package init: no logic of their own
			for _, an := range f.AnonFuncs {
				add(an)
			}
			return
		}
		w.AllFuncs = append(w.AllFuncs, f)
		file := w.posFile(f.Pos())
		if file == "" && f.Parent() != nil {
			file = w.posFile(f.Parent().Pos())
		}
		if file != "" && w.fileInScope(file) {
			w.Funcs = append(w.Funcs, f)
		}
		for _, an := range f.AnonFuncs {
			add(an)
		}
	}
	for _, p := range w.Pkgs {
		sp := w.SSA[p.PkgPath]
		for _, m := range sp.Members {
			switch m := m.(type) {
			case *ssa.Function:
				add(m)
			case *ssa.Type:
				t := m.Type()
				for _, tt := range []types.Type{t, types.NewPointer(t)} {
					ms := w.Prog.MethodSets.MethodSet(tt)
					for i := 0; i < ms.Len(); i++ {
						fn := w.Prog.MethodValue(ms.At(i))
						if fn != nil && fn.Pkg == sp {
							add(fn)
						}
					}
				}
			}
		}
	}
	sort.Slice(w.Funcs, func(i, j int) bool { return w.Funcs[i].String() < w.Funcs[j].String() })
	sort.Slice(w.AllFuncs, func(i, j int) bool { return w.AllFuncs[i].String() < w.AllFuncs[j].String() })
	w.resolveCanon()
}

// Pos renders a position relative to the repo root.
func (w *World) Pos(p token.Pos) string {
	if !p.IsValid() {
		return "-"
	}
	pos := w.Fset.Position(p)
	f := strings.TrimPrefix(pos.Filename, w.RepoDir+"/")
	return fmt.Sprintf("%s:%d", f, pos.Line)
}

// Method returns the SSA function for a method of a named type of a module
// package, resolved through the type-checked program (never by text).
func (w *World) Method(pkgSuffix, typeName, method string) *ssa.Function {
	if fn := w.method(pkgSuffix, typeName, method); fn != nil {
		return fn
	}
	// the pinned name may live on under another name (canon.go)
	if fn := w.canonByName["("+pkgSuffix+"."+typeName+")."+method]; fn != nil {
		return fn
	}
	// a private helper may move between a keeper and the message server that embeds it
	if typeName == "Keeper" {
		return w.method(pkgSuffix, "MsgServer", method)
	}
	return nil
}

func (w *World) method(pkgSuffix, typeName, method string) *ssa.Function {
	p := w.ByPath[modPath+"/x/"+pkgSuffix]
	if p == nil {
		return nil
	}
	obj := p.Types.Scope().Lookup(typeName)
	if obj == nil {
		return nil
	}
	for _, t := range []types.Type{obj.Type(), types.NewPointer(obj.Type())} {
		sel := w.Prog.MethodSets.MethodSet(t).Lookup(p.Types, method)
		if sel == nil {
			continue
		}
		fn := w.Prog.MethodValue(sel)
		if fn == nil {
			continue
		}
		// unwrap synthetic wrappers (promoted through embedding / pointer receiver)
		if fn.Synthetic != "" {
			if m, ok := sel.Obj().(*types.Func); ok {
				if real := w.Prog.FuncValue(m); real != nil && real.Blocks != nil {
					return real
				}
			}
			continue
		}
		return fn
	}
	return nil
}

// Func returns a package-level function of a module package.
func (w *World) Func(pkgSuffix, name string) *ssa.Function {
	sp := w.SSA[modPath+"/x/"+pkgSuffix]
	if sp == nil {
		return nil
	}
	if f := sp.Func(name); f != nil {
		return f
	}
	return w.canonByName[pkgSuffix+"."+name]
}

// InterfaceMethods lists the method names of an interface type of a module package.
func (w *World) InterfaceMethods(pkgSuffix, iface string) []string {
	p := w.ByPath[modPath+"/x/"+pkgSuffix]
	if p == nil {
		return nil
	}
	obj := p.Types.Scope().Lookup(iface)
	if obj == nil {
		return nil
	}
	it, ok := obj.Type().Underlying().(*types.Interface)
	if !ok {
		return nil
	}
	var out []string
	for i := 0; i < it.NumMethods(); i++ {
		out = append(out, it.Method(i).Name())
	}
	sort.Strings(out)
	return out
}

// FuncDecl finds the AST declaration of an SSA function.
func (w *World) FuncDecl(fn *ssa.Function) *ast.FuncDecl {
	if fn == nil {
		return nil
	}
	if d, ok := fn.Syntax().(*ast.FuncDecl); ok {
		return d
	}
	return nil
}

func shortPkg(path string) string {
	return strings.TrimPrefix(path, modPath+"/")
}
