package main

// Canonical helper names.
//
// Rules name module helpers ("(opchild/keeper.Keeper).DeleteLastValidatorPower") in anchors,
// NoInline lists and event matches.  A helper that is not an entry point may be renamed, or
// have its parameters reordered, without any change of behaviour.  canon_pinned.json pins, for
// every named module function of the tree the rules were confirmed on, a fingerprint that does
// not depend on the name: receiver type, parameter and result types, and the set of direct
// effects (collection field + method, keeper-interface methods, dynamic calls).  On every load
// the fingerprints of the present tree are recomputed; a pinned name that no longer exists is
// re-attached to the one and only new function with the identical fingerprint, and a function
// whose parameters are the pinned ones in another order gets the permutation that restores the
// pinned order.  The function that carries the name is still analysed by every rule that
// mentions it: aliasing only decides which function a rule's name refers to.

import (
	_ "embed"
	"encoding/json"
	"go/token"
	"go/types"
	"sort"
	"strings"
	"sync"

	"golang.org/x/tools/go/ssa"
)

//go:embed canon_pinned.json
var canonPinnedJSON []byte

type canonEntry struct {
	Name    string   `json:"name"`
	Recv    string   `json:"recv"`
	Params  []string `json:"params"`
	Results []string `json:"results"`
	Effects []string `json:"effects"`
}

type canonInfo struct {
	name string // canonical name (pinned) this function answers to
	perm []int  // canonical parameter i is actual parameter perm[i] (nil: same order); receiver excluded
}

// canonByFn is shared by all loaded programs (functions of different programs are different
// pointers; selftest variants are analysed concurrently): add-only under canonMu.
var (
	canonMu   sync.RWMutex
	canonByFn = map[*ssa.Function]*canonInfo{}
)

func canonOf(fn *ssa.Function) *canonInfo {
	canonMu.RLock()
	defer canonMu.RUnlock()
	return canonByFn[fn]
}

func ptrFree(s string) string { return strings.TrimPrefix(s, "*") }

// fingerprintOf computes the name-independent fingerprint of a named module function.
func fingerprintOf(fn *ssa.Function) canonEntry { return fingerprintWith(fn, nil) }

// fingerprintWith: callee names are mapped through alias (raw name -> canonical name) so that a
// function whose callees were renamed as well still matches once those callees are resolved.
func fingerprintWith(fn *ssa.Function, alias map[string]string) canonEntry {
	e := canonEntry{Name: rawFuncName(fn)}
	sig := fn.Signature
	if r := sig.Recv(); r != nil {
		e.Recv = ptrFree(typeName(r.Type()))
	}
	for i := 0; i < sig.Params().Len(); i++ {
		e.Params = append(e.Params, ptrFree(typeName(sig.Params().At(i).Type())))
	}
	for i := 0; i < sig.Results().Len(); i++ {
		e.Results = append(e.Results, ptrFree(typeName(sig.Results().At(i).Type())))
	}
	eff := map[string]bool{}
	var scan func(f *ssa.Function)
	scan = func(f *ssa.Function) {
		for _, b := range f.Blocks {
			for _, in := range b.Instrs {
				switch x := in.(type) {
				case *ssa.MapUpdate:
					if _, fld, ok := fieldOf(x.Map); ok {
						eff["mapset:"+fld] = true
					}
				case *ssa.Go:
					eff["go"] = true
				case *ssa.Store:
					if g, ok := x.Addr.(*ssa.Global); ok {
						eff["global:"+g.Name()] = true
					}
				}
				ci, ok := in.(ssa.CallInstruction)
				if !ok {
					continue
				}
				c := ci.Common()
				if c.IsInvoke() {
					eff["iface:"+ifaceCalleeName(c.Method)] = true
					continue
				}
				switch v := c.Value.(type) {
				case *ssa.Builtin:
					if v.Name() == "delete" {
						if _, fld, ok := fieldOf(c.Args[0]); ok {
							eff["mapdel:"+fld] = true
						}
					}
				case *ssa.Function:
					if o := v.Origin(); o != nil {
						v = o
					}
					if isCollectionsRecv(v) && len(c.Args) > 0 {
						fld := "?"
						if _, f2, ok := fieldOf(c.Args[0]); ok {
							fld = f2
						}
						eff["coll:"+fld+"."+methodOf(rawFuncName(v))] = true
					} else {
						// a static callee: part of what the function does (hash helpers, setters ...)
						n := rawFuncName(v)
						if a, ok := alias[n]; ok {
							n = a
						}
						eff["static:"+n] = true
					}
				case *ssa.MakeClosure:
				default:
					if _, fld, ok := fieldOf(c.Value); ok {
						eff["dyn:"+fld] = true
					}
				}
			}
		}
		for _, an := range f.AnonFuncs {
			scan(an)
		}
	}
	scan(fn)
	for k := range eff {
		e.Effects = append(e.Effects, k)
	}
	sort.Strings(e.Effects)
	return e
}

func sameMultiset(a, b []string) bool {
	if len(a) != len(b) {
		return false
	}
	x, y := append([]string(nil), a...), append([]string(nil), b...)
	sort.Strings(x)
	sort.Strings(y)
	for i := range x {
		if x[i] != y[i] {
			return false
		}
	}
	return true
}

func sameSeq(a, b []string) bool {
	if len(a) != len(b) {
		return false
	}
	for i := range a {
		if a[i] != b[i] {
			return false
		}
	}
	return true
}

// permOf: canonical parameter i is actual parameter perm[i]; nil when the orders agree.
func permOf(pinned, actual []string) []int {
	if sameSeq(pinned, actual) {
		return nil
	}
	used := make([]bool, len(actual))
	perm := make([]int, len(pinned))
	for i, t := range pinned {
		perm[i] = -1
		for j, u := range actual {
			if !used[j] && u == t {
				used[j] = true
				perm[i] = j
				break
			}
		}
		if perm[i] < 0 {
			return nil
		}
	}
	return perm
}

// namedFuncs: the named (non-anonymous, non-synthetic) module functions in rule scope.
func (w *World) namedFuncs() []*ssa.Function {
	var out []*ssa.Function
	for _, f := range w.Funcs {
		if f.Parent() != nil || f.Synthetic != "" || f.Origin() != nil {
			continue
		}
		if _, ok := f.Object().(*types.Func); !ok {
			continue
		}
		out = append(out, f)
	}
	return out
}

// canonPin renders the pinned table of the present tree (developer action: -pin-canon).
func (w *World) canonPin() []byte {
	var es []canonEntry
	for _, f := range w.namedFuncs() {
		es = append(es, fingerprintOf(f))
	}
	sort.Slice(es, func(i, j int) bool { return es[i].Name < es[j].Name })
	b, _ := json.MarshalIndent(es, "", " ")
	return append(b, '\n')
}

// resolveCanon attaches vanished pinned names to their unique fingerprint-equal successors and
// records parameter permutations.  Called once per load, before any rule runs.
func (w *World) resolveCanon() {
	w.canonByName = map[string]*ssa.Function{}
	w.canonNotes = nil
	canonMu.Lock()
	defer canonMu.Unlock()
	var pinned []canonEntry
	if err := json.Unmarshal(canonPinnedJSON, &pinned); err != nil {
		return
	}
	pinnedBy := map[string]canonEntry{}
	for _, p := range pinned {
		pinnedBy[p.Name] = p
	}
	cur := map[string]*ssa.Function{}
	fps := map[*ssa.Function]canonEntry{}
	for _, f := range w.namedFuncs() {
		fp := fingerprintOf(f)
		cur[fp.Name] = f
		fps[f] = fp
	}
	// same name, parameters in another order
	for name, f := range cur {
		if p, ok := pinnedBy[name]; ok {
			fp := fps[f]
			if !sameSeq(p.Params, fp.Params) && sameMultiset(p.Params, fp.Params) {
				if perm := permOf(p.Params, fp.Params); perm != nil {
					canonByFn[f] = &canonInfo{name: name, perm: perm}
					w.canonNotes = append(w.canonNotes, name+": parameters reordered; arguments are read in the pinned order")
				}
			}
		}
	}
	// vanished names: resolved in rounds, so that a function whose callees were renamed too
	// matches once those callees have their pinned names back
	alias := map[string]string{}
	for round := 0; round < 4; round++ {
		progress := w.resolveVanished(pinnedBy, cur, fps, alias)
		if !progress {
			break
		}
		for f := range fps {
			fps[f] = fingerprintWith(f, alias)
		}
	}
	sort.Strings(w.canonNotes)
}

func (w *World) resolveVanished(pinnedBy map[string]canonEntry, cur map[string]*ssa.Function, fps map[*ssa.Function]canonEntry, alias map[string]string) bool {
	progress := false
	var names []string
	for n := range pinnedBy {
		names = append(names, n)
	}
	sort.Strings(names)
	taken := map[*ssa.Function]bool{}
	for f := range canonByFn {
		taken[f] = canonByFn[f].name != fps[f].Name && fps[f].Name != ""
	}
	for _, n := range names {
		if cur[n] != nil || w.canonByName[n] != nil {
			continue
		}
		p := pinnedBy[n]
		if len(p.Effects) == 0 {
			continue // nothing but types to go by: too weak to re-attach a name
		}
		var cands []*ssa.Function
		for f, fp := range fps {
			if _, isPinned := pinnedBy[fp.Name]; isPinned || taken[f] {
				continue
			}
			if fp.Recv == p.Recv && sameMultiset(fp.Params, p.Params) && sameSeq(fp.Results, p.Results) && sameSeq(fp.Effects, p.Effects) {
				cands = append(cands, f)
			}
		}
		if len(cands) != 1 {
			continue
		}
		f := cands[0]
		taken[f] = true
		canonByFn[f] = &canonInfo{name: n, perm: permOf(p.Params, fps[f].Params)}
		w.canonByName[n] = f
		alias[fps[f].Name] = n
		progress = true
		w.canonNotes = append(w.canonNotes, fps[f].Name+" answers to the pinned name "+n+" (identical receiver, types, direct effects and callees)")
	}
	return progress
}

// rawFuncName: the function's own short name, without aliasing.
func rawFuncName(fn *ssa.Function) string {
	f := fn
	if o := fn.Origin(); o != nil {
		f = o
	}
	if obj, ok := f.Object().(*types.Func); ok && obj != nil {
		n := shortName(obj.FullName())
		if strings.HasPrefix(n, "(*") {
			n = "(" + n[2:]
		}
		return n
	}
	return shortName(f.String())
}

// canonArgs reorders the explicit arguments of a call of fn into the pinned parameter order.
// args includes the receiver first when the callee is a method.
func canonArgs(fn *ssa.Function, args []*Term) []*Term {
	ci := canonOf(fn)
	if ci == nil || ci.perm == nil {
		return args
	}
	off := 0
	if fn.Signature.Recv() != nil {
		off = 1
	}
	if len(args) != off+len(ci.perm) {
		return args
	}
	out := append([]*Term(nil), args[:off]...)
	for _, j := range ci.perm {
		out = append(out, args[off+j])
	}
	return out
}

// canonParamNames maps positional parameter names given in the pinned order onto fn's order.
func canonParamNames(fn *ssa.Function, names []string) []string {
	ci := canonOf(fn)
	if ci == nil || ci.perm == nil || len(names) == 0 {
		return names
	}
	off := 0
	if fn.Signature.Recv() != nil {
		off = 1
	}
	out := make([]string, off+len(ci.perm))
	copy(out, names[:min(off, len(names))])
	for i, j := range ci.perm {
		if off+i < len(names) && off+j < len(out) {
			out[off+j] = names[off+i]
		}
	}
	return out
}

var _ = token.NoPos

// ifaceCalleeName: the short name of an interface method as rules know it.  A private (or
// narrowed) interface that a helper declares for one capability of an expected keeper - its
// method set is a subset of an exported keeper interface of the module, signatures identical -
// is a view of that keeper: its methods answer to the keeper interface's names, so that
// effect tables and call matches do not depend on how narrowly a helper types its dependency.
var ifaceNameCache sync.Map // *types.Func -> string

func ifaceCalleeName(m *types.Func) string {
	if v, ok := ifaceNameCache.Load(m); ok {
		return v.(string)
	}
	name := shortName(m.FullName())
	if k := keeperViewOf(m); k != "" {
		name = k
	}
	ifaceNameCache.Store(m, name)
	return name
}

func keeperViewOf(m *types.Func) string {
	sig, ok := m.Type().(*types.Signature)
	if !ok || sig.Recv() == nil || m.Pkg() == nil || !strings.HasPrefix(m.Pkg().Path(), modPath) {
		return ""
	}
	named, ok := sig.Recv().Type().(*types.Named)
	if !ok {
		return ""
	}
	it, ok := named.Underlying().(*types.Interface)
	if !ok {
		return ""
	}
	if named.Obj().Exported() && strings.HasSuffix(named.Obj().Pkg().Path(), "/types") {
		return "" // an expected-keeper interface itself
	}
	modOf := func(path string) string { // "ophost" / "opchild"
		rest := strings.TrimPrefix(path, modPath+"/x/")
		if i := strings.Index(rest, "/"); i >= 0 {
			return rest[:i]
		}
		return rest
	}
	type cand struct {
		name string
		same bool
	}
	var cands []cand
	pkgs := append([]*types.Package{m.Pkg()}, m.Pkg().Imports()...)
	for _, p := range pkgs {
		if !strings.HasPrefix(p.Path(), modPath) || !strings.HasSuffix(p.Path(), "/types") {
			continue
		}
		for _, n := range p.Scope().Names() {
			tn, ok := p.Scope().Lookup(n).(*types.TypeName)
			if !ok || !tn.Exported() || tn == named.Obj() {
				continue
			}
			kit, ok := tn.Type().Underlying().(*types.Interface)
			if !ok {
				continue
			}
			sub := it.NumMethods() > 0
			for i := 0; i < it.NumMethods() && sub; i++ {
				im := it.Method(i)
				obj, _, _ := types.LookupFieldOrMethod(tn.Type(), false, p, im.Name())
				km, ok := obj.(*types.Func)
				if !ok || !types.Identical(stripRecv(km.Type()), stripRecv(im.Type())) {
					sub = false
				}
			}
			_ = kit
			if sub {
				cands = append(cands, cand{"(" + shortName(p.Path()+"."+tn.Name()) + ")." + m.Name(), modOf(p.Path()) == modOf(m.Pkg().Path())})
			}
		}
	}
	sort.Slice(cands, func(i, j int) bool {
		if cands[i].same != cands[j].same {
			return cands[i].same
		}
		return cands[i].name < cands[j].name
	})
	if len(cands) == 0 {
		return ""
	}
	return cands[0].name
}

func stripRecv(t types.Type) types.Type {
	if s, ok := t.(*types.Signature); ok {
		return types.NewSignatureType(nil, nil, nil, s.Params(), s.Results(), s.Variadic())
	}
	return t
}

// releaseWorld drops what the process-wide caches hold for a program that is no longer needed
// (a selftest / audit variant): its functions in canonByFn, and the object-keyed caches, whose
// keys would otherwise keep every variant's type-checked program reachable.
func releaseWorld(w *World) {
	if w == nil {
		return
	}
	canonMu.Lock()
	var drop func(f *ssa.Function)
	drop = func(f *ssa.Function) {
		delete(canonByFn, f)
		for _, an := range f.AnonFuncs {
			drop(an)
		}
	}
	for _, f := range w.AllFuncs {
		drop(f)
	}
	canonMu.Unlock()
	ifaceNameCache.Range(func(k, _ any) bool { ifaceNameCache.Delete(k); return true })
	constGlobalCache.Range(func(k, _ any) bool { constGlobalCache.Delete(k); return true })
}
