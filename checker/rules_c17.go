package main

import (
	"fmt"
	"go/token"
	"go/types"
	"regexp"
	"sort"
	"strconv"
	"strings"

	"golang.org/x/tools/go/ssa"
)

// ---------------------------------------------------------------------------
// E8: byte-layout normaliser over result terms.
// segments: lit("..") | be64(v) | le64(v) | byte(v) | raw(v)[lo:hi] | raw(v) |
//           utf8(v) | sha3(layout) | hex(layout) | zero(n) | module(name,layout)

type seg struct {
	s string
	n int // byte length, -1 unknown
}

type errLayout struct{ why string }

func layFail(f string, a ...any) { panic(errLayout{fmt.Sprintf(f, a...)}) }

// mergeShiftRuns: adjacent single-byte segments byte(v>>56) ... byte(v) are be64(v)
// (4 / 2 bytes: be32 / be16; reverse order: little endian).
func mergeShiftRuns(ss []seg) []seg {
	for i := 0; i < len(ss); i++ {
		for _, w := range []int{8, 4, 2} {
			if i+w > len(ss) {
				continue
			}
			v, enc, ok := shiftRun(func(k int) (string, int, int) { return ss[i+k].s, k, ss[i+k].n }, w)
			if !ok {
				continue
			}
			merged := seg{fmt.Sprintf("%s%d(%s)", enc, w*8, v), w}
			ss = append(append(append([]seg(nil), ss[:i]...), merged), ss[i+w:]...)
			break
		}
	}
	return ss
}

func joinSegs(ss []seg) string {
	ss = mergeShiftRuns(ss)
	var out []string
	for _, s := range ss {
		out = append(out, s.s)
	}
	return strings.Join(out, "‖")
}

func arrayLen(t types.Type) int {
	if t == nil {
		return -1
	}
	if a, ok := t.Underlying().(*types.Array); ok {
		return int(a.Len())
	}
	return -1
}

// lay: layout of a byte-sequence valued term.
func lay(t *Term) []seg {
	switch t.Op {
	case "const":
		if t.Name == "nil" {
			return nil
		}
		if strings.HasPrefix(t.Name, `"`) {
			s, _ := strconv.Unquote(t.Name)
			return []seg{{"lit(" + strconv.Quote(s) + ")", len(s)}}
		}
		layFail("constant %s in byte position", t.Name)
	case "zero":
		n := arrayLen(t.Typ)
		if n == 0 {
			return nil
		}
		if n > 0 {
			return []seg{{fmt.Sprintf("zero(%d)", n), n}}
		}
		return nil // zero-length []byte{}
	case "param":
		if _, isStr := t.Typ.Underlying().(*types.Basic); isStr {
			return []seg{{"str(" + t.Name + ")", -1}}
		}
		if n := arrayLen(t.Typ); n > 0 {
			return []seg{{fmt.Sprintf("raw(%s)[0:%d]", t.Name, n), n}}
		}
		return []seg{{"raw(" + t.Name + ")", -1}}
	case "convert":
		x := t.Args[0]
		if t.Name == "[]byte" {
			if b, ok := x.Typ.Underlying().(*types.Basic); ok && b.Info()&types.IsString != 0 {
				if x.IsConst() {
					return lay(x)
				}
				return []seg{{"utf8(" + x.Key() + ")", -1}}
			}
		}
		return lay(x)
	case "filled":
		return lay(t.Args[1])
	case "make":
		if t.Name == "slice" && len(t.Args) > 0 && t.Args[0].IsConst() && t.Args[0].Name == "0" {
			return nil // make([]byte, 0, cap): empty, freshly allocated
		}
		layFail("made slice of non-zero or symbolic length without known content")
	case "slice":
		inner := lay(t.Args[0])
		lo, hi := 0, -1
		if t.Args[1] != nil {
			v, ok := t.Args[1].Int()
			if !ok {
				layFail("symbolic slice bound %s", t.Args[1].Key())
			}
			lo = int(v)
		}
		if t.Args[2] != nil {
			v, ok := t.Args[2].Int()
			if !ok {
				if t.Args[2].Key() == "builtin.len("+strip(t.Args[0]).Key()+")" {
					v = -1 // x[:len(x)] (possibly with a capacity clip): the whole value
				} else {
					layFail("symbolic slice bound %s", t.Args[2].Key())
				}
			}
			hi = int(v)
		}
		return cut(inner, lo, hi)
	case "updidx", "opaque":
		return layBuffer(t)
	case "call":
		switch {
		case t.Name == "golang.org/x/crypto/sha3.Sum256":
			return []seg{{"sha3(" + joinSegs(lay(t.Args[0])) + ")", 32}}
		case t.Name == "builtin.append":
			out := append([]seg(nil), lay(t.Args[0])...)
			for _, a := range t.Args[1:] {
				out = append(out, bytesOf(lay(a))...) // append(b, s...) with a string s appends its bytes
			}
			return out
		case t.Name == "slices.Concat" && len(t.Args) == 1:
			parts, ok := listOf(t.Args[0])
			if !ok {
				layFail("slices.Concat over a symbolic list of parts")
			}
			var out []seg
			for _, a := range parts {
				out = append(out, lay(a)...)
			}
			return out
		case (t.Name == "slices.Clone" || t.Name == "bytes.Clone") && len(t.Args) == 1:
			return lay(t.Args[0])
		case strings.HasPrefix(t.Name, "(encoding/binary.bigEndian).AppendUint"):
			w := strings.TrimPrefix(methodOf(t.Name), "AppendUint")
			n, _ := strconv.Atoi(w)
			return append(append([]seg(nil), lay(t.Args[1])...), seg{"be" + w + "(" + t.Args[2].Key() + ")", n / 8})
		case strings.HasPrefix(t.Name, "(encoding/binary.littleEndian).AppendUint"):
			w := strings.TrimPrefix(methodOf(t.Name), "AppendUint")
			n, _ := strconv.Atoi(w)
			return append(append([]seg(nil), lay(t.Args[1])...), seg{"le" + w + "(" + t.Args[2].Key() + ")", n / 8})
		case t.Name == "byte" && len(t.Args) == 1:
			return []seg{{"byte(" + t.Args[0].Key() + ")", 1}}
		case strings.HasPrefix(t.Name, "be") || strings.HasPrefix(t.Name, "le"):
			if n, err := strconv.Atoi(t.Name[2:]); err == nil && len(t.Args) == 1 {
				return []seg{{t.Name + "(" + t.Args[0].Key() + ")", n / 8}}
			}
		case t.Name == "encoding/hex.EncodeToString":
			return []seg{{"hex(" + joinSegs(lay(t.Args[0])) + ")", -1}}
		case t.Name == "fmt.Sprintf":
			return laySprintf(t)
		case t.Name == "sdkaddress.Module":
			name := t.Args[0]
			keys, ok := listOf(t.Args[1])
			if !ok || !name.IsConst() {
				layFail("address.Module with non-constant shape")
			}
			var ks []string
			for _, k := range keys {
				ks = append(ks, joinSegs(lay(k)))
			}
			return []seg{{"module(" + strings.Trim(name.Name, `"`) + "," + strings.Join(ks, ",") + ")", 32}}
		case t.Name == "ophost/types.GenerateNodeHash":
			return []seg{{"node(" + joinSegs(lay(t.Args[0])) + "," + joinSegs(lay(t.Args[1])) + ")", 32}}
		}
		layFail("call %s in byte position", t.Name)
	case "index":
		return []seg{{"raw(" + t.Key() + ")", -1}}
	case "bin":
		// string concatenation
		if t.Name == "+" && len(t.Args) == 2 {
			if b, ok := t.Typ.Underlying().(*types.Basic); ok && b.Info()&types.IsString != 0 {
				return append(append([]seg(nil), lay(t.Args[0])...), lay(t.Args[1])...)
			}
		}
	}
	layFail("unsupported term %s (%s)", t.Op, trunc(t.Key(), 80))
	return nil
}

func cut(ss []seg, lo, hi int) []seg {
	// whole
	total := 0
	known := true
	for _, s := range ss {
		if s.n < 0 {
			known = false
		}
		total += s.n
	}
	if lo == 0 && (hi < 0 || (known && hi == total)) {
		return ss
	}
	if len(ss) == 1 && strings.HasPrefix(ss[0].s, "raw(") && !strings.Contains(ss[0].s, "[") && hi >= 0 {
		return []seg{{fmt.Sprintf("%s[%d:%d]", ss[0].s, lo, hi), hi - lo}}
	}
	if !known {
		layFail("slicing [%d:%d] of a layout with unknown lengths: %s", lo, hi, joinSegs(ss))
	}
	if hi < 0 {
		hi = total
	}
	var out []seg
	off := 0
	for _, s := range ss {
		a, b := off, off+s.n
		off = b
		if b <= lo || a >= hi {
			continue
		}
		if a >= lo && b <= hi {
			out = append(out, s)
			continue
		}
		if strings.HasPrefix(s.s, "zero(") {
			x, y := max(a, lo), min(b, hi)
			out = append(out, seg{fmt.Sprintf("zero(%d)", y-x), y - x})
			continue
		}
		layFail("slice bound cuts through segment %s", s.s)
	}
	return out
}

// segLen: the byte length of a segment as a linear form (known n, or len(<value>) for
// raw/utf8/str segments of unknown length).
func segLen(s seg) (linForm, bool) {
	if s.n >= 0 {
		return linForm{c: int64(s.n), k: map[string]int64{}}, true
	}
	for _, p := range []string{"raw(", "utf8(", "str("} {
		if strings.HasPrefix(s.s, p) && strings.HasSuffix(s.s, ")") && !strings.Contains(s.s, "[") {
			return linForm{k: map[string]int64{"builtin.len(" + s.s[len(p):len(s.s)-1] + ")": 1}}, true
		}
	}
	return linForm{}, false
}

// bytesOf: a string-typed source copied into a byte buffer contributes its utf8 bytes.
func bytesOf(ss []seg) []seg {
	out := make([]seg, len(ss))
	for i, s := range ss {
		if strings.HasPrefix(s.s, "str(") {
			s.s = "utf8(" + s.s[4:]
		}
		out[i] = s
	}
	return out
}

// layBuffer: buffer built by index stores and copies: a fixed-size array / made slice
// with writes at constant offsets, or a made slice of symbolic length whose writes sit
// at the prefix sums of their lengths and cover it exactly.
func layBuffer(t *Term) []seg {
	type wr struct {
		off  linForm
		ss   []seg
		byte bool
	}
	var writes []wr
	size := -1
	var symSize *linForm
	cur := t
	for {
		switch {
		case cur.Op == "opaque" && cur.Name == "copied":
			writes = append(writes, wr{off: lin(cur.Args[2]), ss: bytesOf(lay(cur.Args[1]))})
			cur = cur.Args[0]
			continue
		case cur.Op == "updidx":
			writes = append(writes, wr{off: lin(cur.Args[1]), ss: []seg{{"byte(" + cur.Args[2].Key() + ")", 1}}})
			cur = cur.Args[0]
			continue
		case cur.Op == "zero":
			size = arrayLen(cur.Typ)
			if size < 0 && cur.Typ != nil {
				// zero content of a made slice: its length is the make's length argument (below)
			}
		case cur.Op == "deref" || cur.Op == "make":
			// made slice of zero content
		default:
			layFail("buffer base %s", cur.Op)
		}
		break
	}
	allConst := true
	for _, w := range writes {
		if !w.off.isConst() {
			allConst = false
		}
		for _, s := range w.ss {
			if s.n < 0 {
				allConst = false
			}
		}
	}
	if !allConst {
		_ = symSize
		return laySymbolicBuffer(t, func() (out [][2]any) {
			for i := len(writes) - 1; i >= 0; i-- {
				out = append(out, [2]any{writes[i].off, writes[i].ss})
			}
			return
		}())
	}
	// later writes come first in the list: apply in reverse (oldest first), newer overwrite
	type cell struct {
		s   seg
		off int
	}
	var cells []cell
	for i := len(writes) - 1; i >= 0; i-- {
		off := int(writes[i].off.c)
		for _, s := range writes[i].ss {
			// drop overlapped older cells
			var keep []cell
			for _, c := range cells {
				if c.off+c.s.n <= off || c.off >= off+s.n {
					keep = append(keep, c)
				} else if c.off >= off && c.off+c.s.n <= off+s.n {
					// fully overwritten
				} else {
					layFail("partial overwrite of %s", c.s.s)
				}
			}
			cells = append(keep, cell{s, off})
			off += s.n
		}
	}
	sort.Slice(cells, func(i, j int) bool { return cells[i].off < cells[j].off })
	// hand-written integer encodings: 8 (4, 2) adjacent single bytes byte(v>>56) ... byte(v)
	// are be64(v) (reverse order: le64(v))
	for i := 0; i < len(cells); i++ {
		for _, w := range []int{8, 4, 2} {
			if i+w > len(cells) {
				continue
			}
			v, enc, ok := shiftRun(func(k int) (string, int, int) { return cells[i+k].s.s, cells[i+k].off, cells[i+k].s.n }, w)
			if !ok {
				continue
			}
			merged := cell{seg{fmt.Sprintf("%s%d(%s)", enc, w*8, v), w}, cells[i].off}
			cells = append(append(append([]cell(nil), cells[:i]...), merged), cells[i+w:]...)
			break
		}
	}
	var out []seg
	pos := 0
	for _, c := range cells {
		if c.off > pos {
			out = append(out, seg{fmt.Sprintf("zero(%d)", c.off-pos), c.off - pos})
		}
		out = append(out, c.s)
		pos = c.off + c.s.n
	}
	if size > pos {
		out = append(out, seg{fmt.Sprintf("zero(%d)", size-pos), size - pos})
	}
	return out
}

var shiftByteRe = regexp.MustCompile(`^byte\((?:uint8|byte)\(\((.+) >> (\d+)\)\)\)$`)
var plainByteRe = regexp.MustCompile(`^byte\((?:uint8|byte)\((.+)\)\)$`)

// shiftRun: do the w single-byte segments starting at get(0) spell v >> 8(w-1), ..., v >> 0
// at consecutive offsets (big endian) or the reverse (little endian)?
func shiftRun(get func(k int) (s string, off int, n int), w int) (v, enc string, ok bool) {
	shifts := make([]int, w)
	for k := 0; k < w; k++ {
		s, off, n := get(k)
		_, off0, _ := get(0)
		if n != 1 || off != off0+k {
			return "", "", false
		}
		var val string
		var sh int
		if m := shiftByteRe.FindStringSubmatch(s); m != nil {
			val = m[1]
			sh, _ = strconv.Atoi(m[2])
		} else if m := plainByteRe.FindStringSubmatch(s); m != nil {
			val, sh = m[1], 0
		} else {
			return "", "", false
		}
		if k == 0 {
			v = val
		} else if val != v {
			return "", "", false
		}
		shifts[k] = sh
	}
	be, le := true, true
	for k := 0; k < w; k++ {
		if shifts[k] != 8*(w-1-k) {
			be = false
		}
		if shifts[k] != 8*k {
			le = false
		}
	}
	switch {
	case be:
		return v, "be", true
	case le:
		return v, "le", true
	}
	return "", "", false
}

// laySymbolicBuffer: writes (oldest first) at symbolic offsets.  Accepted shape: the
// writes, ordered by program order, form a chain - each starts where the previous one
// ended (equal linear forms), the first at 0 - and no write is repeated.  The result is
// the concatenation; a trailing zero tail of unknown length cannot be excluded unless the
// buffer's length is known, so the made length must equal the final offset when the
// base term exposes it.
func laySymbolicBuffer(t *Term, writes [][2]any) []seg {
	pos := linForm{k: map[string]int64{}}
	var out []seg
	for _, w := range writes {
		off := w[0].(linForm)
		if !off.equal(pos) {
			layFail("write at offset %s does not continue the buffer at %s (only prefix-sum layouts are recognised)", off, pos)
		}
		for _, s := range w[1].([]seg) {
			l, ok := segLen(s)
			if !ok {
				layFail("write of a segment with underivable length: %s", s.s)
			}
			out = append(out, s)
			pos = pos.add(l, 1)
		}
	}
	// the made length, when visible, must be covered exactly
	var made *Term
	t.Walk(func(x *Term) bool {
		if made == nil && x.Op == "make" && x.Name == "slice" && len(x.Args) > 0 {
			made = x
		}
		return made == nil
	})
	if made != nil {
		if ml := lin(made.Args[0]); !ml.equal(pos) {
			layFail("buffer of length %s is written up to %s only", ml, pos)
		}
	}
	return out
}

func laySprintf(t *Term) []seg {
	f := t.Args[0]
	if !f.IsConst() {
		layFail("non-constant format")
	}
	format, _ := strconv.Unquote(f.Name)
	args, ok := listOf(t.Args[1])
	if !ok {
		layFail("format arguments not a list")
	}
	var out []seg
	ai := 0
	lit := ""
	flush := func() {
		if lit != "" {
			out = append(out, seg{"lit(" + strconv.Quote(lit) + ")", len(lit)})
			lit = ""
		}
	}
	for i := 0; i < len(format); i++ {
		if format[i] != '%' {
			lit += string(format[i])
			continue
		}
		i++
		if i >= len(format) || ai >= len(args) {
			layFail("bad format %q", format)
		}
		a := args[ai]
		ai++
		switch format[i] {
		case 's':
			if a.IsConst() {
				s, _ := strconv.Unquote(a.Name)
				lit += s
			} else {
				flush()
				out = append(out, seg{"str(" + a.Key() + ")", -1})
			}
		case 'x':
			flush()
			out = append(out, seg{"hex(" + joinSegs(lay(a)) + ")", -1})
		case 'd':
			flush()
			out = append(out, seg{"dec(" + a.Key() + ")", -1})
		default:
			layFail("format verb %%%c", format[i])
		}
	}
	flush()
	return out
}

func layoutOf(t *Term) (s string, err error) {
	defer func() {
		if r := recover(); r != nil {
			if e, ok := r.(errLayout); ok {
				err = fmt.Errorf("%s", e.why)
				return
			}
			panic(r)
		}
	}()
	return joinSegs(lay(t)), nil
}

// ---------------------------------------------------------------------------
// C17

var c17Pinned = map[string]string{
	"GenerateWithdrawalHash": "sha3(sha3(be64(bridgeId)‖be64(l2Sequence)‖sha3(utf8(sender))‖sha3(utf8(receiver))‖sha3(utf8(denom))‖be64(amount)))",
	"GenerateOutputRoot":     "sha3(byte(version)‖raw(storageRoot)[0:32]‖raw(latestBlockHash)[0:32])",
	"L2Denom":                `lit("l2/")‖hex(sha3(be64(bridgeId)‖utf8(l1Denom)))`,
	"BridgeAddress":          "module(ophost,be64(bridgeId))",
}

var c17Params = map[string][]string{
	"GenerateWithdrawalHash":     {"bridgeId", "l2Sequence", "sender", "receiver", "denom", "amount"},
	"GenerateOutputRoot":         {"version", "storageRoot", "latestBlockHash"},
	"L2Denom":                    {"bridgeId", "l1Denom"},
	"BridgeAddress":              {"bridgeId"},
	"GenerateNodeHash":           {"a", "b"},
	"GenerateRootHashFromProofs": {"data", "proofs"},
}

var noInline = []string{"<none>"}

// layoutRule: the byte layout of each named derivation function equals the pinned
// format (C17.R1; reused by C01/C08/C10 for the derivations they depend on).
func layoutRule(c *Ctx, rule string, names []string) {
	for _, name := range names {
		fn := c.Func(hostTypes, name)
		o := c.Ob(rule, name+": layout equals the pinned format "+c17Pinned[name])
		paths := c.Paths(fn, PO{Params: c17Params[name], Visits: 10})
		for _, p := range paths {
			o.Paths++
			o.Sites++
			o.Facts += p.NFacts()
			if p.Panic || len(p.Ret) != 1 {
				o.Fail(c.W.Pos(fn.Pos()), "unexpected path shape (panic or arity)", c.Dump(p, -1))
				continue
			}
			got, err := layoutOf(p.Ret[0])
			if err != nil {
				o.Undecide("layout not derivable: " + err.Error() + " in " + trunc(p.Ret[0].Key(), 200))
				continue
			}
			o.Note(got)
			if got != c17Pinned[name] {
				o.Fail(c.W.Pos(fn.Pos()), "layout is "+got, c.Dump(p, -1))
			}
		}
		if len(paths) != 1 {
			o.Fail(c.W.Pos(fn.Pos()), fmt.Sprintf("%d paths (a straight-line derivation is expected; data-dependent layouts are not a format)", len(paths)), nil)
		}
	}
}

func propC17(c *Ctx) {
	c.Clauses = append(c.Clauses,
		"byte layouts of the leaf hash, output root, L2 denom and bridge address, re-derived from the source by abstract interpretation (E8), equal the pinned independent layout table",
		"node hash: the three bytes.Compare outcomes cover {-1,0,1}; '<' hashes a‖b, '>=' hashes b‖a (hence symmetric); root-from-proofs is the left fold of the node hash over all proof items in index order starting from the leaf",
		"parameter immutability: none of the six derivation functions can write through a slice parameter (no append on a parameter-derived slice whose capacity is not clipped, no index store/copy into it, no hand-off to a callee outside the read-only table)",
		"purity: no state effect, no global other than the byte-order constant, results depend on parameters only")
	c.NotDecided = append(c.NotDecided, "equality with an independent implementation by execution on concrete vectors (we compare layouts, not digests)", "SHA3 itself and address.Module's internals (A5)")
	c.Assumptions = append(c.Assumptions, "A1", "A5", "A10")

	c.Rule("C17.R1", func() {
		layoutRule(c, "C17.R1", sortedKeys(c17Pinned))
		digestParamRule(c, "C17.R1")
	})

	// the verifier hands the derivation functions the claim's fields verbatim
	c.Rule("C17.R5", func() { verbatimLeaf(c, "C17.R5") })

	c.Rule("C17.R2", func() { nodeHashAndFold(c, "C17.R2") })

	c.Rule("C17.R3", func() {
		for _, name := range sortedKeys(c17Params) {
			fn := c.Func(hostTypes, name)
			o := c.Ob("C17.R3", name+": never writes through a slice parameter")
			checkParamImmutable(c, o, fn)
		}
	})

	c.Rule("C17.R4", func() {
		eff := c.W.BuildEffects()
		for _, name := range sortedKeys(c17Params) {
			fn := c.Func(hostTypes, name)
			o := c.Ob("C17.R4", name+": pure (no effect, no mutable global, result over parameters only)")
			for _, s := range eff.ReachSites(fn, func(s *Site) bool { return true }) {
				o.Sites++
				switch s.Kind {
				case SColl, SDyn, SMapSet, SMapDel, SGlobal, SGo, SMapIter:
					o.Fail(c.W.Pos(s.Pos), string(s.Kind)+" in a derivation function", nil)
				case SIface:
					o.Fail(c.W.Pos(s.Pos), "interface call "+s.Callee+" in a derivation function", nil)
				case SStatic:
					// module helpers are examined through Reach (their own sites are in this list);
					// methods of a bytes.Buffer / binary.Write act on a buffer the function owns (the
					// path check below shows the result depends on the parameters only)
					if s.Target != nil && s.Target.Blocks != nil {
						continue
					}
					if strings.HasPrefix(s.Callee, "(*bytes.Buffer).") || s.Callee == "encoding/binary.Write" {
						continue
					}
					if !isPure(s.Callee) && !containsAny(s.Callee, derivationFns) && !strings.HasPrefix(s.Callee, "builtin.") {
						o.Fail(c.W.Pos(s.Pos), "call of "+s.Callee+" (not in the pure table)", nil)
					}
				}
			}
			// globals read
			for f := range eff.Reach(fn) {
				for _, b := range f.Blocks {
					for _, in := range b.Instrs {
						for _, op := range in.Operands(nil) {
							if g, ok := (*op).(*ssa.Global); ok {
								o.Sites++
								if gn := shortName(g.String()); gn != "encoding/binary.BigEndian" && gn != "encoding/binary.LittleEndian" {
									o.Fail(c.W.Pos(in.Pos()), "reads package-level variable "+gn, nil)
								}
							}
						}
					}
				}
			}
			for _, p := range c.Paths(fn, PO{Params: c17Params[name], Visits: 10}) {
				o.Paths++
				if p.Panic || len(p.Ret) != 1 {
					continue
				}
				p.Ret[0].Walk(func(x *Term) bool {
					switch x.Op {
					case "global":
						if x.Name != "encoding/binary.BigEndian" && x.Name != "encoding/binary.LittleEndian" {
							o.Fail(c.W.Pos(fn.Pos()), "result depends on global "+x.Name, nil)
						}
					case "make":
						// a made slice is zero-initialised by the language: deterministic content.
						// Maps and channels are not byte content and stay rejected.
						if x.Name != "slice" {
							o.Fail(c.W.Pos(fn.Pos()), "result depends on a made "+x.Name, nil)
						}
					case "free", "lookup", "range", "next":
						o.Fail(c.W.Pos(fn.Pos()), "result depends on "+x.Op+" "+x.Name, nil)
					case "call":
						if x.ID != 0 {
							o.Fail(c.W.Pos(fn.Pos()), "result depends on impure call "+x.Name, nil)
						}
					}
					return true
				})
			}
		}
	})
}

// checkParamImmutable: SSA def-use scan.  A value is "caller memory" when it is
// a slice-typed parameter, an element of a [][]byte parameter, or a slice of
// such a value without a 3-index capacity clip.
func checkParamImmutable(c *Ctx, o *Obl, fn *ssa.Function) {
	caller := map[ssa.Value]string{}
	isSliceT := func(t types.Type) bool { _, ok := t.Underlying().(*types.Slice); return ok }
	for _, p := range fn.Params {
		if isSliceT(p.Type()) {
			caller[p] = p.Name()
		}
	}
	readOnly := func(name string) bool {
		switch name {
		case "golang.org/x/crypto/sha3.Sum256", "bytes.Compare", "bytes.Equal", "builtin.len", "builtin.cap", "encoding/hex.EncodeToString",
			"(*bytes.Buffer).Write", "(*bytes.Buffer).WriteString", "bytes.NewReader", "encoding/binary.Write":
			// (*bytes.Buffer).Write copies its argument into the buffer's own storage
			return true
		}
		return containsAny(name, derivationFns) // checked by their own obligation
	}
	// propagate to fixpoint
	for changed := true; changed; {
		changed = false
		for _, b := range fn.Blocks {
			for _, in := range b.Instrs {
				v, ok := in.(ssa.Value)
				if !ok || caller[v] != "" {
					continue
				}
				var src ssa.Value
				switch x := in.(type) {
				case *ssa.Slice:
					if x.Max == nil { // a[lo:hi] keeps the capacity: appends may write into the caller's array
						src = x.X
					} else {
						src = x.X // still aliases the elements: index stores would write through
					}
				case *ssa.Phi:
					for _, e := range x.Edges {
						if caller[e] != "" {
							src = e
						}
					}
				case *ssa.ChangeType:
					src = x.X
				case *ssa.UnOp:
					if x.Op == token.MUL {
						if ia, ok := x.X.(*ssa.IndexAddr); ok && caller[ia.X] != "" && isSliceT(x.Type()) {
							src = ia.X // element of [][]byte parameter
						}
					}
				case *ssa.Index:
					if caller[x.X] != "" && isSliceT(x.Type()) {
						src = x.X
					}
				case *ssa.Extract:
					// range over [][]byte via Next: not used by go/ssa for slices
				}
				if src != nil && caller[src] != "" {
					caller[v] = caller[src]
					changed = true
				}
			}
		}
	}
	clipped := map[ssa.Value]bool{}
	for _, b := range fn.Blocks {
		for _, in := range b.Instrs {
			if s, ok := in.(*ssa.Slice); ok && s.Max != nil && s.High != nil && sameLen(s.Max, s.High) {
				clipped[s] = true // p[:n:n]: append must reallocate
			}
		}
	}
	for _, b := range fn.Blocks {
		for _, in := range b.Instrs {
			switch x := in.(type) {
			case *ssa.Store:
				if ia, ok := x.Addr.(*ssa.IndexAddr); ok && caller[ia.X] != "" {
					o.Sites++
					o.Fail(c.W.Pos(x.Pos()), "index store into memory of parameter "+caller[ia.X], nil)
				}
			case ssa.CallInstruction:
				cc := x.Common()
				name := "dynamic"
				if cc.IsInvoke() {
					name = shortName(cc.Method.FullName())
				} else if f, ok := cc.Value.(*ssa.Function); ok {
					name = funcName(f)
				} else if bi, ok := cc.Value.(*ssa.Builtin); ok {
					name = "builtin." + bi.Name()
				}
				for i, a := range cc.Args {
					if caller[a] == "" {
						continue
					}
					o.Sites++
					switch {
					case name == "builtin.append" && i == 0:
						if !clipped[a] {
							o.Fail(c.W.Pos(in.Pos()), "append(p, ...) on caller-owned slice "+caller[a]+" without a capacity clip or copy: may write into the caller's backing array (result then depends on the caller's memory layout)", nil)
						}
					case name == "builtin.append":
						// source operand: read only
					case name == "builtin.copy" && i == 0:
						o.Fail(c.W.Pos(in.Pos()), "copy into caller-owned slice "+caller[a], nil)
					case name == "builtin.copy":
					case readOnly(name):
					default:
						o.Fail(c.W.Pos(in.Pos()), "caller-owned slice "+caller[a]+" handed to "+name+" (not in the read-only table)", nil)
					}
				}
			}
		}
	}
	if o.Sites == 0 {
		o.Sites = 1 // function examined; no use of caller memory in a write-capable position
	}
}

// sameLen: two SSA values denote the same length (identical value, equal
// constants, or len() of the same operand; go/ssa performs no CSE).
func sameLen(a, b ssa.Value) bool {
	if a == b {
		return true
	}
	if ca, ok := a.(*ssa.Const); ok {
		if cb, ok := b.(*ssa.Const); ok {
			return ca.Value != nil && cb.Value != nil && ca.Value.ExactString() == cb.Value.ExactString()
		}
	}
	la, ok1 := a.(*ssa.Call)
	lb, ok2 := b.(*ssa.Call)
	if ok1 && ok2 {
		ba, ok1 := la.Call.Value.(*ssa.Builtin)
		bb, ok2 := lb.Call.Value.(*ssa.Builtin)
		return ok1 && ok2 && ba.Name() == "len" && bb.Name() == "len" && la.Call.Args[0] == lb.Call.Args[0]
	}
	return false
}

// nodeHashAndFold: the node hash covers all three comparison outcomes (equal nodes hash
// b‖a = a‖a: a sibling-less node is paired with itself) and the root is the left fold over the
// proof items.  Shared by C17 (formats), and C04 (a withdrawal at any position of a tree of
// any size stays provable).
func nodeHashAndFold(c *Ctx, rule string) {
		fn := c.Func(hostTypes, "GenerateNodeHash")
		o := c.Ob(rule, "GenerateNodeHash: compare<0 -> sha3(a‖b); compare>=0 -> sha3(b‖a); outcomes exhaustive")
		seen := map[string]bool{}
		for _, p := range c.Paths(fn, PO{Params: []string{"a", "b"}, Visits: 10}) {
			o.Paths++
			o.Facts += p.NFacts()
			if p.Panic || len(p.Ret) != 1 {
				o.Fail(c.W.Pos(fn.Pos()), "panic or arity", nil)
				continue
			}
			o.Sites++
			// the comparison outcomes {-1,0,1} consistent with every fact this path carries about
			// bytes.Compare(a, b) (equalities of a switch, `< 0`, `>= 0`, `== -1`, ... alike)
			var outcomes []string
			for _, v := range []int64{-1, 0, 1} {
				consistent := true
				for i := range p.Events {
					ev := &p.Events[i]
					if ev.Kind != EvFact {
						continue
					}
					rf, ok := factRel(ev.Cond, ev.Pol)
					if !ok {
						continue
					}
					x, y, r := rf.X, rf.Y, rf.Rel
					if y.Key() == "bytes.Compare(a, b)" {
						x, y, r = y, x, flipRel(r)
					}
					cst, isC := y.Int()
					if x.Key() != "bytes.Compare(a, b)" || !isC {
						continue
					}
					var have uint8 = rEQ
					if v < cst {
						have = rLT
					} else if v > cst {
						have = rGT
					}
					if r&have == 0 {
						consistent = false
					}
				}
				if consistent {
					outcomes = append(outcomes, strconv.FormatInt(v, 10))
				}
			}
			got, err := layoutOf(p.Ret[0])
			if err != nil {
				o.Undecide("layout not derivable: " + err.Error())
				continue
			}
			want := ""
			switch strings.Join(outcomes, ",") {
			case "-1":
				want = "sha3(raw(a)‖raw(b))"
			case "0", "1", "0,1":
				want = "sha3(raw(b)‖raw(a))"
			default:
				o.Fail(c.W.Pos(fn.Pos()), "a returning path is not determined by the comparison outcome (outcomes "+strings.Join(outcomes, ",")+", result "+got+")", c.Dump(p, -1))
				continue
			}
			for _, oc := range outcomes {
				seen[oc] = true
			}
			if got != want {
				o.Fail(c.W.Pos(fn.Pos()), "outcome "+strings.Join(outcomes, ",")+" hashes "+got+", want "+want, c.Dump(p, -1))
			}
		}
		for _, v := range []string{"-1", "0", "1"} {
			if !seen[v] {
				o.Fail(c.W.Pos(fn.Pos()), "comparison outcome "+v+" has no hashing path", nil)
			}
		}
		// fold
		fr := c.Func(hostTypes, "GenerateRootHashFromProofs")
		o2 := c.Ob(rule, "GenerateRootHashFromProofs: left fold of GenerateNodeHash over proofs[0..n) from the leaf")
		for _, p := range c.Paths(fr, PO{Params: []string{"data", "proofs"}, Visits: 4}) {
			o2.Paths++
			o2.Facts += p.NFacts()
			if p.Panic || len(p.Ret) != 1 {
				o2.Fail(c.W.Pos(fr.Pos()), "panic or arity", nil)
				continue
			}
			o2.Sites++
			// count iterations from the loop facts
			k := 0
			for p.HasFact(len(p.Events), func(at *Term, pol bool) bool {
				return pol && at.Op == "bin" && at.Name == "<" && at.Args[0].Key() == strconv.Itoa(k) && at.Args[1].Key() == "builtin.len(proofs)"
			}) {
				k++
			}
			exit := p.HasFact(len(p.Events), func(at *Term, pol bool) bool {
				return !pol && at.Op == "bin" && at.Name == "<" && at.Args[0].Key() == strconv.Itoa(k) && at.Args[1].Key() == "builtin.len(proofs)"
			})
			if !exit {
				o2.Fail(c.W.Pos(fr.Pos()), fmt.Sprintf("returns after %d iterations without having reached the end of the proof list", k), c.Dump(p, -1))
			}
			want := "data"
			for i := 0; i < k; i++ {
				want = fmt.Sprintf("ophost/types.GenerateNodeHash(%s[:], proofs[%d])", want, i)
			}
			if got := p.Ret[0].Key(); got != want {
				o2.Fail(c.W.Pos(fr.Pos()), "after "+strconv.Itoa(k)+" items the result is "+trunc(got, 200)+", want "+want, c.Dump(p, -1))
			}
		}
		if o2.Sites < 3 {
			o2.Fail(c.W.Pos(fr.Pos()), "fewer than 3 iteration counts examined", nil)
		}
	}
