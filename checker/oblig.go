package main

import (
	"encoding/json"
	"fmt"
	"os"
	"path/filepath"
	"sort"
	"strings"
	"time"

	"golang.org/x/tools/go/ssa"
)

type Status string

const (
	Discharged Status = "DISCHARGED"
	Violated   Status = "VIOLATED"
	Undecided  Status = "UNDECIDED"
	Known      Status = "KNOWN-FINDING"
)

// Obl is one proof obligation: rule id + construct (never a line number).
type Obl struct {
	Rule     string   `json:"rule"`
	Key      string   `json:"key"`
	Status   Status   `json:"status"`
	Detail   string   `json:"detail,omitempty"`
	Where    string   `json:"where,omitempty"`
	Paths    int      `json:"paths_examined"`
	Sites    int      `json:"sites_examined"`
	Facts    int      `json:"facts_examined"`
	Witness  []string `json:"witness_path,omitempty"`
	Instance []string `json:"instances,omitempty"`
}

func (o *Obl) ID() string { return o.Rule + " :: " + o.Key }

func (o *Obl) Fail(where, detail string, witness []string) {
	if o.Status == Violated {
		// keep the first report, count the rest
		o.Detail += "; also: " + detail
		return
	}
	o.Status, o.Where, o.Detail, o.Witness = Violated, where, detail, witness
}

func (o *Obl) Undecide(why string) {
	if o.Status == Violated {
		return
	}
	o.Status = Undecided
	if o.Detail != "" {
		o.Detail += "; "
	}
	o.Detail += why
}

func (o *Obl) Note(s string) { o.Instance = append(o.Instance, s) }

// Ctx: one property run.
type Ctx struct {
	W       *World
	Prop    string
	Tier    string
	Seed    int64
	Obls    []*Obl
	byID    map[string]*Obl
	rule    string
	cache   map[string]*pathSet
	sorters map[string]bool
	// statistics, measured
	FuncsAnalysed map[string]bool
	PathsTotal    int
	Clauses       []string // decided clauses (text)
	NotDecided    []string
	Assumptions   []string
	Extra         map[string]any
}

type pathSet struct {
	paths []*Path
	err   error
}

func NewCtx(w *World, prop, tier string, seed int64) *Ctx {
	return &Ctx{W: w, Prop: prop, Tier: tier, Seed: seed, byID: map[string]*Obl{}, cache: map[string]*pathSet{},
		FuncsAnalysed: map[string]bool{}, Extra: map[string]any{}}
}

// Ob opens (or returns) an obligation; it is DISCHARGED unless failed.
func (c *Ctx) Ob(rule, key string) *Obl {
	id := rule + " :: " + key
	if o, ok := c.byID[id]; ok {
		return o
	}
	o := &Obl{Rule: rule, Key: key, Status: Discharged}
	c.byID[id] = o
	c.Obls = append(c.Obls, o)
	return o
}

type anchorErr struct{ what string }

// Rule runs one rule under a recover: panics, unresolved anchors and engine
// overflows become UNDECIDED obligations (which fail the check, named).
func (c *Ctx) Rule(rule string, f func()) {
	c.rule = rule
	defer func() {
		if r := recover(); r != nil {
			o := c.Ob(rule, "rule-execution")
			switch r := r.(type) {
			case anchorErr:
				o.Undecide("unresolved anchor: " + r.what)
			case ErrUndecided:
				o.Undecide(r.Why)
			default:
				o.Undecide(fmt.Sprintf("internal error: %v", r))
				if os.Getenv("VERIF_DEBUG") != "" {
					panic(r)
				}
			}
		}
	}()
	f()
}

func (c *Ctx) Method(pkg, typ, name string) *ssa.Function {
	fn := c.W.Method(pkg, typ, name)
	if fn == nil {
		panic(anchorErr{fmt.Sprintf("method (%s.%s).%s", pkg, typ, name)})
	}
	return fn
}

func (c *Ctx) Func(pkg, name string) *ssa.Function {
	fn := c.W.Func(pkg, name)
	if fn == nil {
		panic(anchorErr{fmt.Sprintf("func %s.%s", pkg, name)})
	}
	return fn
}

// PO: path options for a query.
type PO struct {
	Depth      int
	Visits     int
	NoInline   []string // callee-name substrings that stay opaque
	OnlyInline []string // if set: only these are inlined
	Pure       []string // non-inlined module callees treated as pure
	Callbacks  bool
	WalkRounds int // symbolic invocations per collections Walk callback (0 = 1)
	Roles      map[string]string // parameter roles by type (see Opts.ParamRoles)
	Params     []string
	// OpaqueSorters: module functions that sort (call sort.* / slices.Sort* directly) stay
	// opaque and pure, whatever their name, package or signature: rules reason about
	// "the sorted result of F(x)" instead of looking inside the sort.
	OpaqueSorters bool
}

func (po PO) key() string {
	return fmt.Sprintf("%d|%d|%v|%v|%v|%v|%v|%v|%d", po.Depth, po.Visits, po.NoInline, po.OnlyInline, po.Pure, po.Callbacks, po.Params, po.OpaqueSorters, po.WalkRounds) + fmt.Sprint(po.Roles)
}

// the derivation functions C17 proves pure: never inlined, always pure.
var derivationFns = []string{"ophost/types.GenerateWithdrawalHash", "ophost/types.GenerateOutputRoot", "ophost/types.GenerateNodeHash",
	"ophost/types.GenerateRootHashFromProofs", "ophost/types.L2Denom", "ophost/types.BridgeAddress"}

func containsAny(s string, subs []string) bool {
	for _, x := range subs {
		if strings.Contains(s, x) {
			return true
		}
	}
	return false
}

func (c *Ctx) Paths(fn *ssa.Function, po PO) []*Path {
	if po.Depth == 0 {
		po.Depth = 6
		if c.Tier == "thorough" {
			po.Depth = 8
		}
	}
	if po.Visits == 0 {
		po.Visits = 2
	}
	po.Params = canonParamNames(fn, po.Params) // positional names follow the pinned parameter order
	k := fn.String() + "|" + po.key()
	if ps, ok := c.cache[k]; ok {
		if ps.err != nil {
			panic(ps.err)
		}
		return ps.paths
	}
	c.FuncsAnalysed[shortName(fn.String())] = true
	ps := &pathSet{}
	opts := Opts{MaxDepth: po.Depth, MaxVisits: po.Visits, Callbacks: po.Callbacks, WalkRounds: po.WalkRounds, ParamRoles: po.Roles, ParamNames: po.Params,
		Inline: func(f *ssa.Function) bool {
			n := funcName(f)
			if containsAny(n, derivationFns) {
				return false
			}
			if po.OpaqueSorters && f != fn && c.isSorter(f) {
				return false
			}
			if len(po.OnlyInline) > 0 {
				return containsAny(n, po.OnlyInline)
			}
			return !containsAny(n, po.NoInline)
		},
		PureFns: func(n string) bool {
			if containsAny(n, derivationFns) || containsAny(n, po.Pure) {
				return true
			}
			return po.OpaqueSorters && c.sorterNames()[n]
		},
		OnInline: func(f *ssa.Function) { c.FuncsAnalysed[shortName(f.String())] = true },
	}
	if c.Tier == "thorough" {
		opts.MaxPaths = 2000000
	}
	_, err := Enumerate(c.W, fn, opts, func(p *Path) bool {
		ps.paths = append(ps.paths, p)
		return true
	})
	ps.err = err
	c.cache[k] = ps
	c.PathsTotal += len(ps.paths)
	if err != nil {
		panic(err)
	}
	return ps.paths
}

// isSorter: f (closures included) calls sort.* / slices.Sort* directly.
func (c *Ctx) isSorter(f *ssa.Function) bool {
	var scan func(g *ssa.Function) bool
	scan = func(g *ssa.Function) bool {
		for _, b := range g.Blocks {
			for _, in := range b.Instrs {
				if ci, ok := in.(ssa.CallInstruction); ok {
					if n := staticName(ci.Common()); strings.HasPrefix(n, "sort.") || strings.HasPrefix(n, "slices.Sort") {
						return true
					}
				}
			}
		}
		for _, a := range g.AnonFuncs {
			if scan(a) {
				return true
			}
		}
		return false
	}
	return f.Parent() == nil && scan(f)
}

func (c *Ctx) sorterNames() map[string]bool {
	if c.sorters == nil {
		c.sorters = map[string]bool{}
		for _, f := range c.W.Funcs {
			if c.isSorter(f) {
				c.sorters[funcName(f)] = true
			}
		}
	}
	return c.sorters
}

// ---------------------------------------------------------------------------
// path helpers

// OK: the path returns normally with a nil error as its last result.
func (p *Path) OK() bool {
	if p.Panic || len(p.Ret) == 0 {
		return !p.Panic
	}
	last := p.Ret[len(p.Ret)-1]
	if last.IsNil() {
		return true
	}
	// an error value the path has established to be nil
	return p.factIs(len(p.Events), "("+last.String()+" == nil)", true)
}

// MayOK: the path may return a nil error: its last result is nil, established
// nil, or the unconstrained result of a call returned directly (tail call).
func (p *Path) MayOK() bool {
	if p.Panic {
		return false
	}
	if p.OK() {
		return true
	}
	if len(p.Ret) == 0 {
		return true
	}
	last := p.Ret[len(p.Ret)-1]
	if nonNil(last) {
		return false
	}
	if last.Op != "call" && last.Op != "extract" {
		return false
	}
	return !p.factIs(len(p.Events), "("+last.String()+" == nil)", false)
}

func (p *Path) Find(pred func(*Event) bool) []int {
	var out []int
	for i := range p.Events {
		if pred(&p.Events[i]) {
			out = append(out, i)
		}
	}
	return out
}

// HasFact: some fact before index upto satisfies pred.
func (p *Path) HasFact(upto int, pred func(atom *Term, pol bool) bool) bool {
	if upto > len(p.Events) {
		upto = len(p.Events)
	}
	for i := 0; i < upto; i++ {
		ev := &p.Events[i]
		if ev.Kind == EvFact && pred(ev.Cond, ev.Pol) {
			return true
		}
	}
	return false
}

func (p *Path) NFacts() int {
	n := 0
	for i := range p.Events {
		if p.Events[i].Kind == EvFact {
			n++
		}
	}
	return n
}

// isCall: a call event (opaque or inlined) whose callee name contains sub.
func isCall(ev *Event, sub string) bool {
	return (ev.Kind == EvCall || ev.Kind == EvEnter) && ev.Call != nil && strings.Contains(ev.Call.Name, sub)
}

// collOp decodes a collections access on a struct field: (field, method).
func collOp(ev *Event) (field, method string, ok bool) {
	if ev.Kind != EvCall || ev.Call == nil || !strings.HasPrefix(ev.Call.Name, "(collections.") && !strings.HasPrefix(ev.Call.Name, "(*collections.") {
		return "", "", false
	}
	i := strings.LastIndex(ev.Call.Name, ").")
	method = ev.Call.Name[i+2:]
	if len(ev.Call.Args) == 0 {
		return "", method, false
	}
	recv := ev.Call.Args[0]
	for recv.Op == "addr" || recv.Op == "deref" {
		recv = recv.Args[0]
	}
	if recv.Op != "field" {
		return "", method, false
	}
	return recv.Name, method, true
}

// errNil: fact "call result error == nil" for the call event at index i.
func errNilAtom(call *Term, idx int) string {
	if idx < 0 {
		return "(" + call.String() + " == nil)"
	}
	return fmt.Sprintf("(%s.%d == nil)", call.String(), idx)
}

// factIs: there is a fact with this exact atom string and polarity before upto.
func (p *Path) factIs(upto int, atom string, pol bool) bool {
	return p.HasFact(upto, func(a *Term, pl bool) bool { return pl == pol && a.String() == atom })
}

// Dump renders a path for violation reports.
func (c *Ctx) Dump(p *Path, upto int) []string {
	var out []string
	for i := range p.Events {
		if upto >= 0 && i > upto {
			break
		}
		ev := p.Events[i]
		if ev.Kind == EvCall && ev.Pure {
			continue
		}
		s := c.W.fmtEvent(ev)
		if len(s) > 300 {
			s = s[:300] + "…"
		}
		out = append(out, s)
	}
	if upto < 0 {
		for i, r := range p.Ret {
			out = append(out, fmt.Sprintf("RET[%d] %s", i, trunc(r.String(), 200)))
		}
	}
	return out
}

func trunc(s string, n int) string {
	if len(s) > n {
		return s[:n] + "…"
	}
	return s
}

func (c *Ctx) evPos(ev *Event) string {
	if ev.Pos.IsValid() {
		return c.W.Pos(ev.Pos)
	}
	if ev.Instr != nil && ev.Instr.Pos().IsValid() {
		return c.W.Pos(ev.Instr.Pos())
	}
	if ev.Fn != nil {
		return c.W.Pos(ev.Fn.Pos())
	}
	return "-"
}

// ---------------------------------------------------------------------------
// known findings (committed file, never written at run time)

type KnownFinding struct {
	Property string `json:"property"`
	Rule     string `json:"rule"`
	Key      string `json:"key"`
	What     string `json:"what"`
}

type KnownFile struct {
	Findings []KnownFinding `json:"findings"`
	Fixed    []string       `json:"fixed"`
}

func verifDir() string {
	if d := os.Getenv("VERIF_DIR"); d != "" {
		return d
	}
	exe, err := os.Executable()
	if err == nil {
		d := filepath.Dir(filepath.Dir(exe))
		if _, err := os.Stat(filepath.Join(d, "properties.jsonl")); err == nil {
			return d
		}
	}
	return "/verif"
}

func loadKnown() KnownFile {
	var kf KnownFile
	b, err := os.ReadFile(filepath.Join(verifDir(), "known_findings.json"))
	if err == nil {
		_ = json.Unmarshal(b, &kf)
	}
	return kf
}

// ---------------------------------------------------------------------------
// verdict + evidence

type Verdict struct {
	Violations []*Obl
	Undecided  []*Obl
	Known      []*Obl
}

// Verdict classifies the obligations (known findings applied); no output, no files.
func (c *Ctx) Verdict() (viol, und, kn []*Obl) {
	kf := loadKnown()
	known := map[string]bool{}
	for _, k := range kf.Findings {
		if k.Property == c.Prop {
			known[k.Rule+" :: "+k.Key] = true
		}
	}
	for _, o := range c.Obls {
		switch o.Status {
		case Violated:
			if known[strings.TrimSuffix(o.ID(), " [GOARCH=386]")] {
				kn = append(kn, o)
			} else {
				viol = append(viol, o)
			}
		case Undecided:
			und = append(und, o)
		}
	}
	return
}

// runProp evaluates a property on a world in-process (used for variants).
func runProp(w *World, prop, tier string, seed int64) *Ctx {
	c := NewCtx(w, prop, tier, seed)
	func() {
		defer func() {
			if r := recover(); r != nil {
				c.Ob(prop+".R0", "property-execution").Undecide(fmt.Sprintf("internal error: %v", r))
			}
		}()
		props[prop](c)
	}()
	return c
}

func (c *Ctx) Finish(wall time.Duration, replayFilter string) (exit int) {
	kf := loadKnown()
	known := map[string]KnownFinding{}
	for _, k := range kf.Findings {
		if k.Property == c.Prop {
			known[k.Rule+" :: "+k.Key] = k
		}
	}
	var v Verdict
	disch, nontrivial := 0, 0
	for _, o := range c.Obls {
		if replayFilter != "" && o.ID() != replayFilter {
			continue
		}
		switch o.Status {
		case Violated:
			if k, ok := known[o.ID()]; ok {
				o.Status = Known
				v.Known = append(v.Known, o)
				fmt.Printf("KNOWN-FINDING: property=%s %s [%s] %s\n", c.Prop, k.What, o.ID(), o.Where)
			} else {
				v.Violations = append(v.Violations, o)
			}
		case Undecided:
			v.Undecided = append(v.Undecided, o)
		case Discharged:
			disch++
		}
		if o.Paths > 0 && o.Facts > 0 || o.Sites > 0 {
			nontrivial++
		}
	}
	n := 0
	vdir := filepath.Join(verifDir(), "evidence", "violations")
	report := func(o *Obl, kind string) {
		n++
		if scratchMode {
			fmt.Printf("%s %s\n    at %s\n    %s\n", kind, o.ID(), o.Where, trunc(o.Detail, 400))
			return
		}
		_ = os.MkdirAll(vdir, 0o755)
		f := filepath.Join(vdir, fmt.Sprintf("%s-%d.json", c.Prop, n))
		b, _ := json.MarshalIndent(map[string]any{"property": c.Prop, "kind": kind, "rule": o.Rule, "key": o.Key, "id": o.ID(),
			"where": o.Where, "detail": o.Detail, "witness_path": o.Witness, "tier": c.Tier}, "", " ")
		_ = os.WriteFile(f, b, 0o644)
		fmt.Printf("%s %s\n    at %s\n    %s\n", kind, o.ID(), o.Where, o.Detail)
		for _, l := range o.Witness {
			fmt.Println("      | " + l)
		}
		fmt.Printf("VIOLATION property=%s replay=%s\n", c.Prop, f)
	}
	if replayFilter == "" && !scratchMode {
		// stale violation files of this property
		old, _ := filepath.Glob(filepath.Join(vdir, c.Prop+"-*.json"))
		for _, f := range old {
			_ = os.Remove(f)
		}
	}
	for _, o := range v.Violations {
		report(o, "VIOLATED")
	}
	for _, o := range v.Undecided {
		report(o, "UNDECIDED")
	}
	if replayFilter != "" {
		if n == 0 {
			fmt.Printf("replay: obligation %q holds on the current tree\n", replayFilter)
			return 0
		}
		return 1
	}
	if scratchMode {
		fmt.Printf("%s %s (scratch): %d obligations, %d discharged, %d violated, %d undecided\n", c.Prop, c.Tier, len(c.Obls), disch, len(v.Violations), len(v.Undecided))
		if n > 0 {
			return 1
		}
		return 0
	}
	// evidence
	var samples []any
	for _, o := range c.Obls {
		samples = append(samples, o)
	}
	funcs := sortedKeys(c.FuncsAnalysed)
	ev := map[string]any{
		"property_id": c.Prop,
		"tier":        c.Tier,
		"seed":        c.Seed,
		"level":       "other",
		"wall_s":      wall.Seconds(),
		"violations":  len(v.Violations) + len(v.Undecided),
		"assumptions": c.Assumptions,
		"coverage": merge(map[string]any{
			"explanation":         c.explanation(),
			"obligations":         len(c.Obls),
			"discharged":          disch,
			"known_findings":      len(v.Known),
			"evaluations":         len(c.Obls),
			"distinct_nontrivial": nontrivial,
			"rule":                "one obligation per (rule, construct); non-trivial = examined at least one path carrying at least one branch fact, or at least one resolved call/effect site",
			"samples":             samples,
			"functions_analysed":  funcs,
			"paths_enumerated":    c.PathsTotal,
			"packages_loaded":     len(c.W.Pkgs),
			"functions_in_scope":  len(c.W.Funcs),
			"goarch":              c.W.GOARCH,
			"checker_cmd":         "bin/opverify -prop " + c.Prop + " -tier " + c.Tier,
			"exhaustive":          false,
			"decided_clauses":     c.Clauses,
			"not_decided":         c.NotDecided,
		}, c.Extra),
	}
	b, _ := json.MarshalIndent(ev, "", " ")
	_ = os.MkdirAll(filepath.Join(verifDir(), "evidence"), 0o755)
	if err := os.WriteFile(filepath.Join(verifDir(), "evidence", c.Prop+".json"), b, 0o644); err != nil {
		fmt.Println("cannot write evidence:", err)
		return 1
	}
	fmt.Printf("%s %s: %d obligations, %d discharged, %d known findings, %d violated, %d undecided; %d functions, %d paths; %.1fs\n",
		c.Prop, c.Tier, len(c.Obls), disch, len(v.Known), len(v.Violations), len(v.Undecided), len(funcs), c.PathsTotal, wall.Seconds())
	if n > 0 {
		return 1
	}
	return 0
}

func merge(a, b map[string]any) map[string]any {
	for k, v := range b {
		a[k] = v
	}
	return a
}

func (c *Ctx) explanation() string {
	s := "Static analysis of /repo's type-checked source (go/packages + go/ssa, bounded path enumeration with symbolic terms; no OPinit code is executed). Decided clauses: " +
		strings.Join(c.Clauses, " | ")
	if len(c.NotDecided) > 0 {
		s += " || NOT decided (outside this technique): " + strings.Join(c.NotDecided, " | ")
	}
	return s
}

func sortObls(os []*Obl) {
	sort.Slice(os, func(i, j int) bool { return os[i].ID() < os[j].ID() })
}
