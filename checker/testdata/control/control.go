// Package control holds one instance of every pattern the zero-count rules of
// the checker look for.  The checker analyses this package on every run and
// reports itself broken if a scanner does not find its control (DESIGN 11.3).
package control

import (
	crand "crypto/rand"
	"fmt"
	"maps"
	"math/rand"
	"os"
	"reflect"
	"slices"
	"sort"
	"sync"
	"time"
	"unsafe"
)

var counter int

type store struct {
	m map[string]int
}

// map iteration whose order leaks into the result
func BadMapRange(m map[string]int) []string {
	var out []string
	for k := range m {
		out = append(out, k)
	}
	return out
}

// accepted idiom: fill, then sort with a total order
func GoodMapRange(m map[string]int) []string {
	out := make([]string, 0, len(m))
	for k := range m {
		out = append(out, k)
	}
	sort.Strings(out)
	return out
}

func Clock() int64 { return time.Now().UnixNano() }

func Random() int { return rand.Int() }

func CryptoRandom() byte {
	var b [1]byte
	_, _ = crand.Read(b[:])
	return b[0]
}

func Env() string { return os.Getenv("HOME") }

func Spawn(f func()) { go f() }

func GlobalStore() { counter++ }

func (s *store) Put(k string) { s.m[k] = 1 }

func Float(a, b float64) float64 { return a / b }

func Pointer(p *int) string { return fmt.Sprintf("%p", p) }

func Unsafe(p *int) uintptr { return uintptr(unsafe.Pointer(p)) }

func PartialOrderSort(xs [][]byte) {
	sort.Slice(xs, func(i, j int) bool { return len(xs[i]) < len(xs[j]) })
}

// a three-way comparator that orders by length only: partial order
func PartialOrderSortFunc(xs [][]byte) {
	slices.SortStableFunc(xs, func(a, b []byte) int { return len(a) - len(b) })
}

func Select(a, b chan int) int {
	select {
	case x := <-a:
		return x
	case y := <-b:
		return y
	}
}

// map handed to dependency code that enumerates it in iteration order
func BadMapEscape(m map[string]int) []string {
	return slices.Collect(maps.Keys(m))
}

// map boxed into an interface and handed to dependency code
func BadBoxedMap(m map[string]int) int {
	return reflect.ValueOf(m).Len()
}

// order-safe uses: size, sorted printing
func GoodMapUses(m map[string]int) string {
	return fmt.Sprint(len(m), m)
}

// process memory outside the store
type memo struct{ last string }

type keeperLike struct {
	cache sync.Map
	m     map[string]int
	memo  *memo
	hits  int
}

func (k *keeperLike) BadSyncCache(key, v string) { k.cache.Store(key, v) }

func (k keeperLike) BadMapDelete(key string) { delete(k.m, key) }

func (k keeperLike) BadPointerField(v string) { k.memo.last = v }

func (k *keeperLike) BadReceiverField() { k.hits++ }
