package main

import (
	"encoding/json"
	"fmt"
	"os"
	"sort"
	"strings"
)

// Global sensitivity audit (development / thorough exploration tool, never part
// of a verdict): every systematic AST mutant of every function that ANY
// property's rules analysed is re-type-checked through an overlay and judged by
// ALL properties.  A mutant that no property kills marks a construct that no
// rule is sensitive to: either behaviour preserving / outside the properties, or
// a gap to triage.  Sharded (-shard k/n) so that 16 processes can split the
// catalogue; each shard prints one JSON line per mutant.

type auditAllRow struct {
	File     string   `json:"file"`
	Line     int      `json:"line"`
	Fn       string   `json:"fn"`
	Desc     string   `json:"desc"`
	Outcome  string   `json:"outcome"` // killed | survived | does-not-compile
	KilledBy []string `json:"killed_by,omitempty"`
}

func runAuditAll(shard string, out string) int {
	k, n := 0, 1
	if shard != "" {
		if _, err := fmt.Sscanf(shard, "%d/%d", &k, &n); err != nil || n <= 0 || k < 0 || k >= n {
			fmt.Println("bad -shard, want k/n with 0 <= k < n")
			return 2
		}
	}
	base, err := getBase()
	if err != nil {
		fmt.Println("base load failed:", err)
		return 2
	}
	// union of analysed functions over all properties
	union := NewCtx(base, "ALL", "quick", 1)
	for _, p := range sortedKeys(props) {
		c := runProp(base, p, "quick", 1)
		for f := range c.FuncsAnalysed {
			union.FuncsAnalysed[f] = true
		}
	}
	all := union.auditMutants()
	var f *os.File = os.Stdout
	if out != "" {
		ff, err := os.Create(out)
		if err != nil {
			fmt.Println(err)
			return 2
		}
		defer ff.Close()
		f = ff
	}
	enc := json.NewEncoder(f)
	done := 0
	for i, m := range all {
		if i%n != k {
			continue
		}
		row := auditAllRow{File: m.File, Line: m.Line, Fn: m.Fn, Desc: m.Desc}
		path := repoDir() + "/" + m.File
		src, err := os.ReadFile(path)
		if err != nil || m.End > len(src) {
			row.Outcome = "does-not-compile"
			enc.Encode(row)
			continue
		}
		ov := map[string][]byte{path: []byte(string(src[:m.Start]) + m.Repl + string(src[m.End:]))}
		w, err := LoadVariant(base, ov)
		if err != nil {
			row.Outcome = "does-not-compile"
			enc.Encode(row)
			continue
		}
		for _, p := range sortedKeys(props) {
			c := runProp(w, p, "quick", 1)
			viol, und, _ := c.Verdict()
			if len(viol)+len(und) > 0 {
				rules := map[string]bool{}
				for _, o := range viol {
					rules[o.Rule] = true
				}
				for _, o := range und {
					rules[o.Rule] = true
				}
				row.KilledBy = append(row.KilledBy, keysOf(rules)...)
			}
		}
		sort.Strings(row.KilledBy)
		row.Outcome = "survived"
		if len(row.KilledBy) > 0 {
			row.Outcome = "killed"
		}
		releaseWorld(w)
		enc.Encode(row)
		done++
	}
	fmt.Fprintf(os.Stderr, "audit-all shard %d/%d: %d of %d mutants judged\n", k, n, done, len(all))
	return 0
}

var _ = strings.TrimSpace
