package main

import (
	"fmt"
)

// digestParamRule (C03.R3 / C17): every parameter of the digest functions
// reaches the hashed value (ignoring a parameter is caught here).
func digestParamRule(c *Ctx, rule string) {
	type df struct {
		name   string
		params []string
	}
	for _, d := range []df{
		{"GenerateWithdrawalHash", []string{"bridgeId", "l2Sequence", "sender", "receiver", "denom", "amount"}},
		{"GenerateOutputRoot", []string{"version", "storageRoot", "latestBlockHash"}},
		{"GenerateNodeHash", []string{"a", "b"}},
		{"GenerateRootHashFromProofs", []string{"data", "proofs"}},
	} {
		fn := c.Func(hostTypes, d.name)
		if len(fn.Params) != len(d.params) {
			c.Ob(rule, d.name+": arity").Fail(c.W.Pos(fn.Pos()), fmt.Sprintf("arity %d, table has %d", len(fn.Params), len(d.params)), nil)
			continue
		}
		paths := c.Paths(fn, PO{Params: d.params, Visits: 10})
		for _, pn := range d.params {
			o := c.Ob(rule, d.name+": parameter "+pn+" reaches the digest on every returning path")
			for _, p := range paths {
				if p.Panic {
					continue
				}
				o.Paths++
				o.Sites++
				o.Facts += p.NFacts()
				if len(p.Ret) != 1 {
					o.Fail(c.W.Pos(fn.Pos()), "unexpected result arity", nil)
					continue
				}
				r := p.Ret[0]
				if d.name == "GenerateRootHashFromProofs" && pn == "proofs" {
					// zero iterations legitimately return data unchanged
					if p.HasFact(len(p.Events), func(a *Term, pol bool) bool {
						return !pol && a.Op == "bin" && a.Name == "<" && a.Args[1].Key() == "builtin.len(proofs)" && a.Args[0].Key() == "0"
					}) {
						continue
					}
				}
				if !r.Mentions(pn) {
					o.Fail(c.W.Pos(fn.Pos()), "result "+trunc(r.Key(), 200)+" does not depend on parameter "+pn, c.Dump(p, -1))
				}
			}
			if o.Paths == 0 {
				o.Fail(c.W.Pos(fn.Pos()), "no returning path", nil)
			}
		}
	}
}
