package main

// Value-level normal forms: library calls that compute the same value for every input are
// given one term, so that rules compare values, not spellings.  Only equivalences that hold
// for the full value range are listed (no conversion that can truncate or wrap).

import (
	"go/token"
	"go/types"
	"strconv"
	"strings"
)

func unIface(t *Term) *Term {
	for t != nil && t.Op == "iface" && len(t.Args) == 1 {
		t = t.Args[0]
	}
	return t
}

func basicKind(T types.Type) (types.BasicKind, bool) {
	if T == nil {
		return 0, false
	}
	b, ok := T.Underlying().(*types.Basic)
	if !ok {
		return 0, false
	}
	return b.Kind(), true
}

func isByteSeq(T types.Type) bool {
	if T == nil {
		return false
	}
	switch u := T.Underlying().(type) {
	case *types.Slice:
		k, ok := basicKind(u.Elem())
		return ok && k == types.Uint8
	case *types.Array:
		k, ok := basicKind(u.Elem())
		return ok && k == types.Uint8
	}
	return false
}

var stringT = types.Typ[types.String]

// fmtValue: the string fmt prints for a under verb v (or under Sprint when v == 0), as a
// canonical term; nil when the rendering is not one of the tabled exact equivalences.
func fmtValue(a *Term, v byte) *Term {
	a = unIface(a)
	k, isBasic := basicKind(a.Typ)
	named := false
	if a.Typ != nil {
		_, named = a.Typ.(*types.Named) // a named type may carry String()/Format(): not tabled
	}
	switch {
	case (v == 'd' || v == 'v' || v == 0) && isBasic && !named && k == types.Uint64:
		return &Term{Op: "call", Name: "strconv.FormatUint", Args: []*Term{a, intTermT(10, types.Typ[types.Int])}, Typ: stringT}
	case (v == 'd' || v == 'v' || v == 0) && isBasic && !named && k == types.Int64:
		return &Term{Op: "call", Name: "strconv.FormatInt", Args: []*Term{a, intTermT(10, types.Typ[types.Int])}, Typ: stringT}
	case (v == 'd' || v == 'v' || v == 0) && isBasic && !named && k == types.Int:
		return &Term{Op: "call", Name: "strconv.Itoa", Args: []*Term{a}, Typ: stringT}
	case (v == 't' || v == 'v' || v == 0) && isBasic && !named && k == types.Bool:
		if a.IsConst() {
			return &Term{Op: "const", Name: strconv.Quote(a.Name), Typ: stringT}
		}
		return &Term{Op: "call", Name: "strconv.FormatBool", Args: []*Term{a}, Typ: stringT}
	case (v == 's' || v == 'v' || v == 0) && isBasic && !named && k == types.String:
		return a
	case v == 'x' && isByteSeq(a.Typ) && !named:
		return &Term{Op: "call", Name: "encoding/hex.EncodeToString", Args: []*Term{a}, Typ: stringT}
	}
	return nil
}

func intTermT(i int64, T types.Type) *Term {
	return &Term{Op: "const", Name: strconv.FormatInt(i, 10), Typ: T}
}

func concat(parts []*Term) *Term {
	var out *Term
	for _, p := range parts {
		if p.IsConst() && p.Name == `""` {
			continue
		}
		if out == nil {
			out = p
			continue
		}
		if out.IsConst() && p.IsConst() && strings.HasPrefix(out.Name, `"`) && strings.HasPrefix(p.Name, `"`) {
			a, _ := strconv.Unquote(out.Name)
			b, _ := strconv.Unquote(p.Name)
			out = &Term{Op: "const", Name: strconv.Quote(a + b), Typ: stringT}
			continue
		}
		out = binop(token.ADD, out, p, stringT)
	}
	if out == nil {
		return &Term{Op: "const", Name: `""`, Typ: stringT}
	}
	return out
}

func normCall(name string, args []*Term, resT types.Type) *Term {
	switch name {
	case "fmt.Sprintf":
		if len(args) != 2 || !args[0].IsConst() {
			return nil
		}
		format, err := strconv.Unquote(args[0].Name)
		if err != nil {
			return nil
		}
		vals, ok := listOf(args[1])
		if !ok {
			return nil
		}
		var parts []*Term
		lit := ""
		ai := 0
		for i := 0; i < len(format); i++ {
			if format[i] != '%' {
				lit += string(format[i])
				continue
			}
			i++
			if i >= len(format) {
				return nil
			}
			if format[i] == '%' {
				lit += "%"
				continue
			}
			if ai >= len(vals) {
				return nil
			}
			v := fmtValue(vals[ai], format[i])
			ai++
			if v == nil {
				return nil
			}
			parts = append(parts, &Term{Op: "const", Name: strconv.Quote(lit), Typ: stringT}, v)
			lit = ""
		}
		if ai != len(vals) || len(parts) == 0 {
			return nil // no verb at all, or surplus arguments (%!(EXTRA ...)): leave the call alone
		}
		parts = append(parts, &Term{Op: "const", Name: strconv.Quote(lit), Typ: stringT})
		return concat(parts)
	case "fmt.Sprint":
		if len(args) != 1 {
			return nil
		}
		vals, ok := listOf(args[0])
		if !ok || len(vals) != 1 {
			return nil
		}
		return fmtValue(vals[0], 0)
	case "(sdkmath.Int).IsPositive", "(sdkmath.Int).IsZero", "(sdkmath.Int).IsNegative":
		// coin.Amount.IsX() is coin.IsX() (sdk.Coin delegates to its amount)
		if len(args) == 1 {
			a := strip(args[0])
			if a.Op == "field" && a.Name == "Amount" && len(a.Args) == 1 && a.Args[0].Typ != nil && typeName(a.Args[0].Typ) == "sdk.Coin" {
				return &Term{Op: "call", Name: "(sdk.Coin)." + methodOf(name), Args: []*Term{a.Args[0]}, Typ: resT}
			}
		}
	case "(sdk.Coin).GetDenom":
		if len(args) == 1 {
			return project(args[0], "Denom", stringT)
		}
	case "(sdk.Coin).GetAmount":
		if len(args) == 1 {
			return project(args[0], "Amount", resT)
		}
	}
	return nil
}
