package main

// Immutable package-level tables.  A global that is written only by its package initialiser,
// from a composite literal of constants, functions and closures (an ordered table of checks),
// has a known value: the literal.  constGlobal reconstructs that value as a term from the SSA
// of the init function; anything it does not recognise yields nil and the global stays opaque.

import (
	"go/token"
	"go/types"
	"strconv"
	"sync"

	"golang.org/x/tools/go/ssa"
)

var constGlobalCache sync.Map // *ssa.Global -> *Term (nil when not reconstructible)

func (w *World) constGlobal(g *ssa.Global) *Term {
	if v, ok := constGlobalCache.Load(g); ok {
		t, _ := v.(*Term)
		return t
	}
	t := w.constGlobalUncached(g)
	constGlobalCache.Store(g, t)
	return t
}

func (w *World) constGlobalUncached(g *ssa.Global) *Term {
	if g.Pkg == nil {
		return nil
	}
	initFn := g.Pkg.Func("init")
	if initFn == nil {
		return nil
	}
	// the only store: in init; no other function takes the global's address for writing
	var val ssa.Value
	n := 0
	for _, f := range w.AllFuncs {
		for _, b := range f.Blocks {
			for _, in := range b.Instrs {
				for _, op := range in.Operands(nil) {
					if *op != ssa.Value(g) {
						continue
					}
					switch x := in.(type) {
					case *ssa.UnOp: // a load
					case *ssa.Store:
						if x.Addr == ssa.Value(g) && f == initFn {
							val = x.Val
							n++
						} else {
							return nil
						}
					default:
						return nil // address escapes (IndexAddr on an array global, call argument ...)
					}
				}
			}
		}
	}
	// init itself is not in AllFuncs when synthetic: scan it explicitly
	if n == 0 {
		for _, b := range initFn.Blocks {
			for _, in := range b.Instrs {
				if st, ok := in.(*ssa.Store); ok && st.Addr == ssa.Value(g) {
					val = st.Val
					n++
				}
			}
		}
	}
	if n != 1 || val == nil {
		return nil
	}
	return literalTerm(val, 0)
}

// literalTerm: the value of a composite literal built in an init function.
func literalTerm(v ssa.Value, depth int) *Term {
	if depth > 6 {
		return nil
	}
	switch x := v.(type) {
	case *ssa.Const:
		if x.Value == nil {
			return &Term{Op: "const", Name: "nil", Typ: x.Type()}
		}
		return &Term{Op: "const", Name: x.Value.ExactString(), Typ: x.Type()}
	case *ssa.Function:
		return &Term{Op: "fn", Name: shortName(x.String()), Fn: x, Typ: x.Type()}
	case *ssa.MakeClosure:
		if len(x.Bindings) != 0 {
			return nil
		}
		fn, _ := x.Fn.(*ssa.Function)
		if fn == nil {
			return nil
		}
		return &Term{Op: "closure", Name: funcName(fn), Fn: fn, Typ: x.Type()}
	case *ssa.ChangeType:
		return literalTerm(x.X, depth+1)
	case *ssa.Slice:
		if x.Low != nil || x.High != nil || x.Max != nil {
			return nil
		}
		al, ok := x.X.(*ssa.Alloc)
		if !ok {
			return nil
		}
		arr, ok := deref(al.Type()).Underlying().(*types.Array)
		if !ok {
			return nil
		}
		elems := make([]*Term, arr.Len())
		for _, r := range *al.Referrers() {
			ia, ok := r.(*ssa.IndexAddr)
			if !ok {
				if _, isSlice := r.(*ssa.Slice); isSlice {
					continue
				}
				return nil
			}
			k, ok := ia.Index.(*ssa.Const)
			if !ok || k.Value == nil {
				return nil
			}
			i, err := strconv.Atoi(k.Value.ExactString())
			if err != nil || i < 0 || i >= len(elems) {
				return nil
			}
			el := cellTerm(ia, arr.Elem(), depth+1)
			if el == nil {
				return nil
			}
			elems[i] = el
		}
		for i := range elems {
			if elems[i] == nil {
				elems[i] = zeroOf(arr.Elem())
			}
		}
		return &Term{Op: "list", Args: elems, Typ: x.Type()}
	case *ssa.UnOp:
		if x.Op == token.MUL {
			if al, ok := x.X.(*ssa.Alloc); ok {
				return cellTerm(al, deref(al.Type()), depth+1)
			}
		}
	}
	return nil
}

// cellTerm: the value stored into the cell at addr (a direct store, or field-wise stores of a struct).
func cellTerm(addr ssa.Value, T types.Type, depth int) *Term {
	refs := addr.Referrers()
	if refs == nil {
		return nil
	}
	var direct *Term
	var st *types.Struct
	if s, ok := T.Underlying().(*types.Struct); ok {
		st = s
	}
	var cur *Term
	if st != nil {
		cur = &Term{Op: "zero", Typ: T}
	}
	for _, r := range *refs {
		switch u := r.(type) {
		case *ssa.Store:
			if u.Addr != addr {
				return nil
			}
			direct = literalTerm(u.Val, depth+1)
			if direct == nil {
				return nil
			}
		case *ssa.FieldAddr:
			if st == nil {
				return nil
			}
			f := st.Field(u.Field)
			fv := cellTerm(u, f.Type(), depth+1)
			if fv == nil {
				return nil
			}
			cur = update(cur, f.Name(), fv)
		case *ssa.UnOp, *ssa.DebugRef:
		default:
			return nil
		}
	}
	if direct != nil {
		return direct
	}
	return cur
}
