package main

import (
	"fmt"
	"go/types"
	"os"
	"path/filepath"
	"reflect"
	"regexp"
	"sort"
	"strings"

	"golang.org/x/tools/go/ssa"
)

// canonical parameter names of a MsgServer handler: receiver, ctx, request
var hParams = []string{"ms", "ctx", "req"}

const (
	hostKeeper  = "ophost/keeper"
	childKeeper = "opchild/keeper"
	hostTypes   = "ophost/types"
	childTypes  = "opchild/types"
)

// Handlers resolves the MsgServer methods through the generated gRPC interface
// (the method set IS the handler list).
func (c *Ctx) Handlers(module string) map[string]*ssa.Function {
	out := map[string]*ssa.Function{}
	names := c.W.InterfaceMethods(module+"/types", "MsgServer")
	if len(names) == 0 {
		panic(anchorErr{module + "/types.MsgServer interface"})
	}
	for _, n := range names {
		fn := c.W.Method(module+"/keeper", "MsgServer", n)
		if fn == nil {
			panic(anchorErr{fmt.Sprintf("handler (%s/keeper.MsgServer).%s", module, n)})
		}
		out[n] = fn
	}
	return out
}

func (c *Ctx) Queriers(module string) map[string]*ssa.Function {
	out := map[string]*ssa.Function{}
	for _, n := range c.W.InterfaceMethods(module+"/types", "QueryServer") {
		if fn := c.W.Method(module+"/keeper", "Querier", n); fn != nil {
			out[n] = fn
		}
	}
	return out
}

// ---------------------------------------------------------------------------
// E4 on path events

var ifaceReads = map[string]bool{
	// account / bank / oracle / perm / channel keeper read methods
	"AddressCodec": true, "GetAccount": true, "HasAccount": true, "GetModuleAddress": true, "GetModuleAccount": true,
	"IsModuleAccount": true, "GetBalance": true, "GetAllBalances": true, "SpendableCoins": true, "GetSupply": true,
	"HasDenomMetaData": true, "GetDenomMetaData": true, "BlockedAddr": true, "HasBalance": true,
	"GetAllCurrencyPairs": true, "GetPriceForCurrencyPair": true, "GetCurrencyPairFromID": true, "GetIDForCurrencyPair": true,
	"GetNumCurrencyPairs": true, "GetNumRemovedCurrencyPairs": true, "GetCurrencyPairMapping": true, "GetCurrencyPairMappingList": true,
	"IsTaken": true, "HasAdminPermission": true, "GetNextSequenceSend": true,
	"MinGasPrices": true, "FeeWhitelist": true,
	"GetPubKeyByConsAddr": true, "GetPowerByConsAddr": true, "TotalBondedTokens": true, "ValidatorByConsAddr": true,
	"NewAccountWithAddress": true, "NewAccount": true, // allocate an account object / number; persisted only by SetAccount
}

func isKeeperIface(name string) bool {
	// "(pkg.Iface).Method" of a keeper-like interface defined in this module
	if !strings.HasPrefix(name, "(ophost/") && !strings.HasPrefix(name, "(opchild/") {
		return false
	}
	i := strings.Index(name, ").")
	if i < 0 {
		return false
	}
	recv := name[1:i]
	if strings.Contains(recv, "/keeper.") {
		return false // the concrete Keeper structs, not the expected-keeper interfaces
	}
	return strings.HasSuffix(recv, "Keeper") || strings.HasSuffix(recv, "Hook") || strings.HasSuffix(recv, "Store")
}

// effectKind classifies a path event as a persistent-state effect (E4).
func effectKind(ev *Event) string {
	switch ev.Kind {
	case EvMapUpdate:
		if scratchMap(ev.Place) {
			return ""
		}
		return "mapset"
	case EvMapDelete:
		if scratchMap(ev.Place) {
			return ""
		}
		return "mapdel"
	case EvGlobalStore:
		return "globalstore"
	case EvGo:
		return "go"
	case EvCall:
		if ev.Pure || ev.Call == nil {
			return ""
		}
		n := ev.Call.Name
		if f, m, ok := collOp(ev); ok {
			if !collReads[m] {
				return "coll:" + f + "." + m
			}
			return ""
		} else if strings.HasPrefix(n, "(collections.") || strings.HasPrefix(n, "(*collections.") {
			if !collReads[m] {
				return "coll:?." + m
			}
			return ""
		}
		if n == "dynamic" {
			return "dyn:" + strip(ev.Fun).Key()
		}
		if strings.HasSuffix(n, "EventManager).EmitEvent") || strings.HasSuffix(n, "EventManager).EmitEvents") ||
			strings.HasSuffix(n, "EventManagerI).EmitEvent") || strings.HasSuffix(n, "EventManagerI).EmitEvents") {
			return "event"
		}
		if isKeeperIface(n) {
			if ifaceReads[methodOf(n)] {
				return ""
			}
			return "keeper:" + n
		}
		if strings.HasSuffix(n, "GasMeter).ConsumeGas") {
			return "gas"
		}
	}
	return ""
}

// ---------------------------------------------------------------------------
// proto signer options (A6)

var reMsgHead = regexp.MustCompile(`\bmessage\s+(\w+)\s*\{`)

// protoMessages returns top-level message bodies by brace matching.
func protoMessages(src string) [][2]string {
	var out [][2]string
	for _, loc := range reMsgHead.FindAllStringSubmatchIndex(src, -1) {
		name := src[loc[2]:loc[3]]
		depth, i := 1, loc[1]
		for ; i < len(src) && depth > 0; i++ {
			switch src[i] {
			case '{':
				depth++
			case '}':
				depth--
			}
		}
		out = append(out, [2]string{name, src[loc[1]:i]})
	}
	return out
}

var reSigner = regexp.MustCompile(`option\s*\(cosmos\.msg\.v1\.signer\)\s*=\s*"(\w+)"`)

// ProtoSigners: message name -> Go field name of the declared signer.
func (c *Ctx) ProtoSigners(module string) map[string]string {
	path := filepath.Join(c.W.RepoDir, "proto", "opinit", module, "v1", "tx.proto")
	b, err := os.ReadFile(path)
	if err != nil {
		panic(anchorErr{"proto file " + path})
	}
	out := map[string]string{}
	pkg := c.W.ByPath[modPath+"/x/"+module+"/types"]
	if pkg == nil {
		panic(anchorErr{module + "/types package"})
	}
	for _, m := range protoMessages(string(b)) {
		name, body := m[0], m[1]
		sm := reSigner.FindStringSubmatch(body)
		if sm == nil {
			continue
		}
		obj := pkg.Types.Scope().Lookup(name)
		if obj == nil {
			panic(anchorErr{"Go type for proto message " + name})
		}
		st, ok := obj.Type().Underlying().(*types.Struct)
		if !ok {
			continue
		}
		for i := 0; i < st.NumFields(); i++ {
			tag := reflect.StructTag(st.Tag(i)).Get("protobuf")
			for _, part := range strings.Split(tag, ",") {
				if part == "name="+sm[1] {
					out[name] = st.Field(i).Name()
				}
			}
		}
		if out[name] == "" {
			panic(anchorErr{fmt.Sprintf("Go field for signer %q of %s", sm[1], name)})
		}
	}
	return out
}

// reqMsgName: the proto message name of a handler's request parameter.
func reqMsgName(fn *ssa.Function) string {
	if len(fn.Params) < 3 {
		return ""
	}
	t := deref(fn.Params[2].Type())
	if n, ok := t.(*types.Named); ok {
		return n.Obj().Name()
	}
	return ""
}

func setOf(xs ...string) map[string]bool {
	m := map[string]bool{}
	for _, x := range xs {
		m[x] = true
	}
	return m
}

func keysOf(m map[string]bool) []string {
	var out []string
	for k, v := range m {
		if v {
			out = append(out, k)
		}
	}
	sort.Strings(out)
	return out
}

func sameSet(a, b map[string]bool) bool {
	return strings.Join(keysOf(a), ",") == strings.Join(keysOf(b), ",")
}

// eqAtom: atom is (a == b) with {a,b} keys = {x,y} in some order.
func eqAtom(atom *Term, x, y string) bool {
	if atom.Op != "bin" || atom.Name != "==" {
		return false
	}
	a, b := strip(atom.Args[0]).Key(), strip(atom.Args[1]).Key()
	return (a == x && b == y) || (a == y && b == x)
}

// eqOther: if atom is (a == b) and one side has key x, return the other side.
func eqOther(atom *Term, x string) *Term {
	if atom.Op != "bin" || atom.Name != "==" {
		return nil
	}
	if strip(atom.Args[0]).Key() == x {
		return atom.Args[1]
	}
	if strip(atom.Args[1]).Key() == x {
		return atom.Args[0]
	}
	return nil
}

// callAtom: atom is a pure boolean call whose name has the suffix; returns args.
func callAtom(atom *Term, suffix string) []*Term {
	if atom.Op == "call" && strings.HasSuffix(atom.Name, suffix) {
		return atom.Args
	}
	return nil
}

// nonZeroOn: the path establishes key != 0 before upto - as a disequality, or through an order
// fact that excludes equality (x > 0, !(x < 1), 1 <= x ... for unsigned x).
func (p *Path) nonZeroOn(upto int, key string) bool {
	if p.HasFact(upto, func(a *Term, pol bool) bool { return !pol && eqAtom(a, key, "0") }) {
		return true
	}
	if rel, n := p.Relation(upto, keyIs(key), keyIs("0")); n > 0 && rel&rEQ == 0 {
		return true
	}
	// order facts against another constant (x >= 1, !(x < 1), 2 <= x ...): linear forms
	for i := 0; i < upto && i < len(p.Events); i++ {
		ev := &p.Events[i]
		if ev.Kind != EvFact || ev.Cond == nil || ev.Cond.Op != "bin" || len(ev.Cond.Args) != 2 {
			continue
		}
		for _, side := range ev.Cond.Args {
			if strip(side).Key() != key {
				continue
			}
			if rel, n := p.RelationLin(upto, side, &Term{Op: "const", Name: "0", Typ: side.Typ}); n > 0 && rel&rEQ == 0 {
				return true
			}
		}
	}
	return false
}

// zeroOn: the path establishes key == 0 before upto - as an equality, or, for an unsigned
// value, through an order fact that excludes "> 0" (x < 1, !(x >= 1), x <= 0).
func (p *Path) zeroOn(upto int, key string) bool {
	if rel, n := p.Relation(upto, keyIs(key), keyIs("0")); n > 0 && rel == rEQ {
		return true
	}
	for i := 0; i < upto && i < len(p.Events); i++ {
		ev := &p.Events[i]
		if ev.Kind != EvFact || ev.Cond == nil || ev.Cond.Op != "bin" || len(ev.Cond.Args) != 2 {
			continue
		}
		for _, side := range ev.Cond.Args {
			if strip(side).Key() != key || !isUnsigned(side.Typ) {
				continue
			}
			if rel, n := p.RelationLin(upto, side, &Term{Op: "const", Name: "0", Typ: side.Typ}); n > 0 && rel&rGT == 0 {
				return true
			}
		}
	}
	return false
}

// scratchMap: a Go map made by the function that uses it and used by probes, writes, deletes
// and len only (never stored, passed, ranged over or returned) - not state.
func scratchMap(m *Term) bool {
	if m == nil || m.Op != "make" || m.Name != "map" {
		return false
	}
	mk, ok := m.Site.(*ssa.MakeMap)
	return ok && localOnlyMap(mk)
}
