package main

import (
	"fmt"
	"go/token"
	"go/types"
	"sort"
	"strconv"
	"strings"

	"golang.org/x/tools/go/ssa"
)

// ---------------------------------------------------------------------------
// E2: bounded path enumeration with eager term evaluation, cell environment,
// syntactic-contradiction pruning and E7 inlining of module callees.

type EvKind int

const (
	EvFact  EvKind = iota
	EvCall         // non-inlined call (external, interface invoke, dynamic)
	EvEnter        // inlined module call begins
	EvExit         // inlined module call returns (Res)
	EvStore        // store through a non-local pointer / field of a non-alloc root
	EvMapUpdate
	EvMapDelete
	EvDefer
	EvGo
	EvPanic
	EvCbBegin // callback closure passed to an opaque callee: one symbolic invocation
	EvCbEnd
	EvGlobalStore
	EvReturn // return of an inlined callee or of the callback
)

func (k EvKind) String() string {
	return [...]string{"fact", "call", "enter", "exit", "store", "mapupdate", "mapdelete", "defer", "go", "panic", "cb-begin", "cb-end", "globalstore", "return"}[k]
}

type Event struct {
	Kind  EvKind
	Cond  *Term
	Pol   bool
	Call  *Term // call term: Name, Args, ID
	Fun   *Term // dynamic callee value (Kind==EvCall, Call.Name=="dynamic")
	Res   *Term
	Place *Term
	Val   *Term
	Instr ssa.Instruction
	Fn    *ssa.Function
	Depth int
	Pure  bool
	Pos   token.Pos
	// ArgVals: for arguments that point to a local cell (&T{...}), the value of
	// the cell when the call was made (nil entries otherwise).
	ArgVals []*Term
}

// condPos: go/ssa gives If no position; use the condition's (or the nearest
// preceding instruction's) position for diagnostics.
func condPos(b *ssa.BasicBlock, in *ssa.If) token.Pos {
	if p := in.Cond.Pos(); p.IsValid() {
		return p
	}
	for i := len(b.Instrs) - 1; i >= 0; i-- {
		if p := b.Instrs[i].Pos(); p.IsValid() {
			return p
		}
	}
	return token.NoPos
}

type Path struct {
	Events []Event
	Ret    []*Term
	// RetVal: for results that point to a local cell (&T{...}), the struct value at return time.
	RetVal []*Term
	Panic  bool
}

type Opts struct {
	MaxVisits int // entries of one block per frame activation
	MaxDepth  int
	MaxPaths  int
	// Inline decides whether a module callee with a body is expanded (E7).
	Inline    func(callee *ssa.Function) bool
	// ParamRoles: canonical names for parameters by type (typeName -> role).  A parameter whose
	// type has a role gets that name wherever it stands in the signature; a parameter of a
	// module-local struct type is a literal of role-named components (a parameter object).
	ParamRoles map[string]string
	Callbacks  bool
	// WalkRounds: number of symbolic invocations of a collections Walk callback (default 1);
	// the element of round r > 0 is cbargN(call, r), like position r of a cursor
	WalkRounds int
	// ParamNames gives canonical names to the entry function's parameters by
	// position (receiver first) so that rules do not depend on local naming.
	ParamNames []string
	// PureFns: module functions that are not inlined and are treated as pure
	// (C17.R4 verifies their purity).
	PureFns func(name string) bool
	// OnInline is told about every module callee that gets expanded.
	OnInline func(fn *ssa.Function)
}

type ErrUndecided struct{ Why string }

func (e ErrUndecided) Error() string { return "UNDECIDED: " + e.Why }

type deferred struct {
	instr *ssa.Defer
	fun   *Term
	args  []*Term
}

type frame struct {
	fn     *ssa.Function
	env    map[ssa.Value]*Term
	visits map[*ssa.BasicBlock]int
	defers []deferred
	ret    func([]*Term)
	depth  int
	free   []*Term
	// key: the chain of call-site instructions that leads to this activation.
	// Activations reached through the same chain (a call inside a loop body) share
	// one visit budget, so that extracting a loop body into a helper - or inlining
	// it back - does not change which paths are enumerated (A10 counts block
	// entries per path, not per activation).
	key string
}

type ival struct {
	lo, hi       int64
	hasLo, hasHi bool
	ne           []int64
}

type engine struct {
	w          *World
	o          Opts
	events     []Event
	trail      []func()
	mem        map[string]*Term
	facts      map[string]bool
	bounds     map[string]ival
	nextID     int
	siteVisits map[string]map[*ssa.BasicBlock]int
	symVisits  map[string]map[*ssa.BasicBlock]int // symbolic tests taken, per call-site chain (like siteVisits)
	loops      map[*ssa.BasicBlock][]*ssa.BasicBlock
	globals    map[string]*ssa.Global
	stack      []*frame
	npaths     int
	nprune     int
	abort      error
	visit      func(*Path) bool
	stop       bool
	curPos     token.Pos
}

type emark struct{ trail, events, nextID int }

func (e *engine) mark() emark { return emark{len(e.trail), len(e.events), e.nextID} }
func (e *engine) undo(m emark) {
	for i := len(e.trail) - 1; i >= m.trail; i-- {
		e.trail[i]()
	}
	e.trail = e.trail[:m.trail]
	e.events = e.events[:m.events]
	e.nextID = m.nextID
}

// frameVisits: the visit counters shared by all activations with the same call-site chain.
func (e *engine) frameVisits(parent *frame, site ssa.Instruction, k int) (string, map[*ssa.BasicBlock]int) {
	key := fmt.Sprintf("%s/%p#%d", parent.key, site, k)
	if e.siteVisits == nil {
		e.siteVisits = map[string]map[*ssa.BasicBlock]int{}
	}
	m, ok := e.siteVisits[key]
	if !ok {
		m = map[*ssa.BasicBlock]int{}
		e.siteVisits[key] = m
	}
	return key, m
}

func (e *engine) newID() int { e.nextID++; return e.nextID }

func (e *engine) setEnv(fr *frame, v ssa.Value, t *Term) {
	old, had := fr.env[v]
	fr.env[v] = t
	e.trail = append(e.trail, func() {
		if had {
			fr.env[v] = old
		} else {
			delete(fr.env, v)
		}
	})
}

func (e *engine) setMem(key string, t *Term) {
	old, had := e.mem[key]
	e.mem[key] = t
	e.trail = append(e.trail, func() {
		if had {
			e.mem[key] = old
		} else {
			delete(e.mem, key)
		}
	})
}

func (e *engine) emit(ev Event) { e.events = append(e.events, ev) }

// Enumerate runs fn symbolically and calls visit for every complete bounded path.
func Enumerate(w *World, fn *ssa.Function, o Opts, visit func(*Path) bool) (npaths int, err error) {
	if o.MaxVisits == 0 {
		o.MaxVisits = 2
	}
	if o.MaxDepth == 0 {
		o.MaxDepth = 3
	}
	if o.MaxPaths == 0 {
		o.MaxPaths = 200000
	}
	e := &engine{w: w, o: o, mem: map[string]*Term{}, facts: map[string]bool{}, bounds: map[string]ival{}, visit: visit}
	if fn == nil || fn.Blocks == nil {
		return 0, ErrUndecided{"function has no body"}
	}
	defer func() {
		if r := recover(); r != nil {
			if u, ok := r.(ErrUndecided); ok {
				err = u
				return
			}
			panic(r)
		}
	}()
	fr := &frame{fn: fn, env: map[ssa.Value]*Term{}, visits: map[*ssa.BasicBlock]int{}}
	for i, p := range fn.Params {
		name := p.Name()
		if i < len(o.ParamNames) && o.ParamNames[i] != "" {
			name = o.ParamNames[i]
		}
		fr.env[p] = &Term{Op: "param", Name: name, Typ: p.Type()}
		isRecv := i == 0 && fn.Signature.Recv() != nil
		if o.ParamRoles == nil || isRecv {
			continue
		}
		if role, ok := o.ParamRoles[typeName(p.Type())]; ok {
			fr.env[p] = &Term{Op: "param", Name: role, Typ: p.Type()}
			continue
		}
		if st, ok := localStruct(p.Type()); ok {
			var lit *Term = &Term{Op: "zero", Typ: p.Type()}
			for k := 0; k < st.NumFields(); k++ {
				f := st.Field(k)
				var ft *Term
				if role, ok := o.ParamRoles[typeName(f.Type())]; ok {
					ft = &Term{Op: "param", Name: role, Typ: f.Type()}
				} else {
					ft = &Term{Op: "field", Name: f.Name(), Args: []*Term{{Op: "param", Name: name, Typ: p.Type()}}, Typ: f.Type()}
				}
				lit = update(lit, f.Name(), ft)
			}
			fr.env[p] = lit
		}
	}
	for _, fv := range fn.FreeVars {
		fr.env[fv] = &Term{Op: "free", Name: fv.Name(), Typ: fv.Type()}
	}
	fr.ret = func(res []*Term) {
		// a single result of an unexported module struct type is a tuple with named components
		if len(res) == 1 && res[0] != nil && fn.Signature.Results().Len() == 1 {
			if st, ok := carrierStruct(fn.Signature.Results().At(0).Type()); ok {
				var flat []*Term
				for k := 0; k < st.NumFields(); k++ {
					flat = append(flat, project(res[0], st.Field(k).Name(), st.Field(k).Type()))
				}
				res = flat
			}
		}
		p := &Path{Ret: res}
		for _, r := range res {
			if r.Op == "addr" {
				p.RetVal = append(p.RetVal, e.load(r.Args[0], nil))
			} else {
				p.RetVal = append(p.RetVal, r)
			}
		}
		// a non-constant boolean result (`return err == nil`, `return a && b`) stands for
		// two behaviours as well: split on it, so that it enumerates like
		// `if cond { return true }; return false`.
		for i, r := range res {
			if r == nil || r.Typ == nil || r.IsConst() {
				continue
			}
			if b, ok := r.Typ.Underlying().(*types.Basic); !ok || b.Kind() != types.Bool {
				continue
			}
			if i < fn.Signature.Results().Len() {
				if rb, ok := fn.Signature.Results().At(i).Type().Underlying().(*types.Basic); !ok || rb.Kind() != types.Bool {
					continue
				}
			}
			for _, pol := range []bool{true, false} {
				m := e.mark()
				if e.assume(r, pol, nil, fr) {
					res2 := append([]*Term(nil), res...)
					res2[i] = boolTerm(pol)
					fr.ret(res2)
				}
				e.undo(m)
			}
			return
		}
		// a tail-returned error (`return k.X.Set(..)`, `return resp, f(x)`) stands for two
		// behaviours: split the path into the callee-succeeded and the callee-failed case,
		// so that `return f(x)` and `if err := f(x); err != nil { return err }; return nil`
		// enumerate the same paths.
		if n := len(res); n > 0 && fn.Signature.Results().Len() == n && types.TypeString(fn.Signature.Results().At(n-1).Type(), nil) == "error" {
			last := res[n-1]
			if (last.Op == "call" || last.Op == "extract") && !nonNil(last) {
				cond := binop(token.EQL, last, &Term{Op: "const", Name: "nil", Typ: last.Typ}, types.Typ[types.Bool])
				if _, known := e.facts[cond.String()]; !known && !cond.IsConst() {
					for _, pol := range []bool{true, false} {
						m := e.mark()
						if e.assume(cond, pol, nil, fr) {
							e.finish(&Path{Ret: p.Ret, RetVal: p.RetVal})
						}
						e.undo(m)
					}
					return
				}
			}
		}
		e.finish(p)
	}
	e.stack = []*frame{fr}
	e.runBlock(fr, fn.Blocks[0], nil)
	if e.abort != nil {
		return e.npaths, e.abort
	}
	return e.npaths, nil
}

func (e *engine) finish(p *Path) {
	if e.stop {
		return
	}
	e.npaths++
	if e.npaths > e.o.MaxPaths {
		panic(ErrUndecided{fmt.Sprintf("more than %d paths", e.o.MaxPaths)})
	}
	p.Events = append([]Event(nil), e.events...)
	if !e.visit(p) {
		e.stop = true
	}
}

// hardVisitCap: extra visits a block may get when its test is decided by constants.
const hardVisitCap = 24

func (e *engine) runBlock(fr *frame, b *ssa.BasicBlock, pred *ssa.BasicBlock) {
	if e.stop {
		return
	}
	// loop bound (A10).  The bound limits how often a SYMBOLIC loop test may be taken on one
	// path; a block whose branch condition folds to a constant (a loop over a list of known
	// length, e.g. an ordered table of checks) does not fork and is unrolled in full, up to a
	// hard cap.  The visit is charged at the block's If (runFrom) when it has one.
	if _, endsInIf := b.Instrs[len(b.Instrs)-1].(*ssa.If); endsInIf {
		if fr.visits[b] >= e.o.MaxVisits+hardVisitCap {
			e.nprune++
			return
		}
	} else if fr.visits[b] >= e.o.MaxVisits {
		e.nprune++
		return // this path prefix is cut
	}
	fr.visits[b]++
	e.trail = append(e.trail, func() { fr.visits[b]-- })
	// simultaneous phi evaluation
	i := 0
	if pred != nil {
		var idx = -1
		for k, p := range b.Preds {
			if p == pred {
				idx = k
				break
			}
		}
		var vals []*Term
		var phis []*ssa.Phi
		for ; i < len(b.Instrs); i++ {
			ph, ok := b.Instrs[i].(*ssa.Phi)
			if !ok {
				break
			}
			phis = append(phis, ph)
			vals = append(vals, e.val(fr, ph.Edges[idx]))
		}
		for k, ph := range phis {
			e.setEnv(fr, ph, vals[k])
		}
	}
	e.runFrom(fr, b, i)
}

func (e *engine) runFrom(fr *frame, b *ssa.BasicBlock, i int) {
	for ; i < len(b.Instrs); i++ {
		if e.stop {
			return
		}
		switch in := b.Instrs[i].(type) {
		case *ssa.DebugRef:
		case *ssa.If:
			c := e.val(fr, in.Cond)
			if c.IsConst() {
				// the test of a constant-trip loop (range over a list of known length): each of
				// its iterations gives the symbolic tests inside the loop a fresh budget - the
				// iteration count is bounded by the constants, not by the data
				if sv := e.symVisits[fr.key]; sv != nil {
					for _, x := range e.loopOf(b) {
						if n := sv[x]; n > 0 {
							sv[x] = 0
							xx, nn := x, n
							e.trail = append(e.trail, func() { sv[xx] = nn })
						}
					}
				}
			}
			if !c.IsConst() {
				// a symbolic test: charge it against the loop bound
				if e.symVisits == nil {
					e.symVisits = map[string]map[*ssa.BasicBlock]int{}
				}
				sv := e.symVisits[fr.key]
				if sv == nil {
					sv = map[*ssa.BasicBlock]int{}
					e.symVisits[fr.key] = sv
				}
				if sv[b] >= e.o.MaxVisits {
					e.nprune++
					return
				}
				sv[b]++
				bb := b
				e.trail = append(e.trail, func() { sv[bb]-- })
			}
			m := e.mark()
			cp := condPos(b, in)
			e.curPos = cp
			if e.assume(c, true, in, fr) {
				e.runBlock(fr, b.Succs[0], b)
			}
			e.undo(m)
			e.curPos = cp
			if e.assume(c, false, in, fr) {
				e.runBlock(fr, b.Succs[1], b)
			}
			e.undo(m)
			return
		case *ssa.Jump:
			e.runBlock(fr, b.Succs[0], b)
			return
		case *ssa.Return:
			var res []*Term
			for _, r := range in.Results {
				res = append(res, e.filled(e.val(fr, r)))
			}
			fr.ret(res)
			return
		case *ssa.Panic:
			e.emit(Event{Kind: EvPanic, Val: e.val(fr, in.X), Instr: in, Fn: fr.fn, Depth: fr.depth})
			e.finish(&Path{Panic: true})
			return
		case *ssa.RunDefers:
			ii := i
			e.runDefers(fr, len(fr.defers)-1, func() { e.runFrom(fr, b, ii+1) })
			return
		case *ssa.Defer:
			d := deferred{instr: in}
			c := in.Common()
			if c.IsInvoke() {
				d.fun = nil
				d.args = append(d.args, e.val(fr, c.Value))
			} else {
				d.fun = e.val(fr, c.Value)
			}
			for _, a := range c.Args {
				d.args = append(d.args, e.val(fr, a))
			}
			fr.defers = append(fr.defers, d)
			e.trail = append(e.trail, func() { fr.defers = fr.defers[:len(fr.defers)-1] })
			e.emit(Event{Kind: EvDefer, Fun: d.fun, Call: &Term{Op: "call", Name: e.calleeName(c), Args: d.args}, Instr: in, Fn: fr.fn, Depth: fr.depth})
		case *ssa.Go:
			c := in.Common()
			var args []*Term
			for _, a := range c.Args {
				args = append(args, e.val(fr, a))
			}
			e.emit(Event{Kind: EvGo, Call: &Term{Op: "call", Name: e.calleeName(c), Args: args}, Instr: in, Fn: fr.fn, Depth: fr.depth})
		case *ssa.Call:
			ii := i
			inn := in
			e.doCall(fr, in, in.Common(), nil, nil, false, func(res *Term) {
				e.setEnv(fr, inn, res)
				e.runFrom(fr, b, ii+1)
			})
			return
		case *ssa.Lookup:
			ii, inn := i, in
			if e.lookupLocal(fr, in, func(res *Term) {
				e.setEnv(fr, inn, res)
				e.runFrom(fr, b, ii+1)
			}) {
				return
			}
			e.setEnv(fr, in, e.eval(fr, in))
		case *ssa.Store:
			e.store(fr, in, e.val(fr, in.Addr), e.val(fr, in.Val))
		case *ssa.MapUpdate:
			e.emit(Event{Kind: EvMapUpdate, Place: e.val(fr, in.Map), Cond: e.val(fr, in.Key), Val: e.val(fr, in.Value), Instr: in, Fn: fr.fn, Depth: fr.depth})
		case *ssa.Send, *ssa.Select:
			panic(ErrUndecided{"channel operation in " + fr.fn.String()})
		case ssa.Value:
			e.setEnv(fr, in, e.eval(fr, in))
		default:
			panic(ErrUndecided{fmt.Sprintf("unhandled instruction %T in %s", in, fr.fn)})
		}
	}
}

func (e *engine) runDefers(fr *frame, k int, cont func()) {
	if k < 0 {
		cont()
		return
	}
	d := fr.defers[k]
	e.doCall(fr, d.instr, d.instr.Common(), d.fun, d.args, true, func(*Term) {
		e.runDefers(fr, k-1, cont)
	})
}

// ---------------------------------------------------------------------------
// values

func (e *engine) val(fr *frame, v ssa.Value) *Term {
	switch v := v.(type) {
	case *ssa.Const:
		return constTerm(v)
	case *ssa.Global:
		if e.globals == nil {
			e.globals = map[string]*ssa.Global{}
		}
		e.globals[shortName(v.String())] = v
		return &Term{Op: "addr", Args: []*Term{{Op: "global", Name: shortName(v.String()), Typ: deref(v.Type())}}, Typ: v.Type()}
	case *ssa.Function:
		return &Term{Op: "fn", Name: shortName(v.String()), Fn: v, Typ: v.Type()}
	case *ssa.Builtin:
		return &Term{Op: "fn", Name: "builtin." + v.Name()}
	case *ssa.FreeVar:
		if t, ok := fr.env[v]; ok {
			return t
		}
		for i, fv := range fr.fn.FreeVars {
			if fv == v && i < len(fr.free) {
				return fr.free[i]
			}
		}
		return &Term{Op: "free", Name: v.Name(), Typ: v.Type()}
	}
	if t, ok := fr.env[v]; ok {
		return t
	}
	panic(ErrUndecided{fmt.Sprintf("value %s (%T) used before definition on this path in %s", v.Name(), v, fr.fn)})
}

func deref(t types.Type) types.Type {
	if p, ok := t.Underlying().(*types.Pointer); ok {
		return p.Elem()
	}
	return t
}

// place: canonical place for an address-valued term.
func placeOf(addr *Term) *Term {
	if addr.Op == "addr" {
		return addr.Args[0]
	}
	// pointer value (param, loaded pointer, call result...)
	return &Term{Op: "deref", Args: []*Term{addr}, Typ: nil}
}

// rootOf splits a place into its root and projection path (outermost last).
func rootOf(pl *Term) (root *Term, path []*Term) {
	for pl.Op == "field" || pl.Op == "index" {
		path = append(path, pl)
		pl = pl.Args[0]
	}
	return pl, path
}

func rootKey(root *Term) string {
	switch root.Op {
	case "alloc":
		return "alloc#" + strconv.Itoa(root.ID)
	case "global":
		return "global:" + root.Name
	case "deref":
		return "deref:" + root.Args[0].String()
	}
	return "other:" + root.String()
}

func (e *engine) load(pl *Term, T types.Type) *Term {
	root, path := rootOf(pl)
	cur, ok := e.mem[rootKey(root)]
	if !ok {
		cur = root
		// a package-level table that only its initialiser writes (an ordered list of rules /
		// steps with their closures): its elements are what the composite literal says
		if root.Op == "global" {
			if g := e.globals[root.Name]; g != nil {
				if t := e.w.constGlobal(g); t != nil {
					cur = t
				}
			}
		}
	}
	for i := len(path) - 1; i >= 0; i-- {
		p := path[i]
		if p.Op == "field" {
			cur = project(cur, p.Name, p.Typ)
		} else {
			cur = projectIdx(cur, p.Args[1], p.Typ)
		}
	}
	return cur
}

func (e *engine) writePlace(pl *Term, v *Term) {
	root, path := rootOf(pl)
	key := rootKey(root)
	cur, ok := e.mem[key]
	if !ok {
		cur = root
	}
	e.setMem(key, writeInto(cur, path, v))
}

func writeInto(cur *Term, path []*Term, v *Term) *Term {
	if len(path) == 0 {
		return v
	}
	p := path[len(path)-1]
	rest := path[:len(path)-1]
	if p.Op == "field" {
		inner := project(cur, p.Name, p.Typ)
		return update(cur, p.Name, writeInto(inner, rest, v))
	}
	inner := projectIdx(cur, p.Args[1], p.Typ)
	return updateIdx(cur, p.Args[1], writeInto(inner, rest, v))
}

func (e *engine) store(fr *frame, in ssa.Instruction, addr, v *Term) {
	pl := placeOf(addr)
	root, _ := rootOf(pl)
	e.writePlace(pl, v)
	switch root.Op {
	case "alloc":
		// local cell: no event
	case "global":
		e.emit(Event{Kind: EvGlobalStore, Place: pl, Val: v, Instr: in, Fn: fr.fn, Depth: fr.depth})
	default:
		e.emit(Event{Kind: EvStore, Place: pl, Val: v, Instr: in, Fn: fr.fn, Depth: fr.depth})
	}
}

func (e *engine) eval(fr *frame, in ssa.Value) *Term {
	switch in := in.(type) {
	case *ssa.Alloc:
		name := in.Comment
		if name == "" {
			name = "new"
		}
		a := &Term{Op: "alloc", Name: name, ID: e.newID(), Typ: deref(in.Type()), Site: in}
		e.setMem(rootKey(a), zeroOf(deref(in.Type())))
		return &Term{Op: "addr", Args: []*Term{a}, Typ: in.Type()}
	case *ssa.FieldAddr:
		x := e.val(fr, in.X)
		st := deref(in.X.Type()).Underlying().(*types.Struct)
		f := st.Field(in.Field)
		return &Term{Op: "addr", Args: []*Term{{Op: "field", Name: f.Name(), Args: []*Term{placeOf(x)}, Typ: f.Type()}}, Typ: in.Type()}
	case *ssa.Field:
		x := e.val(fr, in.X)
		st := in.X.Type().Underlying().(*types.Struct)
		f := st.Field(in.Field)
		return project(x, f.Name(), f.Type())
	case *ssa.IndexAddr:
		x := e.val(fr, in.X)
		idx := e.val(fr, in.Index)
		var base *Term
		if x.Op == "addr" {
			base = x.Args[0] // pointer to array
		} else if x.Op == "slice" && x.Plc != nil {
			base = x.Plc
			if x.Off != nil {
				idx = binop(token.ADD, x.Off, idx, types.Typ[types.Int])
			}
		} else {
			base = &Term{Op: "deref", Args: []*Term{x}}
		}
		return &Term{Op: "addr", Args: []*Term{{Op: "index", Args: []*Term{base, idx}, Typ: deref(in.Type())}}, Typ: in.Type()}
	case *ssa.Index:
		return projectIdx(e.val(fr, in.X), e.val(fr, in.Index), in.Type())
	case *ssa.UnOp:
		x := e.val(fr, in.X)
		switch in.Op {
		case token.MUL:
			return e.load(placeOf(x), in.Type())
		case token.NOT:
			if x.IsConst() {
				return boolTerm(!x.IsTrue())
			}
			if x.Op == "un" && x.Name == "!" {
				return x.Args[0]
			}
			return &Term{Op: "un", Name: "!", Args: []*Term{x}, Typ: in.Type()}
		case token.SUB:
			if v, ok := x.Int(); ok {
				return &Term{Op: "const", Name: strconv.FormatInt(-v, 10), Typ: in.Type()}
			}
		case token.ARROW:
			panic(ErrUndecided{"channel receive in " + fr.fn.String()})
		}
		return &Term{Op: "un", Name: in.Op.String(), Args: []*Term{x}, Typ: in.Type()}
	case *ssa.BinOp:
		return binop(in.Op, e.val(fr, in.X), e.val(fr, in.Y), in.Type())
	case *ssa.Extract:
		t := e.val(fr, in.Tuple)
		if t.Op == "tuple" && in.Index < len(t.Args) {
			return t.Args[in.Index]
		}
		return &Term{Op: "extract", Name: strconv.Itoa(in.Index), Args: []*Term{t}, Typ: in.Type()}
	case *ssa.MakeInterface:
		x := e.val(fr, in.X)
		if _, isStruct := in.X.Type().Underlying().(*types.Struct); isStruct && types.TypeString(in.Type(), nil) == "error" {
			return &Term{Op: "iface", Args: []*Term{x}, Typ: in.Type()}
		}
		return x
	case *ssa.ChangeInterface:
		return e.val(fr, in.X)
	case *ssa.ChangeType:
		return e.val(fr, in.X)
	case *ssa.Convert:
		x := e.val(fr, in.X)
		if x.IsConst() {
			if _, ok := x.Int(); ok {
				if b, ok := in.Type().Underlying().(*types.Basic); ok && b.Info()&types.IsInteger != 0 {
					return &Term{Op: "const", Name: x.Name, Typ: in.Type()}
				}
			}
		}
		return &Term{Op: "convert", Name: typeName(in.Type()), Args: []*Term{x}, Typ: in.Type()}
	case *ssa.MultiConvert:
		return &Term{Op: "convert", Name: typeName(in.Type()), Args: []*Term{e.val(fr, in.X)}, Typ: in.Type()}
	case *ssa.SliceToArrayPointer:
		return &Term{Op: "convert", Name: typeName(in.Type()), Args: []*Term{e.val(fr, in.X)}, Typ: in.Type()}
	case *ssa.MakeClosure:
		fn := in.Fn.(*ssa.Function)
		var bs []*Term
		for _, b := range in.Bindings {
			bs = append(bs, e.val(fr, b))
		}
		return &Term{Op: "closure", Name: shortName(fn.String()), Fn: fn, Args: bs, Typ: in.Type()}
	case *ssa.MakeSlice:
		return &Term{Op: "make", Name: "slice", Args: []*Term{e.val(fr, in.Len), e.val(fr, in.Cap)}, ID: e.newID(), Typ: in.Type(), Site: in}
	case *ssa.MakeMap:
		return &Term{Op: "make", Name: "map", ID: e.newID(), Typ: in.Type(), Site: in}
	case *ssa.MakeChan:
		return &Term{Op: "make", Name: "chan", ID: e.newID(), Typ: in.Type(), Site: in}
	case *ssa.Lookup:
		t := &Term{Op: "lookup", Args: []*Term{e.val(fr, in.X), e.val(fr, in.Index)}, ID: e.newID(), Typ: in.Type(), Site: in}
		return t
	case *ssa.TypeAssert:
		x := e.val(fr, in.X)
		return &Term{Op: "typeassert", Name: typeName(in.AssertedType), Args: []*Term{x}, Typ: in.Type()}
	case *ssa.Range:
		return &Term{Op: "range", Args: []*Term{e.val(fr, in.X)}, ID: e.newID(), Typ: in.Type(), Site: in}
	case *ssa.Next:
		return &Term{Op: "next", Args: []*Term{e.val(fr, in.Iter)}, ID: e.newID(), Typ: in.Type(), Site: in}
	case *ssa.Slice:
		x := e.val(fr, in.X)
		var lo, hi, mx *Term
		if in.Low != nil {
			lo = e.val(fr, in.Low)
			if lo.IsConst() && lo.Name == "0" {
				lo = nil
			}
		}
		if in.High != nil {
			hi = e.val(fr, in.High)
		}
		if in.Max != nil {
			mx = e.val(fr, in.Max)
		}
		if x.Op == "addr" { // slicing an array through its address
			pl := x.Args[0]
			return &Term{Op: "slice", Args: []*Term{e.load(pl, nil), lo, hi, mx}, Plc: pl, Off: lo, Typ: in.Type()}
		}
		if x.Op == "slice" && x.Plc != nil { // re-slicing keeps the aliasing information
			off := x.Off
			if lo != nil {
				if off == nil {
					off = lo
				} else {
					off = binop(token.ADD, off, lo, types.Typ[types.Int])
				}
			}
			return &Term{Op: "slice", Args: []*Term{x, lo, hi, mx}, Plc: x.Plc, Off: off, Typ: in.Type()}
		}
		return &Term{Op: "slice", Args: []*Term{x, lo, hi, mx}, Typ: in.Type()}
	case *ssa.Phi:
		// phi in entry position without predecessor (cannot happen) or evaluated in runBlock
		panic(ErrUndecided{"phi outside block entry in " + fr.fn.String()})
	}
	panic(ErrUndecided{fmt.Sprintf("unhandled value %T in %s", in, fr.fn)})
}

func typeName(t types.Type) string {
	return shortName(types.TypeString(t, nil))
}

func binop(op token.Token, x, y *Term, T types.Type) *Term {
	// cmp.Compare(a, b) OP c with c in {-1, 0, 1} is an order relation between a and b
	switch op {
	case token.EQL, token.NEQ, token.LSS, token.GTR, token.LEQ, token.GEQ:
		for side := 0; side < 2; side++ {
			cm, k := x, y
			if side == 1 {
				cm, k = y, x
			}
			c, isC := k.Int()
			if cm.Op != "call" || cm.Name != "cmp.Compare" || len(cm.Args) != 2 || !isC || c < -1 || c > 1 {
				continue
			}
			// which outcomes v of Compare(a,b) satisfy (v OP c) resp. (c OP v)
			lt, eq, gt := false, false, false
			for _, v := range []int64{-1, 0, 1} {
				l, r := v, c
				if side == 1 {
					l, r = c, v
				}
				var holds bool
				switch op {
				case token.EQL:
					holds = l == r
				case token.NEQ:
					holds = l != r
				case token.LSS:
					holds = l < r
				case token.GTR:
					holds = l > r
				case token.LEQ:
					holds = l <= r
				case token.GEQ:
					holds = l >= r
				}
				if holds {
					switch v {
					case -1:
						lt = true
					case 0:
						eq = true
					case 1:
						gt = true
					}
				}
			}
			a, b := cm.Args[0], cm.Args[1]
			not := func(t *Term) *Term {
				if t.IsConst() {
					return boolTerm(!t.IsTrue())
				}
				return &Term{Op: "un", Name: "!", Args: []*Term{t}, Typ: T}
			}
			switch {
			case lt && eq && gt:
				return boolTerm(true)
			case !lt && !eq && !gt:
				return boolTerm(false)
			case lt && !eq && !gt:
				return binop(token.LSS, a, b, T)
			case !lt && eq && !gt:
				return binop(token.EQL, a, b, T)
			case !lt && !eq && gt:
				return binop(token.LSS, b, a, T)
			case lt && eq && !gt:
				return not(binop(token.LSS, b, a, T))
			case !lt && eq && gt:
				return not(binop(token.LSS, a, b, T))
			default: // lt && gt
				return not(binop(token.EQL, a, b, T))
			}
		}
	}
	// a string with literal text in it (fmt.Sprintf with a literal prefix, "lit" + x) is not ""
	if op == token.EQL || op == token.NEQ {
		for k := 0; k < 2; k++ {
			a, b := x, y
			if k == 1 {
				a, b = y, x
			}
			if b.IsConst() && b.Name == `""` && nonEmptyString(a) {
				return boolTerm(op == token.NEQ)
			}
		}
	}
	// string(a) == string(b) over byte slices is bytes.Equal(a, b)
	if (op == token.EQL || op == token.NEQ) && isBytesAsString(x) && isBytesAsString(y) {
		eq := &Term{Op: "call", Name: "bytes.Equal", Args: []*Term{x.Args[0], y.Args[0]}, Typ: T}
		if op == token.EQL {
			return eq
		}
		return &Term{Op: "un", Name: "!", Args: []*Term{eq}, Typ: T}
	}
	xs, ys := x.String(), y.String()
	switch op {
	case token.EQL, token.NEQ:
		if (x.IsNil() && nonNil(y)) || (y.IsNil() && nonNil(x)) {
			return boolTerm(op == token.NEQ)
		}
		if x.IsConst() && y.IsConst() {
			return boolTerm((x.Name == y.Name) == (op == token.EQL))
		}
		if xs == ys {
			return boolTerm(op == token.EQL)
		}
	case token.LSS, token.GTR, token.LEQ, token.GEQ:
		if a, ok := x.Int(); ok {
			if b, ok := y.Int(); ok {
				var r bool
				switch op {
				case token.LSS:
					r = a < b
				case token.GTR:
					r = a > b
				case token.LEQ:
					r = a <= b
				case token.GEQ:
					r = a >= b
				}
				return boolTerm(r)
			}
		}
		if xs == ys {
			return boolTerm(op == token.LEQ || op == token.GEQ)
		}
	case token.MUL:
		if a, ok := x.Int(); ok {
			if b, ok := y.Int(); ok && isIntType(T) {
				return &Term{Op: "const", Name: strconv.FormatInt(a*b, 10), Typ: T}
			}
		}
	case token.SHR:
		// x >> 0 is x
		if b, ok := y.Int(); ok && b == 0 {
			return x
		}
	case token.ADD, token.SUB:
		if a, ok := x.Int(); ok {
			if b, ok := y.Int(); ok && isIntType(T) {
				if op == token.SUB {
					b = -b
				}
				return &Term{Op: "const", Name: strconv.FormatInt(a+b, 10), Typ: T}
			}
		}
		// (z + c1) + c2
		if b, ok := y.Int(); ok && x.Op == "bin" && (x.Name == "+") && isIntType(T) {
			if c1, ok := x.Args[1].Int(); ok {
				if op == token.SUB {
					b = -b
				}
				return &Term{Op: "bin", Name: "+", Args: []*Term{x.Args[0], {Op: "const", Name: strconv.FormatInt(c1+b, 10), Typ: T}}, Typ: T}
			}
		}
	}
	return &Term{Op: "bin", Name: op.String(), Args: []*Term{x, y}, Typ: T}
}

// nonNil: values that are never nil by construction (documented assumption:
// package-level error sentinels are registered, non-nil values).
func nonNil(t *Term) bool {
	switch t.Op {
	case "global":
		return t.Typ != nil && (strings.HasSuffix(t.Typ.String(), "errors.Error") || types.TypeString(t.Typ, nil) == "error")
	case "addr", "closure", "fn", "iface":
		return true
	case "call":
		switch {
		case strings.HasPrefix(t.Name, "(*errorsmod.Error).Wrap"):
			return true
		case t.Name == "errorsmod.Wrap" || t.Name == "errorsmod.Wrapf":
			return len(t.Args) > 0 && nonNil(t.Args[0])
		case t.Name == "fmt.Errorf" || t.Name == "errors.New":
			return true
		case strings.HasSuffix(t.Name, "status.Error") || strings.HasSuffix(t.Name, "status.Errorf"):
			// grpc status errors: non-nil for every code but OK (never used with OK here)
			return len(t.Args) > 0 && !strings.HasSuffix(t.Args[0].Key(), "codes.OK") && t.Args[0].Key() != "0"
		case strings.HasSuffix(t.Name, "status.Status).Err") && len(t.Args) == 1:
			// status.New(code, msg).Err(): non-nil for every code but OK
			s := t.Args[0]
			return s.Op == "call" && strings.HasSuffix(s.Name, "status.New") && len(s.Args) > 0 && !strings.HasSuffix(s.Args[0].Key(), "codes.OK") && s.Args[0].Key() != "0"
		}
	}
	return false
}

func isIntType(T types.Type) bool {
	if T == nil {
		return false
	}
	b, ok := T.Underlying().(*types.Basic)
	return ok && b.Info()&types.IsInteger != 0
}

func isUnsigned(T types.Type) bool {
	if T == nil {
		return false
	}
	b, ok := T.Underlying().(*types.Basic)
	return ok && b.Info()&types.IsUnsigned != 0
}

// ---------------------------------------------------------------------------
// facts (E5 normal form) and syntactic feasibility

// normCond reduces a boolean term to (atom, polarity) where atom is either an
// arbitrary boolean term or bin "=="/"<" with canonical operand order.
func normCond(c *Term, pol bool) (*Term, bool) {
	for {
		if c.Op == "un" && c.Name == "!" {
			c, pol = c.Args[0], !pol
			continue
		}
		if c.Op == "bin" {
			a, b := c.Args[0], c.Args[1]
			switch c.Name {
			case "!=":
				c, pol = &Term{Op: "bin", Name: "==", Args: []*Term{a, b}, Typ: c.Typ}, !pol
				continue
			case ">":
				c = &Term{Op: "bin", Name: "<", Args: []*Term{b, a}, Typ: c.Typ}
				continue
			case ">=":
				c, pol = &Term{Op: "bin", Name: "<", Args: []*Term{a, b}, Typ: c.Typ}, !pol
				continue
			case "<=":
				c, pol = &Term{Op: "bin", Name: "<", Args: []*Term{b, a}, Typ: c.Typ}, !pol
				continue
			case "==":
				// x == true / x == false
				if b.IsTrue() {
					c = a
					continue
				}
				if b.IsFalse() {
					c, pol = a, !pol
					continue
				}
				if a.IsTrue() {
					c = b
					continue
				}
				if a.IsFalse() {
					c, pol = b, !pol
					continue
				}
				// canonical order: constant last, otherwise lexicographic
				if a.IsConst() && !b.IsConst() || (!a.IsConst() && !b.IsConst() && a.String() > b.String()) {
					c = &Term{Op: "bin", Name: "==", Args: []*Term{b, a}, Typ: c.Typ}
				}
			}
			// emptiness of a string: len(s) == 0, len(s) < 1, !(0 < len(s)) are all s == ""
			if s, p2, ok := stringEmptiness(c); ok {
				c = &Term{Op: "bin", Name: "==", Args: []*Term{s, {Op: "const", Name: `""`, Typ: s.Typ}}, Typ: c.Typ}
				if !p2 {
					pol = !pol
				}
			}
		}
		return c, pol
	}
}

// stringEmptiness: c is `len(s) == 0` / `len(s) < 1` (positive=true: s is empty) or
// `0 < len(s)` (positive=false) for a string-typed s.
func stringEmptiness(c *Term) (s *Term, positive, ok bool) {
	if c.Op != "bin" || len(c.Args) != 2 {
		return nil, false, false
	}
	lenOfString := func(t *Term) *Term {
		if t.Op == "call" && t.Name == "builtin.len" && len(t.Args) == 1 && t.Args[0].Typ != nil {
			if b, isB := t.Args[0].Typ.Underlying().(*types.Basic); isB && b.Info()&types.IsString != 0 {
				return t.Args[0]
			}
		}
		return nil
	}
	a, b := c.Args[0], c.Args[1]
	switch c.Name {
	case "==":
		if x := lenOfString(a); x != nil && b.IsConst() && b.Name == "0" {
			return x, true, true
		}
	case "<":
		if x := lenOfString(a); x != nil && b.IsConst() && b.Name == "1" {
			return x, true, true
		}
		if x := lenOfString(b); x != nil && a.IsConst() && a.Name == "0" {
			return x, false, true
		}
	}
	return nil, false, false
}

func (e *engine) assume(c *Term, pol bool, in ssa.Instruction, fr *frame) bool {
	atom, p := normCond(c, pol)
	if atom.IsConst() {
		return atom.IsTrue() == p
	}
	key := atom.String()
	if v, ok := e.facts[key]; ok {
		if v != p {
			return false // same atom, both polarities
		}
		return true // already known; no new event
	}
	if !e.narrow(atom, p) {
		return false
	}
	e.facts[key] = p
	e.trail = append(e.trail, func() { delete(e.facts, key) })
	e.emit(Event{Kind: EvFact, Cond: atom, Pol: p, Instr: in, Fn: fr.fn, Depth: fr.depth, Pos: e.curPos})
	return true
}

// narrow maintains an integer interval for terms compared with constants, and for
// linear combinations of terms compared with each other (x < y, k < n-x, ...), so
// that arithmetic contradictions prune a path just like syntactic ones.
func (e *engine) narrow(atom *Term, pol bool) bool {
	if atom.Op != "bin" || (atom.Name != "==" && atom.Name != "<") {
		return true
	}
	a, b := atom.Args[0], atom.Args[1]
	var t *Term
	var c int64
	var constLeft bool
	if v, ok := b.Int(); ok && !a.IsConst() {
		t, c = a, v
	} else if v, ok := a.Int(); ok && !b.IsConst() {
		t, c, constLeft = b, v, true
	} else {
		return e.narrowLin(atom, pol)
	}
	key := t.String()
	var init ival
	if isUnsigned(t.Typ) || (t.Op == "call" && t.Name == "builtin.len") {
		init.lo, init.hasLo = 0, true
	}
	if t.Op == "call" && t.Name == "bytes.Compare" { // documented range {-1,0,1}
		init.lo, init.hasLo, init.hi, init.hasHi = -1, true, 1, true
	}
	kind := ""
	switch {
	case atom.Name == "==" && pol:
		kind = "eq"
	case atom.Name == "==" && !pol:
		kind = "ne"
	case atom.Name == "<" && !constLeft && pol: // t < c
		kind = "lt"
	case atom.Name == "<" && !constLeft && !pol: // t >= c
		kind = "ge"
	case atom.Name == "<" && constLeft && pol: // c < t
		kind = "gt"
	case atom.Name == "<" && constLeft && !pol: // t <= c
		kind = "le"
	}
	if !e.applyBound(key, init, kind, c) {
		return false
	}
	// the same fact in linear form (t may itself be a sum / difference)
	if t.Op == "bin" {
		return e.narrowLin(atom, pol)
	}
	return true
}

// applyBound intersects the interval of key with (value kind c); false = empty.
func (e *engine) applyBound(key string, init ival, kind string, c int64) bool {
	iv, ok := e.bounds[key]
	if !ok {
		iv = init
	}
	old, had := iv, ok
	iv.ne = append([]int64(nil), iv.ne...)
	setLo := func(v int64) {
		if !iv.hasLo || v > iv.lo {
			iv.lo, iv.hasLo = v, true
		}
	}
	setHi := func(v int64) {
		if !iv.hasHi || v < iv.hi {
			iv.hi, iv.hasHi = v, true
		}
	}
	switch kind {
	case "eq":
		setLo(c)
		setHi(c)
	case "ne":
		iv.ne = append(iv.ne, c)
	case "lt":
		setHi(c - 1)
	case "ge":
		setLo(c)
	case "gt":
		setLo(c + 1)
	case "le":
		setHi(c)
	}
	// tighten against excluded points
	for changed := true; changed; {
		changed = false
		for _, n := range iv.ne {
			if iv.hasLo && n == iv.lo {
				iv.lo++
				changed = true
			}
			if iv.hasHi && n == iv.hi {
				iv.hi--
				changed = true
			}
		}
	}
	if iv.hasLo && iv.hasHi && iv.lo > iv.hi {
		return false
	}
	e.bounds[key] = iv
	e.trail = append(e.trail, func() {
		if had {
			e.bounds[key] = old
		} else {
			delete(e.bounds, key)
		}
	})
	return true
}

// noWrap: for unsigned x - y, is y <= x established on the current path?  (Only then
// may the difference be read as an integer difference.)
func (e *engine) noWrap(x, y *Term) bool {
	p := &Path{Events: e.events}
	rel, n := p.Relation(len(e.events), func(t *Term) bool { return t.String() == strip(y).String() }, func(t *Term) bool { return t.String() == strip(x).String() })
	return n > 0 && rel&rGT == 0
}

// narrowLin: (A == B) / (A < B) over integers as a bound on the linear form A-B.
func (e *engine) narrowLin(atom *Term, pol bool) bool {
	a, b := atom.Args[0], atom.Args[1]
	intish := func(t *Term) bool {
		if _, ok := t.Int(); ok {
			return true
		}
		return t.Typ != nil && isIntType(t.Typ)
	}
	if !intish(a) || !intish(b) {
		return true
	}
	d := linCtx(a, e.noWrap).add(linCtx(b, e.noWrap), -1) // A - B = v + c
	kind := ""
	switch {
	case atom.Name == "==" && pol:
		kind = "eq"
	case atom.Name == "==" && !pol:
		kind = "ne"
	case atom.Name == "<" && pol:
		kind = "lt"
	default:
		kind = "ge"
	}
	if d.isConst() {
		switch kind {
		case "eq":
			return d.c == 0
		case "ne":
			return d.c != 0
		case "lt":
			return d.c < 0
		default:
			return d.c >= 0
		}
	}
	// sign normalisation: leading coefficient positive
	var ks []string
	for k := range d.k {
		ks = append(ks, k)
	}
	sort.Strings(ks)
	if d.k[ks[0]] < 0 {
		d = d.scale(-1)
		switch kind {
		case "lt": // -(v+c) < 0  <=>  v+c > 0
			kind = "gt"
		case "ge": // -(v+c) >= 0 <=>  v+c <= 0
			kind = "le"
		}
	}
	// (v + c) kind 0  <=>  v kind -c
	v := linForm{k: d.k}
	key := "lin:" + v.String()
	if len(d.k) == 1 && d.k[ks[0]] == 1 {
		key = ks[0] // a single term: share the interval narrow() keeps for it
	}
	return e.applyBound(key, ival{}, kind, -d.c)
}

// ---------------------------------------------------------------------------
// calls

func (e *engine) calleeName(c *ssa.CallCommon) string {
	if c.IsInvoke() {
		return ifaceCalleeName(c.Method)
	}
	switch v := c.Value.(type) {
	case *ssa.Function:
		return funcName(v)
	case *ssa.Builtin:
		return "builtin." + v.Name()
	case *ssa.MakeClosure:
		return funcName(v.Fn.(*ssa.Function))
	}
	return "dynamic"
}

func funcName(fn *ssa.Function) string {
	f := fn
	if o := fn.Origin(); o != nil {
		f = o
	}
	if ci := canonOf(f); ci != nil {
		return ci.name // a renamed helper answers to its pinned name (canon.go)
	}
	if obj, ok := f.Object().(*types.Func); ok && obj != nil {
		return shortName(obj.FullName())
	}
	return shortName(f.String())
}

func (e *engine) inlineable(fn *ssa.Function, depth int) bool {
	if fn == nil || fn.Blocks == nil || depth >= e.o.MaxDepth {
		return false
	}
	// an instantiation of a generic function belongs to the package of its origin
	root := fn
	for root.Parent() != nil {
		root = root.Parent()
	}
	if o := root.Origin(); o != nil {
		root = o
	}
	if root.Pkg == nil {
		return false
	}
	if root.Pkg == nil || !strings.HasPrefix(root.Pkg.Pkg.Path(), modPath) {
		return false
	}
	file := e.w.posFile(root.Pos())
	if file == "" {
		file = e.w.posFile(fn.Pos()) // a closure of a package-level literal: its parent is the synthetic init
	}
	if file == "" || !e.w.fileInScope(file) {
		return false
	}
	for _, f := range e.stack {
		if f.fn == fn {
			return false // recursion
		}
	}
	if e.o.Inline != nil && !e.o.Inline(fn) {
		return false
	}
	return true
}

func (e *engine) doCall(fr *frame, site ssa.Instruction, c *ssa.CallCommon, preFun *Term, preArgs []*Term, isDefer bool, cont func(*Term)) {
	var args []*Term
	var fun *Term
	name := e.calleeName(c)
	if preArgs != nil || isDefer {
		args, fun = preArgs, preFun
	} else {
		if c.IsInvoke() {
			args = append(args, e.val(fr, c.Value))
		} else {
			fun = e.val(fr, c.Value)
		}
		for _, a := range c.Args {
			args = append(args, e.val(fr, a))
		}
	}
	var resT types.Type
	if v, ok := site.(ssa.Value); ok {
		resT = v.Type()
	}

	// builtins
	if b, ok := c.Value.(*ssa.Builtin); ok && !c.IsInvoke() {
		if b.Name() != "copy" {
			for i, a := range args {
				args[i] = e.filled(a)
			}
		}
		cont(e.builtin(fr, site, b.Name(), args, resT))
		return
	}

	// resolve target function
	var target *ssa.Function
	var free []*Term
	if !c.IsInvoke() && fun != nil {
		switch fun.Op {
		case "fn":
			target = fun.Fn
		case "closure":
			target, free = fun.Fn, fun.Args
			name = funcName(fun.Fn)
			// a bound method value (x.m used as a function): go/ssa wraps it in a synthetic
			// closure whose only job is to call m with the captured receiver - call m directly
			if target != nil && target.Synthetic != "" && target.Blocks != nil && len(fun.Args) == 1 {
				for _, tb := range target.Blocks {
					for _, ti := range tb.Instrs {
						if ci, ok := ti.(ssa.CallInstruction); ok {
							if cc := ci.Common(); cc.IsInvoke() && len(cc.Args) == len(args) {
								// x.M of an interface value x: an invoke of M on the captured x
								target, free = nil, nil
								args = append([]*Term{fun.Args[0]}, args...)
								name = ifaceCalleeName(cc.Method)
								continue
							}
							if m := ci.Common().StaticCallee(); m != nil && m.Blocks != nil && len(m.Params) == len(args)+1 {
								target, free = m, nil
								args = append([]*Term{fun.Args[0]}, args...)
								name = funcName(m)
							}
						}
					}
				}
			}
		}
	}
	// an invoke on an interface value that was made, on this path, from a concrete module type
	// (a private interface naming one capability of a keeper / store): the concrete method
	if c.IsInvoke() && len(args) > 0 && target == nil {
		recv := args[0]
		for recv.Op == "iface" && len(recv.Args) == 1 {
			recv = recv.Args[0]
		}
		if recv.Typ != nil && privateModuleIface(c.Method) {
			if m := e.concreteMethod(recv.Typ, c.Method); m != nil {
				target = m
				args = append([]*Term{recv}, args[1:]...)
				name = funcName(m)
			}
		}
	}
	if name == "dynamic" && fun != nil && fun.Op == "global" {
		name = fun.Name // call through a package-level function variable (e.g. sdk.MsgTypeURL)
	}
	if target != nil && e.inlineable(target, fr.depth+1) {
		if e.o.OnInline != nil {
			e.o.OnInline(target)
		}
		callT := &Term{Op: "call", Name: name, Args: canonArgs(target, args), ID: e.newID(), Typ: resT, Site: site}
		e.emit(Event{Kind: EvEnter, Call: callT, Instr: site, Fn: fr.fn, Depth: fr.depth, ArgVals: e.argVals(callT.Args)})
		fkey, fvis := e.frameVisits(fr, site, -1)
		nf := &frame{fn: target, env: map[ssa.Value]*Term{}, visits: fvis, key: fkey, depth: fr.depth + 1, free: free}
		for i, p := range target.Params {
			if i < len(args) {
				nf.env[p] = args[i]
			}
		}
		nf.ret = func(res []*Term) {
			var r *Term
			switch len(res) {
			case 0:
				r = &Term{Op: "tuple"}
			case 1:
				r = res[0]
			default:
				r = &Term{Op: "tuple", Args: res}
			}
			e.stack = e.stack[:len(e.stack)-1]
			e.emit(Event{Kind: EvExit, Call: callT, Res: r, Instr: site, Fn: fr.fn, Depth: fr.depth})
			cont(r)
			e.stack = append(e.stack, nf)
		}
		e.stack = append(e.stack, nf)
		e.runBlock(nf, target.Blocks[0], nil)
		e.stack = e.stack[:len(e.stack)-1]
		return
	}

	for i, a := range args {
		args[i] = e.filled(a)
	}
	if sc := c.StaticCallee(); sc != nil && !isDefer {
		args = canonArgs(sc, args) // pinned parameter order of a re-signatured helper
	} else if target != nil {
		args = canonArgs(target, args)
	}
	// getters of sdk.Coin through a pointer receiver: the same getter on the value
	if strings.HasPrefix(name, "(*sdk.Coin).Get") && len(args) == 1 && args[0].Op == "addr" {
		name = "(sdk.Coin)." + methodOf(name)
		args = []*Term{e.load(args[0].Args[0], nil)}
	}
	// library idioms with one meaning get one term (normcall.go)
	if t := normCall(name, args, resT); t != nil {
		cont(t)
		return
	}
	// sdk.UnwrapSDKContext(c) / sdk.WrapSDKContext(c): the same context under its other static
	// type - where a helper unwraps is not observable
	if (name == "sdk.UnwrapSDKContext" || name == "sdk.WrapSDKContext") && len(args) == 1 {
		cont(args[0])
		return
	}
	// slices.Contains / Index / ContainsFunc / IndexFunc: a linear search, modelled as the
	// loop it abbreviates (no element; or one symbolic element on which the predicate decides)
	if e.slicesSearch(fr, site, name, args, resT, cont) {
		return
	}
	// a collections cursor (Iterate + Valid / Next / Key / Value / KeyValue / Close): the
	// explicit form of Walk; its elements are the same symbolic key / value Walk's callback sees
	if r, handled := e.collIterator(name, args, resT); handled {
		cont(r)
		return
	}
	// a local bytes.Buffer is an append-only byte sequence: Write / WriteByte / WriteString /
	// binary.Write extend the cell's content, Bytes / String read it, Grow / Reset(empty) are
	// capacity management.  Only buffers that live in a local cell are modelled.
	if r, handled := e.bytesBuffer(name, args); handled {
		cont(r)
		return
	}
	// encoding/binary PutUintNN(dst, v): a write of the encoded integer into dst
	if strings.HasPrefix(name, "(encoding/binary.") && strings.Contains(name, ").PutUint") && len(args) == 3 {
		enc := "be"
		if strings.Contains(name, "littleEndian") {
			enc = "le"
		}
		src := &Term{Op: "call", Name: enc + strings.TrimPrefix(methodOf(name), "PutUint"), Args: []*Term{args[2]}}
		e.copyInto(args[1], src)
		cont(&Term{Op: "tuple"})
		return
	}
	pure := isPure(name) || (e.o.PureFns != nil && e.o.PureFns(name))
	callT := &Term{Op: "call", Name: name, Args: args, Typ: resT, Site: site}
	if !pure {
		callT.ID = e.newID()
	}
	if name == "dynamic" {
		callT.Name = "dynamic"
	}
	ev := Event{Kind: EvCall, Call: callT, Fun: fun, Res: callT, Instr: site, Fn: fr.fn, Depth: fr.depth, Pure: pure}
	// callbacks passed to opaque callees: one symbolic invocation (visible effects)
	if e.o.Callbacks && !pure {
		e.runCallbacks(fr, site, callT, args, 0, func() {
			e.afterOpaque(fr, ev, args, cont)
		})
		return
	}
	e.afterOpaque(fr, ev, args, cont)
}

// bufferCell: the local cell behind a *bytes.Buffer argument (&alloc, possibly boxed as io.Writer).
func bufferCell(t *Term) (*Term, bool) {
	for t != nil && (t.Op == "iface" || t.Op == "convert") && len(t.Args) == 1 {
		t = t.Args[0]
	}
	if t == nil || t.Op != "addr" || len(t.Args) != 1 || t.Args[0].Op != "alloc" {
		return nil, false
	}
	if t.Args[0].Typ == nil || !strings.HasSuffix(types.TypeString(deref(t.Args[0].Typ), nil), "bytes.Buffer") {
		return nil, false
	}
	return t.Args[0], true
}

func (e *engine) bufferContent(cell *Term) *Term {
	if c, ok := e.mem[rootKey(cell)]; ok && c.Op != "zero" {
		return c
	}
	return &Term{Op: "const", Name: "nil", Typ: types.NewSlice(types.Typ[types.Byte])}
}

func (e *engine) bytesBuffer(name string, args []*Term) (*Term, bool) {
	bytesT := types.NewSlice(types.Typ[types.Byte])
	appendTo := func(cell *Term, x *Term) {
		e.setMem(rootKey(cell), &Term{Op: "call", Name: "builtin.append", Args: []*Term{e.bufferContent(cell), x}, Typ: bytesT})
	}
	okRes := func() *Term {
		return &Term{Op: "tuple", Args: []*Term{{Op: "opaque", Name: "n"}, {Op: "const", Name: "nil"}}}
	}
	if strings.HasPrefix(name, "(*bytes.Buffer).") && len(args) >= 1 {
		cell, ok := bufferCell(args[0])
		if !ok {
			return nil, false
		}
		switch methodOf(name) {
		case "Write", "WriteString":
			appendTo(cell, args[1])
			return okRes(), true
		case "WriteByte":
			appendTo(cell, &Term{Op: "call", Name: "byte", Args: []*Term{args[1]}, Typ: bytesT})
			return &Term{Op: "const", Name: "nil"}, true
		case "Grow":
			return &Term{Op: "tuple"}, true
		case "Bytes":
			return e.bufferContent(cell), true
		case "Len":
			return &Term{Op: "call", Name: "builtin.len", Args: []*Term{e.bufferContent(cell)}, Typ: types.Typ[types.Int]}, true
		}
		return nil, false
	}
	if name == "encoding/binary.Write" && len(args) == 3 {
		cell, ok := bufferCell(args[0])
		if !ok {
			return nil, false
		}
		order, v := args[1], args[2]
		for v.Op == "iface" && len(v.Args) == 1 {
			v = v.Args[0]
		}
		enc := ""
		switch {
		case strings.Contains(order.Key(), "BigEndian"):
			enc = "be"
		case strings.Contains(order.Key(), "LittleEndian"):
			enc = "le"
		}
		bits := 0
		if b, ok := v.Typ.Underlying().(*types.Basic); ok {
			switch b.Kind() {
			case types.Uint64, types.Int64:
				bits = 64
			case types.Uint32, types.Int32:
				bits = 32
			case types.Uint16, types.Int16:
				bits = 16
			case types.Uint8, types.Int8:
				bits = 8
			}
		}
		if enc == "" || bits == 0 {
			return nil, false
		}
		appendTo(cell, &Term{Op: "call", Name: enc + strconv.Itoa(bits), Args: []*Term{v}, Typ: bytesT})
		return &Term{Op: "const", Name: "nil"}, true // a fixed-size value into a bytes.Buffer cannot fail
	}
	return nil, false
}

// copyInto models copy(dst, src) / PutUintNN(dst, v) on slices that alias a
// local array or a made slice: copied(previous content, source, offset).
func (e *engine) copyInto(dst, src *Term) {
	if dst.Op == "slice" && dst.Plc != nil {
		e.writePlace(dst.Plc, &Term{Op: "opaque", Name: "copied", Args: []*Term{e.load(dst.Plc, nil), src, orNil(dst.Off)}, Typ: dst.Plc.Typ})
		return
	}
	base, lo := dst, (*Term)(nil)
	if dst.Op == "slice" {
		base, lo = dst.Args[0], dst.Args[1]
	}
	if base.Op == "filled" {
		base = base.Args[0]
	}
	if base.Op == "make" && base.Name == "slice" {
		root := &Term{Op: "deref", Args: []*Term{base}}
		cur, ok := e.mem[rootKey(root)]
		if !ok {
			cur = &Term{Op: "zero", Typ: base.Typ}
		}
		e.setMem(rootKey(root), &Term{Op: "opaque", Name: "copied", Args: []*Term{cur, src, orNil(lo)}, Typ: base.Typ})
	}
}

// filled: a made slice whose elements were written through index stores /
// copy is handed to callees together with its content (E8 needs it).
func (e *engine) filled(t *Term) *Term {
	if t == nil {
		return t
	}
	if t.Op == "make" && t.Name == "slice" {
		if c, ok := e.mem[rootKey(&Term{Op: "deref", Args: []*Term{t}})]; ok {
			return &Term{Op: "filled", Args: []*Term{t, c}, Typ: t.Typ}
		}
	}
	if t.Op == "slice" && t.Plc != nil {
		// refresh the snapshot of the aliased array at the point of use
		inner := t
		var chain []*Term
		for inner.Op == "slice" && inner.Args[0].Op == "slice" && inner.Args[0].Plc != nil {
			chain = append(chain, inner)
			inner = inner.Args[0]
		}
		cur := &Term{Op: "slice", Args: []*Term{e.filled(e.load(inner.Plc, nil)), inner.Args[1], inner.Args[2], inner.Args[3]}, Plc: inner.Plc, Off: inner.Off, Typ: inner.Typ}
		for i := len(chain) - 1; i >= 0; i-- {
			c := chain[i]
			cur = &Term{Op: "slice", Args: []*Term{cur, c.Args[1], c.Args[2], c.Args[3]}, Plc: c.Plc, Off: c.Off, Typ: c.Typ}
		}
		return cur
	}
	// varargs arrays / lists holding slices: refresh the elements
	switch t.Op {
	case "updidx":
		b, v := e.filled(t.Args[0]), e.filled(t.Args[2])
		if b != t.Args[0] || v != t.Args[2] {
			return &Term{Op: "updidx", Args: []*Term{b, t.Args[1], v}, Typ: t.Typ}
		}
	case "slice":
		if t.Plc == nil {
			if b := e.filled(t.Args[0]); b != t.Args[0] {
				return &Term{Op: "slice", Args: []*Term{b, t.Args[1], t.Args[2], t.Args[3]}, Typ: t.Typ}
			}
		}
	}
	return t
}

func (e *engine) argVals(args []*Term) []*Term {
	var out []*Term
	for i, a := range args {
		if a != nil && a.Op == "addr" {
			if out == nil {
				out = make([]*Term, len(args))
			}
			out[i] = e.load(a.Args[0], nil)
		}
	}
	return out
}

func (e *engine) afterOpaque(fr *frame, ev Event, args []*Term, cont func(*Term)) {
	ev.ArgVals = e.argVals(args)
	e.emit(ev)
	if !ev.Pure {
		// out-parameters: pointers to local cells handed to an opaque callee
		var callee *ssa.Function
		if ci, ok := ev.Instr.(ssa.CallInstruction); ok && ci != nil {
			callee = ci.Common().StaticCallee()
		}
		// an in-place sort permutes the elements of its slice argument: afterwards the slice
		// holds sorted(<content before>), whatever had been written into it
		if inPlaceSorts[ev.Call.Name] && len(args) > 0 {
			s := args[0]
			for ((s.Op == "iface" || s.Op == "convert") && len(s.Args) == 1) || s.Op == "filled" {
				s = s.Args[0]
			}
			var root *Term
			switch {
			case s.Op == "slice" && s.Plc != nil && s.Off == nil:
				root, _ = rootOf(s.Plc)
			case s.Op == "make" || s.Op == "param" || s.Op == "call" || s.Op == "extract" || s.Op == "field":
				root = &Term{Op: "deref", Args: []*Term{s}}
			}
			if root != nil {
				key := rootKey(root)
				cur, ok := e.mem[key]
				if !ok {
					cur = root
				}
				e.setMem(key, &Term{Op: "opaque", Name: "sorted", Args: []*Term{cur, ev.Call}, Typ: cur.Typ})
			}
		}
		for i, a := range args {
			if a.Op == "addr" && a.Args[0].Op == "alloc" {
				// a module callee whose body is known and which provably never writes through this
				// pointer parameter (e.g. a pointer-receiver getter) leaves the cell alone
				if callee != nil && callee.Blocks != nil && i < len(callee.Params) && !mayWriteThrough(callee, i, 0, map[*ssa.Function]bool{}) {
					continue
				}
				e.setMem(rootKey(a.Args[0]), &Term{Op: "opaque", Name: "out" + strconv.Itoa(i), Args: []*Term{ev.Call}, Typ: a.Args[0].Typ})
			}
		}
	}
	cont(ev.Call)
}

// mayWriteThrough: can fn write memory reachable from its idx-th (pointer) parameter?
// Conservative: a store whose address is rooted at the parameter, or handing the parameter (or
// an address derived from it) to any callee that is not itself shown harmless, counts as a write.
func mayWriteThrough(fn *ssa.Function, idx, depth int, seen map[*ssa.Function]bool) bool {
	if fn == nil || fn.Blocks == nil || idx >= len(fn.Params) || depth > 4 || seen[fn] {
		return true
	}
	seen[fn] = true
	defer delete(seen, fn)
	derived := map[ssa.Value]bool{fn.Params[idx]: true}
	for changed := true; changed; {
		changed = false
		for _, b := range fn.Blocks {
			for _, in := range b.Instrs {
				v, ok := in.(ssa.Value)
				if !ok || derived[v] {
					continue
				}
				switch x := in.(type) {
				case *ssa.FieldAddr:
					if derived[x.X] {
						derived[v], changed = true, true
					}
				case *ssa.IndexAddr:
					if derived[x.X] {
						derived[v], changed = true, true
					}
				case *ssa.Phi:
					for _, e := range x.Edges {
						if derived[e] {
							derived[v], changed = true, true
						}
					}
				case *ssa.ChangeType:
					if derived[x.X] {
						derived[v], changed = true, true
					}
				case *ssa.MakeInterface:
					if derived[x.X] {
						derived[v], changed = true, true
					}
				}
			}
		}
	}
	for _, b := range fn.Blocks {
		for _, in := range b.Instrs {
			switch x := in.(type) {
			case *ssa.Store:
				if derived[x.Addr] {
					return true
				}
				if derived[x.Val] {
					return true // the pointer escapes into memory
				}
			case *ssa.MapUpdate:
				if derived[x.Value] || derived[x.Key] {
					return true
				}
			case *ssa.MakeClosure:
				for _, bnd := range x.Bindings {
					if derived[bnd] {
						return true
					}
				}
			case *ssa.Return:
				for _, r := range x.Results {
					if derived[r] {
						return true
					}
				}
			case ssa.CallInstruction:
				for ai, a := range x.Common().Args {
					if !derived[a] {
						continue
					}
					cal := x.Common().StaticCallee()
					if cal == nil || mayWriteThrough(cal, ai, depth+1, seen) {
						return true
					}
				}
				if x.Common().IsInvoke() && derived[x.Common().Value] {
					return true
				}
			}
		}
	}
	return false
}

func (e *engine) runCallbacks(fr *frame, site ssa.Instruction, callT *Term, args []*Term, k int, cont func()) {
	e.runCallbackRound(fr, site, callT, args, k, 0, cont)
}

func (e *engine) runCallbackRound(fr *frame, site ssa.Instruction, callT *Term, args []*Term, k, round int, cont func()) {
	for ; k < len(args); k++ {
		a := args[k]
		if a.Op != "closure" && a.Op != "fn" {
			continue
		}
		if a.Fn == nil {
			continue
		}
		target, free := a.Fn, a.Args
		var recv *Term
		// a bound method value x.m handed over as the callback: run m with the captured x
		if m := boundMethod(a.Fn); m != nil && len(a.Args) == 1 {
			target, free, recv = m, nil, a.Args[0]
		}
		if !e.inlineable(target, fr.depth+1) {
			continue
		}
		kk := k
		if e.o.OnInline != nil {
			e.o.OnInline(target)
		}
		e.emit(Event{Kind: EvCbBegin, Call: callT, Fun: a, Instr: site, Fn: fr.fn, Depth: fr.depth})
		fkey, fvis := e.frameVisits(fr, site, kk+100*round)
		nf := &frame{fn: target, env: map[ssa.Value]*Term{}, visits: fvis, key: fkey, depth: fr.depth + 1, free: free}
		params := target.Params
		if recv != nil && len(params) > 0 {
			nf.env[params[0]] = recv
			params = params[1:]
		}
		for i, p := range params {
			t := &Term{Op: "opaque", Name: "cbarg" + strconv.Itoa(i), Args: []*Term{callT}, Typ: p.Type()}
			if round > 0 {
				t.Args = append(t.Args, intTerm(int64(round)))
			}
			nf.env[p] = t
		}
		nf.ret = func(res []*Term) {
			e.stack = e.stack[:len(e.stack)-1]
			var r *Term
			if len(res) == 1 {
				r = res[0]
			} else {
				r = &Term{Op: "tuple", Args: res}
			}
			e.emit(Event{Kind: EvCbEnd, Call: callT, Fun: a, Res: r, Instr: site, Fn: fr.fn, Depth: fr.depth})
			if round+1 < e.o.WalkRounds && strings.HasSuffix(callT.Name, ").Walk") {
				// the next element of the walk: the same callback once more
				e.runCallbackRound(fr, site, callT, args, kk, round+1, cont)
			} else {
				e.runCallbackRound(fr, site, callT, args, kk+1, 0, cont)
			}
			e.stack = append(e.stack, nf)
		}
		e.stack = append(e.stack, nf)
		e.runBlock(nf, target.Blocks[0], nil)
		e.stack = e.stack[:len(e.stack)-1]
		return
	}
	cont()
}

func (e *engine) builtin(fr *frame, site ssa.Instruction, name string, args []*Term, resT types.Type) *Term {
	switch name {
	case "len":
		x := args[0]
		if l, ok := listOf(x); ok && x.Op != "zero" {
			return intTerm(int64(len(l)))
		}
		if x.IsConst() && strings.HasPrefix(x.Name, `"`) {
			if s, err := strconv.Unquote(x.Name); err == nil {
				return intTerm(int64(len(s)))
			}
		}
		if x.IsNil() {
			return intTerm(0)
		}
		// len(make([]T, n, c)) is n, whatever has been stored into the elements since
		mk := x
		for mk.Op == "filled" && len(mk.Args) == 2 {
			mk = mk.Args[0]
		}
		if mk.Op == "make" && mk.Name == "slice" && len(mk.Args) == 2 && mk.Args[0] != nil {
			return mk.Args[0]
		}
		return &Term{Op: "call", Name: "builtin.len", Args: []*Term{strip(x)}, Typ: resT}
	case "cap", "min", "max", "real", "imag", "complex":
		return &Term{Op: "call", Name: "builtin." + name, Args: args, Typ: resT}
	case "append":
		return &Term{Op: "call", Name: "builtin.append", Args: args, Typ: resT, Site: site}
	case "copy":
		ct := &Term{Op: "call", Name: "builtin.copy", Args: args, ID: e.newID(), Typ: resT, Site: site}
		e.emit(Event{Kind: EvCall, Call: ct, Res: ct, Instr: site, Fn: fr.fn, Depth: fr.depth})
		e.copyInto(args[0], e.filled(args[1]))
		// copy returns min(len(dst), len(src)); when dst is a fresh made slice whose length is
		// len(src) plus non-negative terms, that is len(src)
		if n := copiedLen(args[0], args[1]); n != nil {
			return n
		}
		return ct
	case "delete":
		e.emit(Event{Kind: EvMapDelete, Place: args[0], Cond: args[1], Instr: site, Fn: fr.fn, Depth: fr.depth})
		return &Term{Op: "tuple"}
	case "recover":
		ct := &Term{Op: "call", Name: "builtin.recover", ID: e.newID(), Typ: resT, Site: site}
		e.emit(Event{Kind: EvCall, Call: ct, Res: ct, Instr: site, Fn: fr.fn, Depth: fr.depth})
		return ct
	case "panic":
		return &Term{Op: "tuple"}
	case "print", "println":
		return &Term{Op: "tuple"}
	case "clear":
		e.emit(Event{Kind: EvMapDelete, Place: args[0], Instr: site, Fn: fr.fn, Depth: fr.depth})
		return &Term{Op: "tuple"}
	}
	panic(ErrUndecided{"unhandled builtin " + name})
}

// copiedLen: len(src) if dst = make([]byte, L)[lo:] with L - lo - len(src) a sum of
// non-negative terms (lengths, non-negative constants); nil when that cannot be shown.
func copiedLen(dst, src *Term) *Term {
	lo := linForm{k: map[string]int64{}}
	base := dst
	if base.Op == "slice" && base.Plc == nil {
		if base.Args[2] != nil {
			return nil
		}
		if base.Args[1] != nil {
			lo = lin(base.Args[1])
		}
		base = base.Args[0]
	}
	if base.Op == "filled" {
		base = base.Args[0]
	}
	if base.Op != "make" || base.Name != "slice" || len(base.Args) == 0 {
		return nil
	}
	srcLen := &Term{Op: "call", Name: "builtin.len", Args: []*Term{strip(src)}, Typ: types.Typ[types.Int]}
	rest := lin(base.Args[0]).add(lo, -1).add(lin(srcLen), -1)
	if rest.c < 0 {
		return nil
	}
	for a, k := range rest.k {
		if k < 0 || !strings.HasPrefix(a, "builtin.len(") {
			return nil
		}
	}
	return srcLen
}

func orNil(t *Term) *Term {
	if t == nil {
		return &Term{Op: "const", Name: "0"}
	}
	return t
}

// ---------------------------------------------------------------------------
// purity table: results of these callees are functions of their arguments
// (no instance id), and they do not write through pointer arguments.

// inPlaceSorts: standard-library functions that reorder the elements of their first argument.
var inPlaceSorts = map[string]bool{"sort.Slice": true, "sort.SliceStable": true, "slices.Sort": true, "slices.SortFunc": true,
	"slices.SortStableFunc": true, "sort.Strings": true, "sort.Ints": true}

var purePkgPrefixes = []string{
	"strconv.", "encoding/hex.", "(encoding/binary.", "encoding/binary.", "fmt.Sprintf", "fmt.Errorf", "fmt.Sprint",
	"errors.", "bytes.Equal", "bytes.Compare", "strings.", "(time.Time).", "(time.Duration).", "time.Unix", "time.Duration",
	"(*math/big.Int).", "math/big.",
	"sdkmath.", "(sdkmath.", "(*sdkmath.",
	"errorsmod.", "(*errorsmod.", "(errorsmod.",
	"golang.org/x/crypto/sha3.",
	"slices.Concat", "slices.Clone", "bytes.Clone", // fresh copies: never alias their arguments
	"cmp.Compare", "cmp.Less",
	"google.golang.org/grpc/status.New", "(*google.golang.org/grpc/status.Status).Err", "google.golang.org/grpc/status.Error", "google.golang.org/grpc/status.Errorf",
	"collections.Join", "collections.NewPrefixedPairRange", "(*collections.PairRange", "(collections.Pair[",
	"(*collections.Range",
	"(address.Codec).",
	"sdkaddress.",
	"sdk.", "(sdk.", "(*sdk.",
	"(cryptotypes.PubKey).",
	"(github.com/cometbft/cometbft/crypto.PubKey).",
	"github.com/cometbft/cometbft/crypto/encoding.",
	"github.com/cosmos/cosmos-sdk/crypto/codec.",
	"(*github.com/cosmos/cosmos-sdk/codec/types.Any).GetCachedValue",
	"(*baseapp.MsgServiceRouter).Handler",
	"(stakingtypes.Validator).", "(*stakingtypes.Validator).",
	"stakingtypes.NewValidator",
	"(*github.com/cosmos/cosmos-sdk/x/authz.MsgExec).GetMessages",
	"(github.com/cosmos/cosmos-sdk/x/authz.MsgExec).GetMessages",
	"(*cmtproto.ValidatorSet).GetValidators",
	"(abci.Validator).String", "(*abci.Validator).String",
	"connect/pkg/types.CurrencyPairFromString",
	"(storetypes.GasMeter).GasRemaining", "(storetypes.GasMeter).GasConsumedToLimit", "(storetypes.GasMeter).GasConsumed",
	"storetypes.NewGasMeter",
	"(connect/abci/strategies/codec.ExtendedCommitCodec).Decode",
	"(connect/abci/strategies/codec.VoteExtensionCodec).Decode",
}

var impureExact = map[string]bool{
	"(sdk.Context).CacheContext":         true,
	"(*sdk.EventManager).EmitEvent":      true,
	"(*sdk.EventManager).EmitEvents":     true,
	"(sdk.EventManagerI).EmitEvent":      true,
	"(sdk.EventManagerI).EmitEvents":     true,
	"(*sdk.EventManager).EmitTypedEvent": true,
	"(sdk.EventManagerI).EmitTypedEvent": true,
}

func isPure(name string) bool {
	if impureExact[name] {
		return false
	}
	if strings.HasSuffix(name, ".AddressCodec") && strings.Contains(name, "AccountKeeper") {
		return true
	}
	// generated protobuf getters / stringers of module types (no body inlined)
	if strings.HasPrefix(name, "(*ophost/types.") || strings.HasPrefix(name, "(*opchild/types.") ||
		strings.HasPrefix(name, "(ophost/types.") || strings.HasPrefix(name, "(opchild/types.") {
		i := strings.LastIndex(name, ").")
		m := name[i+2:]
		recv := name[1:i]
		if strings.Contains(recv, "Keeper") || strings.Contains(recv, "Hook") || strings.Contains(recv, "Store") {
			return false
		}
		if strings.HasPrefix(m, "Get") || m == "String" || m == "Size" {
			return true
		}
	}
	for _, p := range purePkgPrefixes {
		if strings.HasPrefix(name, p) {
			return true
		}
	}
	return false
}

// slicesSearch models the four linear searches of package slices as the range loop they
// stand for.  Over a slice whose elements are known (a list built on this path) the
// predicate runs on each element in order, exactly as the loop would; over a symbolic
// slice either there is no element and the search fails, or the predicate decides on one
// symbolic element s[i].
func (e *engine) slicesSearch(fr *frame, site ssa.Instruction, name string, args []*Term, resT types.Type, cont func(*Term)) bool {
	var isFunc, isIndex bool
	switch name {
	case "slices.Contains":
	case "slices.Index":
		isIndex = true
	case "slices.ContainsFunc":
		isFunc = true
	case "slices.IndexFunc":
		isFunc, isIndex = true, true
	default:
		return false
	}
	if len(args) != 2 {
		return false
	}
	var pred *Term
	if isFunc {
		pred = args[1]
		if (pred.Op != "closure" && pred.Op != "fn") || pred.Fn == nil || !e.inlineable(pred.Fn, fr.depth+1) || len(pred.Fn.Params) != 1 {
			return false
		}
	}
	s := args[0]
	var et types.Type
	if s.Typ != nil {
		if sl, ok := s.Typ.Underlying().(*types.Slice); ok {
			et = sl.Elem()
		}
	}
	if et == nil && isFunc {
		et = pred.Fn.Params[0].Type()
	}
	if et == nil && args[1].Typ != nil {
		et = args[1].Typ
	}
	intT := types.Typ[types.Int]
	boolT := types.Typ[types.Bool]
	miss := func() *Term {
		if isIndex {
			return &Term{Op: "const", Name: "-1", Typ: intT}
		}
		return boolTerm(false)
	}
	hit := func(idx *Term) *Term {
		if isIndex {
			return idx
		}
		return boolTerm(true)
	}
	// test: evaluate the predicate on elem, then continue with its (symbolic) truth value
	test := func(k int, elem *Term, then func(r *Term)) {
		if !isFunc {
			then(binop(token.EQL, elem, args[1], boolT))
			return
		}
		target := pred.Fn
		if e.o.OnInline != nil {
			e.o.OnInline(target)
		}
		callT := &Term{Op: "call", Name: funcName(target), Args: []*Term{elem}, ID: e.newID(), Typ: boolT, Site: site}
		e.emit(Event{Kind: EvEnter, Call: callT, Instr: site, Fn: fr.fn, Depth: fr.depth, ArgVals: e.argVals(callT.Args)})
		fkey, fvis := e.frameVisits(fr, site, 1+k)
		nf := &frame{fn: target, env: map[ssa.Value]*Term{}, visits: fvis, key: fkey, depth: fr.depth + 1, free: pred.Args}
		nf.env[target.Params[0]] = elem
		nf.ret = func(res []*Term) {
			e.stack = e.stack[:len(e.stack)-1]
			e.emit(Event{Kind: EvExit, Call: callT, Res: res[0], Instr: site, Fn: fr.fn, Depth: fr.depth})
			then(res[0])
			e.stack = append(e.stack, nf)
		}
		e.stack = append(e.stack, nf)
		e.runBlock(nf, target.Blocks[0], nil)
		e.stack = e.stack[:len(e.stack)-1]
	}
	decide := func(r, idx *Term, onMiss func()) {
		m := e.mark()
		if e.assume(r, true, site, fr) {
			cont(hit(idx))
		}
		e.undo(m)
		if e.assume(r, false, site, fr) {
			onMiss()
		}
		e.undo(m)
	}
	if l, ok := listOf(s); ok && len(l) <= e.o.MaxVisits+1 {
		var step func(k int)
		step = func(k int) {
			if k == len(l) {
				cont(miss())
				return
			}
			test(k, l[k], func(r *Term) {
				decide(r, &Term{Op: "const", Name: strconv.Itoa(k), Typ: intT}, func() { step(k + 1) })
			})
		}
		step(0)
		return true
	}
	// no element at all
	m := e.mark()
	cont(miss())
	e.undo(m)
	// one symbolic element
	idx := &Term{Op: "opaque", Name: "searchidx", ID: e.newID(), Typ: intT}
	if isIndex {
		e.narrow(binop(token.LSS, idx, &Term{Op: "const", Name: "0", Typ: intT}, boolT), false)
	}
	test(0, projectIdx(s, idx, et), func(r *Term) {
		decide(r, idx, func() { cont(miss()) })
	})
	return true
}

// collIterator models the read-only cursor that (collections.Map).Iterate returns.  The
// cursor's position is the number of Next calls so far; Valid is a pure function of cursor
// and position; the element at position 0 is denoted exactly like the key / value that Walk
// hands to its callback (cbarg0 / cbarg1 of the opening call), later elements carry their
// position.  Only cursors whose opening Iterate call is visible on the path are modelled.
func (e *engine) collIterator(name string, args []*Term, resT types.Type) (*Term, bool) {
	if !strings.HasPrefix(name, "(collections.Iterator[") && !strings.HasPrefix(name, "(collections.KeySetIterator[") {
		return nil, false
	}
	if len(args) != 1 {
		return nil, false
	}
	it := strip(args[0])
	src := it
	if src.Op == "extract" && src.Name == "0" {
		src = src.Args[0]
	}
	if src.Op != "call" || !strings.HasSuffix(src.Name, ").Iterate") {
		return nil, false
	}
	posKey := "iterpos:" + it.String()
	k := int64(0)
	if v, ok := e.mem[posKey]; ok {
		k, _ = v.Int()
	}
	at := func(op string, T types.Type) *Term {
		t := &Term{Op: "opaque", Name: op, Args: []*Term{src}, Typ: T}
		if k > 0 {
			t.Args = append(t.Args, intTerm(k))
		}
		return t
	}
	resAt := func(i int) types.Type {
		if tup, ok := resT.(*types.Tuple); ok && i < tup.Len() {
			return tup.At(i).Type()
		}
		return nil
	}
	switch methodOf(name) {
	case "Valid":
		return &Term{Op: "opaque", Name: "itervalid", Args: []*Term{src, intTerm(k)}, Typ: types.Typ[types.Bool]}, true
	case "Next":
		e.setMem(posKey, intTerm(k+1))
		return &Term{Op: "tuple"}, true
	case "Close":
		return &Term{Op: "opaque", Name: "iterclose", Args: []*Term{src}, Typ: resT}, true
	case "Key":
		return &Term{Op: "tuple", Args: []*Term{at("cbarg0", resAt(0)), at("iterkeyerr", resAt(1))}}, true
	case "Value":
		return &Term{Op: "tuple", Args: []*Term{at("cbarg1", resAt(0)), at("itervalerr", resAt(1))}}, true
	case "KeyValue":
		kvT := resAt(0)
		if kvT == nil {
			return nil, false
		}
		st, ok := kvT.Underlying().(*types.Struct)
		if !ok || st.NumFields() != 2 {
			return nil, false
		}
		kv := update(update(&Term{Op: "zero", Typ: kvT}, st.Field(0).Name(), at("cbarg0", st.Field(0).Type())), st.Field(1).Name(), at("cbarg1", st.Field(1).Type()))
		return &Term{Op: "tuple", Args: []*Term{kv, at("iterkverr", resAt(1))}}, true
	}
	return nil, false
}

// localStruct: t is a named struct type declared in the module.
func localStruct(t types.Type) (*types.Struct, bool) {
	n, ok := t.(*types.Named)
	if !ok || n.Obj().Pkg() == nil || !strings.HasPrefix(n.Obj().Pkg().Path(), modPath) {
		return nil, false
	}
	st, ok := n.Underlying().(*types.Struct)
	return st, ok
}

// carrierStruct: an unexported module struct type - used only to carry several values in
// or out of a private function (a result or parameter object), never a domain record.
func carrierStruct(t types.Type) (*types.Struct, bool) {
	n, ok := t.(*types.Named)
	if !ok || n.Obj().Exported() {
		return nil, false
	}
	return localStruct(t)
}

// loopOf: the blocks of the natural loop headed by h (dominated by h and able to reach h);
// empty when h heads no loop.
func (e *engine) loopOf(h *ssa.BasicBlock) []*ssa.BasicBlock {
	if e.loops == nil {
		e.loops = map[*ssa.BasicBlock][]*ssa.BasicBlock{}
	}
	if l, ok := e.loops[h]; ok {
		return l
	}
	// blocks that can reach h: backward DFS over predecessors
	reach := map[*ssa.BasicBlock]bool{}
	var stack []*ssa.BasicBlock
	for _, p := range h.Preds {
		stack = append(stack, p)
	}
	for len(stack) > 0 {
		x := stack[len(stack)-1]
		stack = stack[:len(stack)-1]
		if reach[x] || !h.Dominates(x) {
			continue
		}
		reach[x] = true
		for _, p := range x.Preds {
			stack = append(stack, p)
		}
	}
	var out []*ssa.BasicBlock
	for x := range reach {
		if x != h {
			out = append(out, x)
		}
	}
	e.loops[h] = out
	return out
}

// boundMethod: the method behind a go/ssa bound-method wrapper (x.m used as a value), when it
// is a concrete method with a body.
func boundMethod(fn *ssa.Function) *ssa.Function {
	if fn == nil || fn.Synthetic == "" || fn.Blocks == nil || len(fn.FreeVars) != 1 {
		return nil
	}
	for _, b := range fn.Blocks {
		for _, in := range b.Instrs {
			if ci, ok := in.(ssa.CallInstruction); ok {
				if m := ci.Common().StaticCallee(); m != nil && m.Blocks != nil && m.Signature.Recv() != nil {
					return m
				}
			}
		}
	}
	return nil
}

// concreteMethod: the module method that an interface method resolves to for a value of
// concrete type T (nil when T is itself an interface or the method is not module code).
func (e *engine) concreteMethod(T types.Type, m *types.Func) *ssa.Function {
	if _, isIface := T.Underlying().(*types.Interface); isIface {
		return nil
	}
	sel := e.w.Prog.MethodSets.MethodSet(T).Lookup(m.Pkg(), m.Name())
	if sel == nil {
		return nil
	}
	fn := e.w.Prog.MethodValue(sel)
	if fn == nil {
		return nil
	}
	if fn.Synthetic != "" { // promoted / pointer wrapper: the declared method
		if obj, ok := sel.Obj().(*types.Func); ok {
			if real := e.w.Prog.FuncValue(obj); real != nil {
				fn = real
			}
		}
	}
	if fn.Blocks == nil || fn.Pkg == nil || !strings.HasPrefix(fn.Pkg.Pkg.Path(), modPath) {
		return nil
	}
	return fn
}

// privateModuleIface: m is a method of an unexported interface type declared in the module (a
// helper's private name for one capability of its dependency).  Exported interfaces are the
// module's stated seams (expected keepers, stores) and stay opaque.
func privateModuleIface(m *types.Func) bool {
	sig, ok := m.Type().(*types.Signature)
	if !ok || sig.Recv() == nil || m.Pkg() == nil || !strings.HasPrefix(m.Pkg().Path(), modPath) {
		return false
	}
	n, ok := sig.Recv().Type().(*types.Named)
	return ok && !n.Obj().Exported()
}

// localOnlyMap: the map made by mk is used by probes, writes, deletes and len only - it is never
// stored into a variable cell (captured by a closure), bound, passed or ranged over, so every
// write to it is an instruction on the current path.  It may be RETURNED by the function that
// makes it (a constructor of a lookup table): the writes of the making function then precede
// the hand-over, and the caller's use is judged at the caller's instruction (scratchUse).
func localOnlyMap(mk *ssa.MakeMap) bool { return scratchUse(mk, true) }

func scratchUse(v ssa.Value, mayReturn bool) bool {
	if v.Referrers() == nil {
		return false
	}
	for _, r := range *v.Referrers() {
		switch u := r.(type) {
		case *ssa.Lookup:
			if u.X != v {
				return false
			}
		case *ssa.MapUpdate:
			if u.Map != v {
				return false
			}
		case *ssa.DebugRef:
		case *ssa.Return:
			if !mayReturn {
				return false
			}
		case *ssa.Call:
			b, isB := u.Call.Value.(*ssa.Builtin)
			if !isB || (b.Name() != "len" && b.Name() != "delete") {
				return false
			}
		default:
			return false
		}
	}
	return true
}

// scratchAt: the map operand x of an instruction of the current frame denotes a scratch map -
// either the map made by this function, or the result of a static call whose use here is
// scratch use as well (the callee made and returned it; m's making function is that callee).
func scratchAt(x ssa.Value, mk *ssa.MakeMap) bool {
	if x == mk {
		return true
	}
	if call, ok := x.(*ssa.Call); ok {
		if callee := call.Common().StaticCallee(); callee != nil && callee == mk.Parent() {
			return scratchUse(call, false)
		}
	}
	return false
}

// localMapEntries: the (key, value) pairs put into the local-only map m on the current path, in
// order; ok is false when the map is not local-only, was made elsewhere, or had a deletion.
func (e *engine) localMapEntries(m *Term) (keys, vals []*Term, ok bool) {
	if m.Op != "make" || m.Name != "map" {
		return nil, nil, false
	}
	mk, isMk := m.Site.(*ssa.MakeMap)
	if !isMk || !localOnlyMap(mk) {
		return nil, nil, false
	}
	k := m.Key()
	for i := range e.events {
		ev := &e.events[i]
		if ev.Place == nil || ev.Place.Key() != k {
			continue
		}
		switch ev.Kind {
		case EvMapUpdate:
			keys, vals = append(keys, ev.Cond), append(vals, ev.Val)
		case EvMapDelete:
			return nil, nil, false
		}
	}
	return keys, vals, true
}

// lookupLocal models a probe of a local-only map whose entries are all known on the current
// path as the search it is: the latest entry with an equal key answers, otherwise the zero
// value (and false).  Returns false when the probe stays opaque.
func (e *engine) lookupLocal(fr *frame, in *ssa.Lookup, cont func(*Term)) bool {
	if _, isMap := in.X.Type().Underlying().(*types.Map); !isMap {
		return false
	}
	m := e.val(fr, in.X)
	keys, vals, ok := e.localMapEntries(m)
	if !ok || len(keys) > e.o.MaxVisits+2 {
		return false
	}
	if mk := m.Site.(*ssa.MakeMap); !scratchAt(in.X, mk) {
		return false
	}
	key := e.val(fr, in.Index)
	boolT := types.Typ[types.Bool]
	mt := in.X.Type().Underlying().(*types.Map)
	result := func(v *Term, hit bool) *Term {
		if in.CommaOk {
			return &Term{Op: "tuple", Args: []*Term{v, boolTerm(hit)}, Typ: in.Type()}
		}
		return v
	}
	var step func(i int)
	step = func(i int) {
		if i < 0 {
			cont(result(zeroOf(mt.Elem()), false))
			return
		}
		r := binop(token.EQL, keys[i], key, boolT)
		mk := e.mark()
		if e.assume(r, true, in, fr) {
			cont(result(vals[i], true))
		}
		e.undo(mk)
		if e.assume(r, false, in, fr) {
			step(i - 1)
		}
		e.undo(mk)
	}
	step(len(keys) - 1)
	return true
}

// isBytesAsString: string(b) for a byte slice b.
func isBytesAsString(t *Term) bool {
	if t.Op != "convert" || t.Name != "string" || len(t.Args) != 1 || t.Args[0].Typ == nil {
		return false
	}
	sl, ok := t.Args[0].Typ.Underlying().(*types.Slice)
	if !ok {
		return false
	}
	b, ok := sl.Elem().Underlying().(*types.Basic)
	return ok && b.Kind() == types.Uint8
}

// nonEmptyString: t is a string that contains literal text whatever its operands are:
// fmt.Sprintf / fmt.Errorf-free formatting with a literal format that has text outside its
// verbs, or a concatenation with a non-empty literal operand.
func nonEmptyString(t *Term) bool {
	switch t.Op {
	case "const":
		return len(t.Name) > 2 && strings.HasPrefix(t.Name, `"`)
	case "bin":
		if t.Name == "+" && len(t.Args) == 2 {
			return nonEmptyString(t.Args[0]) || nonEmptyString(t.Args[1])
		}
	case "call":
		if t.Name == "fmt.Sprintf" && len(t.Args) >= 1 && t.Args[0].IsConst() && strings.HasPrefix(t.Args[0].Name, `"`) {
			f, err := strconv.Unquote(t.Args[0].Name)
			if err != nil {
				return false
			}
			// drop the verbs (%[flags][width][.prec]verb and %%); anything left is literal text
			lit := 0
			for i := 0; i < len(f); i++ {
				if f[i] != '%' {
					lit++
					continue
				}
				i++
				if i < len(f) && f[i] == '%' {
					lit++
					continue
				}
				for i < len(f) && strings.ContainsRune("+-# 0123456789.[]*", rune(f[i])) {
					i++
				}
			}
			return lit > 0
		}
	}
	return false
}
