package main

import (
	"fmt"
	"go/ast"
	"go/token"
	"go/types"
	"math/rand"
	"os"
	"sort"
	"strings"
	"sync"

	"golang.org/x/tools/go/ssa"
)

// Sensitivity audit (thorough tier): systematic AST mutants of the functions a
// property's rules analysed, type-checked through an overlay (never written to
// /repo) and re-analysed in sub-processes.  The audit never changes the exit
// status: a surviving mutant may be behaviour preserving.  Its kill matrix goes
// into the evidence so that a rule that has gone vacuous is visible.

type auditMutant struct {
	File  string // repo-relative
	Start int
	End   int
	Repl  string
	Desc  string
	Line  int
	Fn    string
}

func (m auditMutant) arg() string {
	return fmt.Sprintf("%s@@%d@@%d@@%s", m.File, m.Start, m.End, m.Repl)
}

var flipOps = map[token.Token][]string{
	token.EQL:  {"!="},
	token.NEQ:  {"=="},
	token.LSS:  {"<=", ">="},
	token.LEQ:  {"<", ">"},
	token.GTR:  {">=", "<="},
	token.GEQ:  {">", "<"},
	token.LAND: {"||"},
	token.LOR:  {"&&"},
}

func (c *Ctx) auditMutants() []auditMutant {
	w := c.W
	// syntax nodes of analysed functions
	want := map[string]bool{}
	for n := range c.FuncsAnalysed {
		want[n] = true
	}
	var out []auditMutant
	seenNode := map[ast.Node]bool{}
	for _, fn := range w.Funcs {
		if !want[fnShort(fn)] {
			continue
		}
		syn := fn.Syntax()
		if syn == nil || seenNode[syn] {
			continue
		}
		seenNode[syn] = true
		var info *types.Info
		for _, p := range w.Pkgs {
			if fn.Pkg != nil && p.PkgPath == fn.Pkg.Pkg.Path() {
				info = p.TypesInfo
			}
			if fn.Pkg == nil && fn.Parent() != nil {
				r := fn
				for r.Parent() != nil {
					r = r.Parent()
				}
				if r.Pkg != nil && p.PkgPath == r.Pkg.Pkg.Path() {
					info = p.TypesInfo
				}
			}
		}
		file := w.Fset.Position(syn.Pos()).Filename
		if !w.fileInScope(file) {
			continue
		}
		rel := strings.TrimPrefix(file, w.RepoDir+"/")
		src, err := os.ReadFile(file)
		if err != nil {
			continue
		}
		off := func(p token.Pos) int { return w.Fset.Position(p).Offset }
		line := func(p token.Pos) int { return w.Fset.Position(p).Line }
		add := func(s, e token.Pos, repl, desc string) {
			out = append(out, auditMutant{File: rel, Start: off(s), End: off(e), Repl: repl, Desc: desc, Line: line(s), Fn: fnShort(fn)})
		}
		var body ast.Node = syn
		ast.Inspect(body, func(n ast.Node) bool {
			if fl, ok := n.(*ast.FuncLit); ok && n != syn {
				_ = fl // closures are separate SSA functions; still mutate them here (they belong to the analysed parent)
			}
			switch x := n.(type) {
			case *ast.BinaryExpr:
				for _, r := range flipOps[x.Op] {
					add(x.OpPos, x.OpPos+token.Pos(len(x.Op.String())), r, fmt.Sprintf("operator %s -> %s", x.Op, r))
				}
			case *ast.IfStmt:
				if x.Cond != nil {
					cs := string(src[off(x.Cond.Pos()):off(x.Cond.End())])
					add(x.Cond.Pos(), x.Cond.End(), "("+cs+") && false", "guard disabled: if "+trunc(cs, 40))
				}
			case *ast.CallExpr:
				if info == nil || len(x.Args) < 2 {
					return true
				}
				for i := 0; i+1 < len(x.Args); i++ {
					ta, tb := info.TypeOf(x.Args[i]), info.TypeOf(x.Args[i+1])
					if ta == nil || tb == nil || !types.Identical(ta, tb) {
						continue
					}
					a := string(src[off(x.Args[i].Pos()):off(x.Args[i].End())])
					b := string(src[off(x.Args[i+1].Pos()):off(x.Args[i+1].End())])
					if a == b {
						continue
					}
					add(x.Args[i].Pos(), x.Args[i+1].End(), b+", "+a, "swap arguments "+trunc(a, 20)+" <-> "+trunc(b, 20))
				}
			case *ast.SelectorExpr:
				// req.F -> req.G for a same-typed sibling field
				if info == nil {
					return true
				}
				sel, ok := info.Selections[x]
				if !ok || sel.Kind() != types.FieldVal {
					return true
				}
				recv := sel.Recv()
				st, ok := deref(recv).Underlying().(*types.Struct)
				if !ok {
					return true
				}
				if id, ok := x.X.(*ast.Ident); !ok || (id.Name != "req" && id.Name != "msg") {
					return true
				}
				for i := 0; i < st.NumFields(); i++ {
					f := st.Field(i)
					if f.Name() != x.Sel.Name && f.Exported() && types.Identical(f.Type(), sel.Type()) {
						add(x.Sel.Pos(), x.Sel.End(), f.Name(), "field "+x.Sel.Name+" -> "+f.Name())
						break
					}
				}
			case *ast.ExprStmt:
				if call, ok := x.X.(*ast.CallExpr); ok {
					cs := string(src[off(call.Pos()):off(call.End())])
					if !strings.Contains(cs, "EmitEvent") {
						add(x.Pos(), x.End(), "_ = 0", "statement deleted: "+trunc(cs, 40))
					}
				}
			case *ast.BasicLit:
				if x.Kind == token.INT && (x.Value == "1" || x.Value == "0" || x.Value == "32") {
					nv := map[string]string{"1": "2", "0": "1", "32": "31"}[x.Value]
					add(x.Pos(), x.End(), nv, "constant "+x.Value+" -> "+nv)
				}
			}
			return true
		})
	}
	// de-duplicate (closures are visited with their parent and alone)
	seen := map[string]bool{}
	var uniq []auditMutant
	for _, m := range out {
		k := m.arg()
		if !seen[k] {
			seen[k] = true
			uniq = append(uniq, m)
		}
	}
	sort.Slice(uniq, func(i, j int) bool {
		if uniq[i].File != uniq[j].File {
			return uniq[i].File < uniq[j].File
		}
		if uniq[i].Start != uniq[j].Start {
			return uniq[i].Start < uniq[j].Start
		}
		return uniq[i].Repl < uniq[j].Repl
	})
	return uniq
}

type auditResult struct {
	auditMutant
	Outcome string
}

func (c *Ctx) runAudit(budget int) {
	all := c.auditMutants()
	sample := all
	if len(all) > budget {
		r := rand.New(rand.NewSource(c.Seed))
		idx := r.Perm(len(all))[:budget]
		sort.Ints(idx)
		sample = nil
		for _, i := range idx {
			sample = append(sample, all[i])
		}
	}
	res := make([]auditResult, len(sample))
	base, berr := getBase()
	sem := make(chan struct{}, 6)
	var wg sync.WaitGroup
	for i, m := range sample {
		wg.Add(1)
		go func(i int, m auditMutant) {
			defer wg.Done()
			sem <- struct{}{}
			defer func() { <-sem }()
			r := auditResult{auditMutant: m}
			if berr != nil {
				r.Outcome = "does-not-compile"
				res[i] = r
				return
			}
			path := repoDir() + "/" + m.File
			src, err := os.ReadFile(path)
			if err != nil || m.End > len(src) {
				r.Outcome = "does-not-compile"
				res[i] = r
				return
			}
			ov := map[string][]byte{path: []byte(string(src[:m.Start]) + m.Repl + string(src[m.End:]))}
			st, _ := variantOutcome(base, c.Prop, ov)
			switch st {
			case "does-not-compile":
				r.Outcome = "does-not-compile"
			case "clean":
				r.Outcome = "survived"
			default:
				r.Outcome = "killed"
			}
			res[i] = r
		}(i, m)
	}
	wg.Wait()
	killed, survived, nocompile := 0, 0, 0
	var survivors, killedList []string
	for _, r := range res {
		switch r.Outcome {
		case "killed":
			killed++
			killedList = append(killedList, fmt.Sprintf("%s:%d %s [%s]", r.File, r.Line, r.Desc, r.Fn))
		case "survived":
			survived++
			survivors = append(survivors, fmt.Sprintf("%s:%d %s [%s]", r.File, r.Line, r.Desc, r.Fn))
		default:
			nocompile++
		}
	}
	c.Extra["sensitivity_audit"] = map[string]any{
		"catalogue":        len(all),
		"sampled":          len(sample),
		"killed":           killed,
		"survived":         survived,
		"does_not_compile": nocompile,
		"survivors":        survivors,
		"killed_list":      killedList,
		"note":             "systematic AST mutants of the analysed functions, applied through an overlay; informational: never changes the exit status (a survivor may be behaviour preserving or outside the decided clauses)",
	}
	fmt.Printf("%s audit: %d mutants in catalogue, %d sampled: %d killed, %d survived, %d do not compile\n", c.Prop, len(all), len(sample), killed, survived, nocompile)
}

var _ *ssa.Function
