package main

import (
	"fmt"
	"go/types"
	"sort"
	"strings"
)

// ---------------------------------------------------------------------------
// C04 — every withdrawal L2 records can be claimed on L1

// fitsUint64: the nil-return facts of a validator imply amount <= MaxUint64.
func fitsUint64(p *Path, amountKey string) bool {
	return p.HasFact(len(p.Events), func(a *Term, pol bool) bool {
		if a.Op == "call" && pol {
			switch {
			case strings.HasSuffix(a.Name, "(sdkmath.Int).IsUint64") && strip(a.Args[0]).Key() == amountKey:
				return true
			case strings.HasSuffix(a.Name, "(sdkmath.Int).LTE") && strip(a.Args[0]).Key() == amountKey && strings.Contains(a.Args[1].Key(), "18446744073709551615"):
				return true
			}
		}
		// !(BitLen > 64)  /  BitLen <= 64
		rf, ok := factRel(a, pol)
		isBitLen := func(t *Term) bool {
			k := t.Key()
			return k == "(sdkmath.Int).BitLen("+amountKey+")" || k == "(*math/big.Int).BitLen((sdkmath.Int).BigInt("+amountKey+"))"
		}
		if ok && isBitLen(rf.X) && rf.Y.Key() == "64" && rf.Rel&rGT == 0 {
			return true
		}
		if ok && isBitLen(rf.Y) && rf.X.Key() == "64" && rf.Rel&rLT == 0 {
			return true
		}
		return false
	})
}

func propC04(c *Ctx) {
	c.Clauses = append(c.Clauses,
		"width agreement: the L1 claim path narrows the amount to 64 bits (Int.Uint64 panics above 2^64-1); every entry point that can create a withdrawal (L1 deposit -> refund, L2 withdrawal) or submit a claim accepts only amounts with IsUint64",
		"the L2 withdrawal event carries every input of the L1 leaf (from, to, denom->base_denom, amount, l2_sequence) with request provenance",
		"refund withdrawals go from the L2 recipient string back to the L1 sender with the deposit's coin",
		"acceptance table: every field condition under which the L1 claim validator rejects is excluded by the L2 entry point or by the property's precondition")
	c.NotDecided = append(c.NotDecided, "completeness over tree sizes and leaf positions (the tree is built off-chain; C17 decides the order-independence that makes any position provable)", "validity of the L1 recipient address string (property precondition)")
	c.Assumptions = append(c.Assumptions, "A1", "A2", "A10")

	c.Rule("C04.R1", func() {
		// consumer: narrowing sites on the claim path
		fw := hostHandler(c, "FinalizeTokenWithdrawal")
		oc := c.Ob("C04.R1", "consumer: FinalizeTokenWithdrawal narrows req.Amount.Amount with Int.Uint64 (table of narrowing sites)")
		for _, p := range c.Paths(fw, hostPO) {
			oc.Paths++
			for i := range p.Events {
				ev := &p.Events[i]
				if ev.Call == nil {
					continue
				}
				ev.Call.Walk(func(x *Term) bool {
					if x.Op == "call" && strings.HasSuffix(x.Name, "(sdkmath.Int).Uint64") {
						oc.Sites++
						if strip(x.Args[0]).Key() != "req.Amount.Amount" {
							oc.Fail(c.evPos(ev), "unexpected narrowing of "+strip(x.Args[0]).Key(), nil)
						}
					}
					if x.Op == "call" && (strings.HasSuffix(x.Name, "(sdkmath.Int).Int64") || strings.HasSuffix(x.Name, "(*math/big.Int).Uint64") || strings.HasSuffix(x.Name, "(*math/big.Int).Int64")) && strings.Contains(x.Key(), "req.Amount") {
						oc.Fail(c.evPos(ev), "additional narrowing "+x.Name+" on the claim path (extend the producer table)", nil)
					}
					return true
				})
			}
		}
		if oc.Sites == 0 {
			oc.Note("no narrowing on the claim path: producers need no bound")
		}
		type prod struct{ pkg, typ, what string }
		for _, pr := range []prod{
			{hostTypes, "MsgInitiateTokenDeposit", "L1 deposit (becomes a refund withdrawal when it cannot be credited)"},
			{childTypes, "MsgInitiateTokenWithdrawal", "L2 user withdrawal"},
			{hostTypes, "MsgFinalizeTokenWithdrawal", "L1 claim (reject instead of panic)"},
		} {
			v := c.Method(pr.pkg, pr.typ, "Validate")
			o := c.Ob("C04.R1", "producer "+pr.pkg+"."+pr.typ+".Validate: nil only with Amount.Amount.IsUint64() ["+pr.what+"]")
			nOK := 0
			for _, p := range c.Paths(v, PO{Params: []string{"msg", "ac"}, Visits: 3}) {
				o.Paths++
				o.Facts += p.NFacts()
				if !p.OK() || p.Panic {
					continue
				}
				nOK++
				o.Sites++
				if oc.Sites > 0 && !fitsUint64(p, "msg.Amount.Amount") {
					o.Fail(c.W.Pos(v.Pos()), "accepts amounts that do not fit 64 bits although the L1 claim narrows the amount with Uint64() (such a transfer can never be completed)", c.Dump(p, -1))
				}
			}
			if nOK == 0 {
				o.Fail(c.W.Pos(v.Pos()), "no nil-return path", nil)
			}
		}
	})

	c.Rule("C04.R2", func() {
		// decided at the handler (whatever private helper builds the event is inlined)
		em := childHandler(c, "InitiateTokenWithdrawal")
		o := c.Ob("C04.R2", "InitiateTokenWithdrawal: exactly one initiate_token_withdrawal event on success, none on failure, carrying every leaf input with request provenance")
		nOK := 0
		for _, p := range c.Paths(em, PO{Params: hParams, NoInline: []string{".Validate", "GetBaseDenom"}}) {
			o.Paths++
			o.Facts += p.NFacts()
			idx, views, und := emitted(p)
			if len(und) > 0 {
				o.Undecide("event not decodable")
				continue
			}
			var wi []int
			for k, v := range views {
				if v.Type == "initiate_token_withdrawal" {
					wi = append(wi, k)
				}
			}
			if !p.OK() || p.Panic {
				continue // a failing message reverts as a whole (A2): its events are discarded with it
			}
			nOK++
			if len(wi) != 1 {
				o.Fail(c.W.Pos(em.Pos()), fmt.Sprintf("%d withdrawal events on success", len(wi)), c.Dump(p, -1))
				continue
			}
			o.Sites++
			v := views[wi[0]]
			checkEvent(c, o, p, idx[wi[0]], v, map[string]string{
				"from": "req.Sender", "to": "req.To", "denom": "req.Amount.Denom",
				"base_denom": "(opchild/keeper.Keeper).GetBaseDenom(ms.Keeper, ctx, req.Amount.Denom).0",
				"amount":     "(sdkmath.Int).String(req.Amount.Amount)",
			})
			if sq := strip(v.Attrs["l2_sequence"]); sq == nil || !strings.HasPrefix(sq.Key(), "strconv.FormatUint(") || !strings.Contains(sq.Key(), "NextL2Sequence") && !strings.Contains(sq.Key(), ", 10)") {
				o.Fail(c.evPos(&p.Events[idx[wi[0]]]), "l2_sequence attribute is not the decimal form of the allocated L2 sequence", c.Dump(p, -1))
			}
		}
		if nOK == 0 {
			o.Fail(c.W.Pos(em.Pos()), "no success path", nil)
		}
		// schema: the event covers every non-proof input of the L1 claim message
		o2 := c.Ob("C04.R2", "schema: withdrawal event attributes cover the leaf inputs of MsgFinalizeTokenWithdrawal")
		leaf := map[string]string{"Sequence": "l2_sequence", "From": "from", "To": "to", "Amount": "amount+base_denom"}
		pkg := c.W.ByPath[modPath+"/x/"+hostTypes]
		st, ok := pkg.Types.Scope().Lookup("MsgFinalizeTokenWithdrawal").Type().Underlying().(*types.Struct)
		if !ok {
			panic(anchorErr{"MsgFinalizeTokenWithdrawal struct"})
		}
		nonLeaf := setOf("Sender", "BridgeId", "OutputIndex", "WithdrawalProofs", "Version", "StorageRoot", "LastBlockHash")
		for i := 0; i < st.NumFields(); i++ {
			f := st.Field(i).Name()
			o2.Sites++
			if _, ok := leaf[f]; !ok && !nonLeaf[f] {
				o2.Fail(c.W.Pos(st.Field(i).Pos()), "claim message field "+f+" has no source in the L2 withdrawal event (schema table)", nil)
			}
		}
	})

	c.Rule("C04.R3", func() {
		fn := childHandler(c, "FinalizeTokenDeposit")
		// decided at what L1 will see: the refund's withdrawal event (however the message
		// value that carries it is built - constructor or literal)
		o := c.Ob("C04.R3", "FinalizeTokenDeposit: the refund is announced as a withdrawal from req.To to req.From of req.Amount (denom and amount verbatim)")
		for _, p := range c.Paths(fn, ftdPO) {
			o.Paths++
			if !p.OK() || p.Panic {
				continue
			}
			_, views, _ := emitted(p)
			for _, v := range views {
				if v.Type != "initiate_token_withdrawal" {
					continue
				}
				o.Sites++
				got := func(k string) string {
					if v.Attrs[k] == nil {
						return "<missing>"
					}
					return strip(v.Attrs[k]).Key()
				}
				if got("from") != "req.To" || got("to") != "req.From" || got("denom") != "req.Amount.Denom" || got("amount") != "(sdkmath.Int).String(req.Amount.Amount)" {
					o.Fail(c.W.Pos(fn.Pos()), "refund announced as (from "+trunc(got("from"), 60)+", to "+trunc(got("to"), 60)+", "+trunc(got("amount"), 60)+" "+trunc(got("denom"), 60)+")", c.Dump(p, -1))
				}
			}
		}
		if o.Sites == 0 {
			o.Fail(c.W.Pos(fn.Pos()), "no refund withdrawal event on any success path", nil)
		}
		if nm := c.W.Func(childTypes, "NewMsgInitiateTokenWithdrawal"); nm != nil {
			o2 := c.Ob("C04.R3", "NewMsgInitiateTokenWithdrawal assigns (Sender, To, Amount) from its parameters in order")
			for _, p := range c.Paths(nm, PO{Params: []string{"a", "b", "c"}}) {
				o2.Paths++
				o2.Sites++
				rv := p.RetVal[0]
				for f, w := range map[string]string{"Sender": "a", "To": "b", "Amount": "c"} {
					if got := project(rv, f, nil).Key(); got != w {
						o2.Fail(c.W.Pos(nm.Pos()), "field "+f+" is "+got+", want parameter "+w, nil)
					}
				}
			}
		}
	})

	c.Rule("C04.R6", func() { routedEventsForwarded(c, "C04.R6") })

	c.Rule("C04.R5", func() { verbatimLeaf(c, "C04.R5") })
	// every leaf position of every tree size is provable: the documented tree pairs a
	// sibling-less node with itself, so the node hash must cover the "equal" outcome too
	c.Rule("C04.R7", func() { nodeHashAndFold(c, "C04.R7") })
	// a tree with a single withdrawal has that leaf as its root and an EMPTY proof: the claim
	// validator must accept a claim without proof items
	c.Rule("C04.R8", func() {
		v := c.Method(hostTypes, "MsgFinalizeTokenWithdrawal", "Validate")
		o := c.Ob("C04.R8", "MsgFinalizeTokenWithdrawal.Validate accepts an empty proof list (single-leaf trees are claimable)")
		okEmpty := false
		for _, p := range c.Paths(v, PO{Params: []string{"msg", "ac"}, Visits: 4}) {
			o.Paths++
			if !p.OK() || p.Panic {
				continue
			}
			o.Sites++
			rel, n := p.Relation(len(p.Events), keyIs("builtin.len(msg.WithdrawalProofs)"), keyIs("0"))
			if n == 0 || rel&rEQ != 0 {
				okEmpty = true
			}
		}
		if !okEmpty {
			o.Fail(c.W.Pos(v.Pos()), "every accepting path requires at least one proof item: the only valid claim of a single-leaf tree (empty proof) is rejected", nil)
		}
	})
	c.Extra["transport_agreement"] = "L2 event attributes (from,to,denom->base_denom,amount,l2_sequence) are the verbatim inputs of the L1 leaf (C04.R2 + C04.R5)"

	c.Rule("C04.R4", func() {
		// acceptance mismatch table: L1 Validate rejection conditions vs. what L2 accepted
		o := c.Ob("C04.R4", "acceptance table: L2 withdrawal validator excludes every amount/recipient condition the L1 claim validator rejects")
		v2 := c.Method(childTypes, "MsgInitiateTokenWithdrawal", "Validate")
		for _, p := range c.Paths(v2, PO{Params: []string{"msg", "ac"}}) {
			o.Paths++
			o.Facts += p.NFacts()
			if !p.OK() || p.Panic {
				continue
			}
			o.Sites++
			pos := p.HasFact(len(p.Events), func(a *Term, pol bool) bool { return pol && a.Key() == "(sdk.Coin).IsPositive(msg.Amount)" })
			valid := p.HasFact(len(p.Events), func(a *Term, pol bool) bool { return pol && a.Key() == "(sdk.Coin).IsValid(msg.Amount)" })
			toNonEmpty := p.HasFact(len(p.Events), func(a *Term, pol bool) bool { return !pol && eqAtom(a, "msg.To", `""`) })
			if !pos || !valid || !toNonEmpty {
				o.Fail(c.W.Pos(v2.Pos()), fmt.Sprintf("L2 accepts a withdrawal L1 would reject: positive=%v valid=%v non-empty recipient=%v", pos, valid, toNonEmpty), c.Dump(p, -1))
			}
		}
		c.Extra["acceptance_table"] = []map[string]string{
			{"l1_rejects": "amount zero or invalid", "excluded_by": "opchild MsgInitiateTokenWithdrawal.Validate: IsValid && IsPositive"},
			{"l1_rejects": "amount wider than 64 bits (Uint64 panic)", "excluded_by": "C04.R1 IsUint64 bound at all three entry points"},
			{"l1_rejects": "recipient not a valid L1 address", "excluded_by": "property precondition (valid L1 recipient)"},
			{"l1_rejects": "empty from", "excluded_by": "L2 signer address is never empty (Validate decodes msg.Sender)"},
		}
	})
}

// ---------------------------------------------------------------------------
// C08 — end-to-end solvency (four-leg structure and schema agreement)

func propC08(c *Ctx) {
	c.Clauses = append(c.Clauses,
		"four legs, exactly one site each: lock (ophost deposit SendCoins), mint (opchild safeDepositToken MintCoins of the coins the handler passes = NewCoins(req.Amount)), burn (opchild withdrawal / refund BurnCoins), release (ophost finalize SendCoins)",
		"amount identity per leg: the value that feeds the bank effect is the value that feeds the transport (event attribute / leaf hash) of that leg",
		"transport schemas agree across modules by wire value: initiate_token_deposit attributes cover the inputs of MsgFinalizeTokenDeposit; initiate_token_withdrawal attributes cover the leaf inputs of MsgFinalizeTokenWithdrawal; attribute key strings are pinned",
		"the L2 denom derivation is used consistently (event l2_denom, TokenPairs key, finalize event)")
	c.NotDecided = append(c.NotDecided, "the cross-chain equation itself under interleavings of relays, proposals and claims: it needs a two-chain execution and is outside static analysis; the clauses above are necessary conditions (breaking any of them breaks the equation)")
	c.Assumptions = append(c.Assumptions, "A1", "A2", "A3", "A4", "faithful relayer (property precondition)", "A10")
	// a claim paid on L1 stays paid across an L1 genesis round trip (else the escrow pays twice)
	defer exportFreshness(c, "C08.R6", "ophost")

	c.Rule("C08.R1", func() {
		// lock leg
		dep := hostHandler(c, "InitiateTokenDeposit")
		o := c.Ob("C08.R1", "lock leg: the coin moved into escrow is the coin announced (amount, denom) by the deposit event")
		for _, p := range c.Paths(dep, hostPO) {
			o.Paths++
			if !p.OK() || p.Panic {
				continue
			}
			idx, views, _ := emitted(p)
			sends := p.Find(func(ev *Event) bool { return ev.Kind == EvCall && isCall(ev, "(ophost/types.BankKeeper).SendCoins") })
			if len(idx) != 1 {
				o.Fail(c.W.Pos(dep.Pos()), "success without exactly one event", c.Dump(p, -1))
				continue
			}
			o.Sites++
			v := views[0]
			if strip(v.Attrs["amount"]).Key() != "(sdkmath.Int).String(req.Amount.Amount)" || strip(v.Attrs["l1_denom"]).Key() != "req.Amount.Denom" {
				o.Fail(c.evPos(&p.Events[idx[0]]), "event announces ("+strip(v.Attrs["amount"]).Key()+", "+strip(v.Attrs["l1_denom"]).Key()+")", c.Dump(p, -1))
			}
			for _, i := range sends {
				if !coinsAre(p.Events[i].Call.Args[4], "req.Amount") {
					o.Fail(c.evPos(&p.Events[i]), "locks "+trunc(p.Events[i].Call.Args[4].Key(), 100)+" but announces req.Amount", c.Dump(p, -1))
				}
			}
		}
		// mint leg
		ftd := childHandler(c, "FinalizeTokenDeposit")
		o2 := c.Ob("C08.R1", "mint leg: safeDepositToken receives (decoded req.To, NewCoins(req.Amount)) and mints exactly its coins parameter")
		for _, p := range c.Paths(ftd, ftdPO) {
			o2.Paths++
			for _, i := range p.Find(func(ev *Event) bool { return ev.Kind == EvCall && isCall(ev, ").safeDepositToken") }) {
				o2.Sites++
				a := callRoles(&p.Events[i], depRoles)
				if a["toAddr"] == nil || a["coins"] == nil {
					o2.Fail(c.evPos(&p.Events[i]), "recipient / coins arguments of safeDepositToken not found by type", c.Dump(p, i))
					continue
				}
				if dd := decodedFrom(a["toAddr"]); dd == nil || dd.Key() != "req.To" || !coinsAre(a["coins"], "req.Amount") {
					o2.Fail(c.evPos(&p.Events[i]), "credits "+trunc(a["coins"].Key(), 100)+" to "+trunc(a["toAddr"].Key(), 100), c.Dump(p, i))
				}
			}
		}
		if o2.Sites == 0 {
			o2.Fail(c.W.Pos(ftd.Pos()), "no safeDepositToken call", nil)
		}
		sd := c.Method(childKeeper, "MsgServer", "safeDepositToken")
		for _, p := range c.Paths(sd, PO{Params: []string{"ms"}, Roles: depRoles}) {
			for _, i := range p.Find(func(ev *Event) bool { return ev.Kind == EvCall && isCall(ev, "BankKeeper).MintCoins") }) {
				o2.Sites++
				if p.Events[i].Call.Args[3].Key() != "coins" {
					o2.Fail(c.evPos(&p.Events[i]), "mints "+p.Events[i].Call.Args[3].Key()+" instead of the coins it was given", c.Dump(p, i))
				}
			}
			for _, i := range p.Find(func(ev *Event) bool {
				return ev.Kind == EvCall && isCall(ev, "BankKeeper).SendCoinsFromModuleToAccount")
			}) {
				if p.Events[i].Call.Args[4].Key() != "coins" || p.Events[i].Call.Args[3].Key() != "toAddr" {
					o2.Fail(c.evPos(&p.Events[i]), "forwards "+p.Events[i].Call.Args[4].Key()+" to "+p.Events[i].Call.Args[3].Key(), c.Dump(p, i))
				}
			}
		}
		// burn leg: amount burned = amount announced
		wd := childHandler(c, "InitiateTokenWithdrawal")
		o3 := c.Ob("C08.R1", "burn leg: the coins burned are the coins the withdrawal event announces")
		for _, p := range c.Paths(wd, PO{Params: hParams, NoInline: []string{".Validate", "GetBaseDenom"}}) {
			o3.Paths++
			if !p.OK() || p.Panic {
				continue
			}
			idx, views, _ := emitted(p)
			burns := p.Find(func(ev *Event) bool { return ev.Kind == EvCall && isCall(ev, "BankKeeper).BurnCoins") })
			if len(idx) != 1 || len(burns) != 1 {
				o3.Fail(c.W.Pos(wd.Pos()), "success without exactly one burn and one event", c.Dump(p, -1))
				continue
			}
			o3.Sites++
			if !coinsAre(p.Events[burns[0]].Call.Args[3], "req.Amount") || strip(views[0].Attrs["amount"]).Key() != "(sdkmath.Int).String(req.Amount.Amount)" || strip(views[0].Attrs["denom"]).Key() != "req.Amount.Denom" {
				o3.Fail(c.evPos(&p.Events[burns[0]]), "burned coins and announced (amount, denom) differ", c.Dump(p, -1))
			}
		}
		// refund leg (failed deposit): what is reclaimed and burned is exactly the deposited coin,
		// and that is the amount the refund withdrawal announces - never more, never less
		fd := childHandler(c, "FinalizeTokenDeposit")
		o6 := c.Ob("C08.R1", "refund leg: every refund withdrawal is announced from the relayed recipient (req.To) to the depositor (req.From), verbatim")
		o5 := c.Ob("C08.R1", "refund leg: a failed deposit that was minted is reclaimed and burned for exactly NewCoins(req.Amount), the amount its refund withdrawal announces")
		for _, p := range c.Paths(fd, PO{Params: hParams, NoInline: []string{".Validate", "checkBridgeExecutorPermission", "handleBridgeHook", "safeDepositToken", "setDenomMetadata", "GetBaseDenom"}}) {
			o5.Paths++
			if !p.OK() || p.Panic {
				continue
			}
			// any refund (credited or not) is claimable on L1 only if it is announced from the
			// relayed L2 recipient string back to the L1 depositor string, verbatim
			if _, vs, _ := emitted(p); true {
				for _, v := range vs {
					if v.Type != "initiate_token_withdrawal" {
						continue
					}
					o6.Sites++
					if strip(v.Attrs["from"]).Key() != "req.To" || strip(v.Attrs["to"]).Key() != "req.From" {
						o6.Fail(c.W.Pos(fd.Pos()), "refund announced from "+trunc(strip(v.Attrs["from"]).Key(), 80)+" to "+trunc(strip(v.Attrs["to"]).Key(), 80)+" (want the relayed req.To back to req.From): the escrowed coins could never be claimed", c.Dump(p, -1))
					}
				}
			}
			burns := p.Find(func(ev *Event) bool { return ev.Kind == EvCall && isCall(ev, "BankKeeper).BurnCoins") })
			takes := p.Find(func(ev *Event) bool {
				return ev.Kind == EvCall && isCall(ev, "BankKeeper).SendCoinsFromAccountToModule")
			})
			if len(burns) == 0 && len(takes) == 0 {
				continue
			}
			o5.Sites++
			if len(burns) != 1 || len(takes) != 1 {
				o5.Fail(c.W.Pos(fd.Pos()), fmt.Sprintf("refund path with %d reclaim and %d burn calls (want 1 and 1)", len(takes), len(burns)), c.Dump(p, -1))
				continue
			}
			if !coinsAre(p.Events[burns[0]].Call.Args[3], "req.Amount") || !coinsAre(p.Events[takes[0]].Call.Args[4], "req.Amount") {
				o5.Fail(c.evPos(&p.Events[burns[0]]), "refund reclaims "+trunc(p.Events[takes[0]].Call.Args[4].Key(), 100)+" and burns "+trunc(p.Events[burns[0]].Call.Args[3].Key(), 100)+", want NewCoins(req.Amount) for both", c.Dump(p, -1))
			}
			_, views, _ := emitted(p)
			announced := false
			for _, v := range views {
				if v.Type == "initiate_token_withdrawal" {
					announced = strip(v.Attrs["amount"]).Key() == "(sdkmath.Int).String(req.Amount.Amount)" && strip(v.Attrs["denom"]).Key() == "req.Amount.Denom"
				}
			}
			if !announced {
				o5.Fail(c.W.Pos(fd.Pos()), "the burned refund is not announced by a withdrawal event carrying (req.Amount.Denom, req.Amount.Amount)", c.Dump(p, -1))
			}
		}
		if o5.Sites == 0 {
			o5.Fail(c.W.Pos(fd.Pos()), "no refund path with a burn found (floor 1)", nil)
		}
		if o6.Sites == 0 {
			o6.Fail(c.W.Pos(fd.Pos()), "no refund withdrawal event found (floor 1)", nil)
		}
		// release leg: the amount paid is the amount hashed into the leaf (C03.R2)
		fw := hostHandler(c, "FinalizeTokenWithdrawal")
		o4 := c.Ob("C08.R1", "release leg: the coin released is the (denom, amount) committed in the proven leaf")
		for _, p := range c.Paths(fw, hostPO) {
			o4.Paths++
			i := payoutIdx(p)
			if i < 0 {
				continue
			}
			o4.Sites++
			if !coinsAre(p.Events[i].Call.Args[4], "sdk.NewCoin(req.Amount.Denom, req.Amount.Amount)") && !coinsAre(p.Events[i].Call.Args[4], "req.Amount") {
				o4.Fail(c.evPos(&p.Events[i]), "releases "+trunc(p.Events[i].Call.Args[4].Key(), 120), c.Dump(p, i))
			}
			okHash := false
			for j := 0; j < i; j++ {
				if p.Events[j].Call != nil {
					p.Events[j].Call.Walk(func(x *Term) bool {
						if ok, _ := isClaimHash(x); ok {
							okHash = true
						}
						return !okHash
					})
				}
			}
			if !okHash {
				o4.Fail(c.evPos(&p.Events[i]), "payout without a leaf hash over (req.Amount.Denom, Uint64(req.Amount.Amount))", c.Dump(p, i))
			}
		}
		if o4.Sites == 0 {
			o4.Fail(c.W.Pos(fw.Pos()), "no payout", nil)
		}
	})

	c.Rule("C08.R2", func() {
		// pinned wire schema (relayer API): attribute key -> message field it feeds
		depositSchema := map[string]string{"from": "From", "to": "To", "amount": "Amount.Amount", "l2_denom": "Amount.Denom", "l1_denom": "BaseDenom", "l1_sequence": "Sequence", "data": "Data"}
		withdrawSchema := map[string]string{"from": "From", "to": "To", "amount": "Amount.Amount", "base_denom": "Amount.Denom", "l2_sequence": "Sequence"}
		// (1) the attribute key constants still have the pinned wire values
		o := c.Ob("C08.R2", "attribute key constants keep their wire values in both modules")
		pin := map[string]map[string]string{
			hostTypes:  {"EventTypeInitiateTokenDeposit": "initiate_token_deposit", "AttributeKeyFrom": "from", "AttributeKeyTo": "to", "AttributeKeyAmount": "amount", "AttributeKeyL1Denom": "l1_denom", "AttributeKeyL2Denom": "l2_denom", "AttributeKeyData": "data", "AttributeKeyL1Sequence": "l1_sequence", "AttributeKeyL2Sequence": "l2_sequence", "AttributeKeyBridgeId": "bridge_id", "EventTypeFinalizeTokenWithdrawal": "finalize_token_withdrawal"},
			childTypes: {"EventTypeInitiateTokenWithdrawal": "initiate_token_withdrawal", "EventTypeFinalizeTokenDeposit": "finalize_token_deposit", "AttributeKeyFrom": "from", "AttributeKeyTo": "to", "AttributeKeyAmount": "amount", "AttributeKeyDenom": "denom", "AttributeKeyBaseDenom": "base_denom", "AttributeKeyL2Sequence": "l2_sequence", "AttributeKeyL1Sequence": "l1_sequence"},
		}
		for pk, m := range pin {
			for _, k := range sortedKeys(m) {
				o.Sites++
				if got := c.constVal(pk, k); got != m[k] {
					o.Fail("-", pk+"."+k+" = "+got+", pinned wire value "+m[k]+" (relayers parse events by these strings)", nil)
				}
			}
		}
		// (2) emitted deposit event covers the schema and the consumer message has the fields
		dep := hostHandler(c, "InitiateTokenDeposit")
		o2 := c.Ob("C08.R2", "initiate_token_deposit carries every input of opchild MsgFinalizeTokenDeposit")
		for _, p := range c.Paths(dep, hostPO) {
			o2.Paths++
			if !p.OK() || p.Panic {
				continue
			}
			_, views, _ := emitted(p)
			for _, v := range views {
				if v.Type != "initiate_token_deposit" {
					continue
				}
				o2.Sites++
				for k := range depositSchema {
					if _, ok := v.Attrs[k]; !ok {
						o2.Fail(c.W.Pos(dep.Pos()), "deposit event lacks "+k+" (needed for MsgFinalizeTokenDeposit."+depositSchema[k]+")", nil)
					}
				}
			}
		}
		if o2.Sites == 0 {
			o2.Fail(c.W.Pos(dep.Pos()), "no deposit event", nil)
		}
		checkFields := func(o *Obl, pkgS, typ string, schema map[string]string) {
			pkg := c.W.ByPath[modPath+"/x/"+pkgS]
			obj := pkg.Types.Scope().Lookup(typ)
			if obj == nil {
				panic(anchorErr{typ})
			}
			st := obj.Type().Underlying().(*types.Struct)
			have := map[string]bool{}
			for i := 0; i < st.NumFields(); i++ {
				have[st.Field(i).Name()] = true
			}
			var ks []string
			for k := range schema {
				ks = append(ks, k)
			}
			sort.Strings(ks)
			for _, k := range ks {
				f := strings.Split(schema[k], ".")[0]
				o.Sites++
				if !have[f] {
					o.Fail(c.W.Pos(obj.Pos()), typ+" has no field "+f+" for event attribute "+k, nil)
				}
			}
		}
		checkFields(o2, childTypes, "MsgFinalizeTokenDeposit", depositSchema)
		o3 := c.Ob("C08.R2", "initiate_token_withdrawal carries every leaf input of ophost MsgFinalizeTokenWithdrawal")
		em := childHandler(c, "InitiateTokenWithdrawal")
		for _, p := range c.Paths(em, PO{Params: hParams, NoInline: []string{".Validate", "GetBaseDenom"}}) {
			o3.Paths++
			if !p.OK() || p.Panic {
				continue
			}
			_, views, _ := emitted(p)
			for _, v := range views {
				if v.Type != "initiate_token_withdrawal" {
					continue
				}
				o3.Sites++
				for k := range withdrawSchema {
					if _, ok := v.Attrs[k]; !ok {
						o3.Fail(c.W.Pos(em.Pos()), "withdrawal event lacks "+k+" (needed for MsgFinalizeTokenWithdrawal."+withdrawSchema[k]+")", nil)
					}
				}
			}
		}
		checkFields(o3, hostTypes, "MsgFinalizeTokenWithdrawal", withdrawSchema)
	})

	c.Rule("C08.R4", func() { hookEffectsContained(c, "C08.R4") })
	c.Rule("C08.R5", func() { layoutRule(c, "C08.R5", []string{"L2Denom", "BridgeAddress"}) })

	c.Rule("C08.R3", func() {
		dep := hostHandler(c, "InitiateTokenDeposit")
		o := c.Ob("C08.R3", "L2 denom derivation L2Denom(req.BridgeId, l1 denom) is the one value used for the event, the token-pair key and the finalize event")
		want := "ophost/types.L2Denom(req.BridgeId, req.Amount.Denom)"
		for _, p := range c.Paths(dep, hostPO) {
			o.Paths++
			if !p.OK() || p.Panic {
				continue
			}
			_, views, _ := emitted(p)
			for _, v := range views {
				o.Sites++
				if strip(v.Attrs["l2_denom"]).Key() != want {
					o.Fail(c.W.Pos(dep.Pos()), "event l2_denom is "+strip(v.Attrs["l2_denom"]).Key(), nil)
				}
			}
			for _, i := range collEvents(p, len(p.Events), "TokenPairs", "Has") {
				o.Sites++
				if k := strip(p.Events[i].Call.Args[2]); k.Op != "call" || len(k.Args) != 2 || strip(k.Args[1]).Key() != want {
					o.Fail(c.evPos(&p.Events[i]), "token pair keyed by "+trunc(k.Key(), 120), nil)
				}
			}
		}
		fw := hostHandler(c, "FinalizeTokenWithdrawal")
		for _, p := range c.Paths(fw, hostPO) {
			if !p.OK() || p.Panic {
				continue
			}
			_, views, _ := emitted(p)
			for _, v := range views {
				o.Sites++
				if strip(v.Attrs["l2_denom"]).Key() != want || strip(v.Attrs["l1_denom"]).Key() != "req.Amount.Denom" {
					o.Fail(c.W.Pos(fw.Pos()), "finalize event denoms are ("+strip(v.Attrs["l1_denom"]).Key()+", "+strip(v.Attrs["l2_denom"]).Key()+")", nil)
				}
			}
		}
		if o.Sites < 3 {
			o.Fail("-", "fewer than 3 derivation uses examined", nil)
		}
	})
}

// verbatimLeaf: the leaf the L1 verifier proves is GenerateWithdrawalHash over the claim's own
// fields, byte for byte (shared by C04 - recorded withdrawals stay provable - and C17 - the
// chain computes the commitment an independent implementation computes for the same claim).
func verbatimLeaf(c *Ctx, rule string) {
		// the L1 verifier must hash the event's fields verbatim: any transformation between the
		// L2 event (which the off-chain tree builder uses) and the L1 leaf strands recorded withdrawals
		fw := hostHandler(c, "FinalizeTokenWithdrawal")
		o := c.Ob(rule, "FinalizeTokenWithdrawal: the proven leaf is GenerateWithdrawalHash over the verbatim request fields (bridge id, sequence, from, to, denom, amount) - the same strings the L2 event carries")
		for _, p := range c.Paths(fw, hostPO) {
			o.Paths++
			o.Facts += p.NFacts()
			i := payoutIdx(p)
			if i < 0 {
				continue
			}
			o.Sites++
			found, why := false, ""
			for j := 0; j < i; j++ {
				if p.Events[j].Kind != EvFact || !p.Events[j].Pol {
					continue
				}
				args := callAtom(p.Events[j].Cond, "bytes.Equal")
				for _, a := range args {
					a = strip(a)
					if a.Op == "call" && a.Name == proofFn {
						if ok, w := isClaimHash(a.Args[0]); ok {
							found = true
						} else {
							why = w
						}
					}
				}
			}
			if !found {
				o.Fail(c.evPos(&p.Events[i]), "the leaf verified on L1 is not built from the verbatim claim fields ("+why+"): withdrawals recorded on L2 with the original strings cannot be proven", c.Dump(p, i))
			}
		}
		if o.Sites == 0 {
			o.Fail(c.W.Pos(fw.Pos()), "no payout path", nil)
		}
		c.Extra["transport_agreement"] = "L2 event attributes (from,to,denom->base_denom,amount,l2_sequence) are the verbatim inputs of the L1 leaf (C04.R2 + C04.R5)"
}
