package main

import (
	"os/exec"
	"encoding/json"
	"fmt"
	"os"
	"path/filepath"
	"sort"
	"sync"
)

// Witness: a pinned mutant (or benign variant) of /repo applied through an
// overlay, never written to /repo.
type Witness struct {
	Name   string   `json:"name"`
	Edits  []string `json:"edits"`  // relpath:::old:::new
	Expect string   `json:"expect"` // rule id that must fire ("" = benign: must stay silent)
	Note   string   `json:"note,omitempty"`
}

type WitnessResult struct {
	Name    string   `json:"name"`
	Expect  string   `json:"expect"`
	Outcome string   `json:"outcome"` // detected | missed | silent | false-alarm | skipped | wrong-rule
	Fired   []string `json:"fired,omitempty"`
}

func loadWitnesses(prop string) []Witness {
	b, err := os.ReadFile(filepath.Join(verifDir(), "witness", prop+".json"))
	if err != nil {
		return nil
	}
	var ws []Witness
	if err := json.Unmarshal(b, &ws); err != nil {
		fmt.Println("bad witness file for", prop, err)
		os.Exit(2)
	}
	return ws
}

// variantOutcome: run prop on base with an overlay; returns fired rule ids and a status.
func variantOutcome(base *World, prop string, overlay map[string][]byte) (status string, fired []string) {
	w, err := LoadVariant(base, overlay)
	if err != nil {
		if os.Getenv("VERIF_DEBUG") != "" {
			fmt.Println("variant load error:", err)
		}
		return "does-not-compile", nil
	}
	defer releaseWorld(w) // the process-wide caches must not keep this variant's program alive
	c := runProp(w, prop, "quick", 1)
	viol, und, _ := c.Verdict()
	f := map[string]bool{}
	for _, o := range viol {
		f[o.Rule] = true
	}
	for _, o := range und {
		f[o.Rule] = true
	}
	if len(f) == 0 {
		return "clean", nil
	}
	return "fired", keysOf(f)
}

var baseWorld *World
var baseOnce sync.Once
var baseErr error

func getBase() (*World, error) {
	baseOnce.Do(func() { baseWorld, baseErr = Load(LoadOpts{}) })
	return baseWorld, baseErr
}

func runWitnesses(prop, tier string) []WitnessResult {
	ws := loadWitnesses(prop)
	res := make([]WitnessResult, len(ws))
	base, err := getBase()
	if err != nil {
		for i, w := range ws {
			res[i] = WitnessResult{Name: w.Name, Expect: w.Expect, Outcome: "skipped(base load failed)"}
		}
		return res
	}
	sem := make(chan struct{}, 4) // each in-flight variant holds a type-checked program (~1.5 GB)
	var wg sync.WaitGroup
	for i, w := range ws {
		wg.Add(1)
		go func(i int, w Witness) {
			defer wg.Done()
			sem <- struct{}{}
			defer func() { <-sem }()
			r := WitnessResult{Name: w.Name, Expect: w.Expect}
			ov, err := buildOverlay(w.Edits)
			if err != nil {
				r.Outcome = "skipped"
				res[i] = r
				return
			}
			st, fired := variantOutcome(base, prop, ov)
			r.Fired = fired
			has := false
			for _, f := range fired {
				if f == w.Expect {
					has = true
				}
			}
			switch {
			case st == "does-not-compile":
				r.Outcome = "skipped(does-not-compile)"
			case w.Expect == "" && st == "clean":
				r.Outcome = "silent"
			case w.Expect == "":
				r.Outcome = "false-alarm"
			case st == "clean":
				r.Outcome = "missed"
			case has:
				r.Outcome = "detected"
			default:
				r.Outcome = "wrong-rule"
			}
			res[i] = r
		}(i, w)
	}
	wg.Wait()
	return res
}

func runSelftest(prop, tier string) int {
	var ps []string
	if prop != "" {
		ps = []string{prop}
	} else {
		// one child process per property: thousands of type-checked variants in one address
		// space exhaust the machine's memory
		rc := 0
		for _, p := range sortedKeys(props) {
			cmd := exec.Command(os.Args[0], "-selftest", "-prop", p, "-tier", tier)
			cmd.Stdout, cmd.Stderr = os.Stdout, os.Stderr
			if err := cmd.Run(); err != nil {
				rc = 1
			}
		}
		if rc == 0 {
			fmt.Println("selftest: all properties as expected")
		}
		return rc
	}
	bad := 0
	for _, p := range ps {
		rs := runWitnesses(p, tier)
		sort.SliceStable(rs, func(i, j int) bool { return rs[i].Name < rs[j].Name })
		for _, r := range rs {
			ok := r.Outcome == "detected" || r.Outcome == "silent"
			if !ok {
				bad++
			}
			fmt.Printf("%-4s %-70s expect=%-8s %-12s %v\n", p, r.Name, r.Expect, r.Outcome, r.Fired)
		}
	}
	if bad > 0 {
		fmt.Printf("selftest: %d witnesses not as expected\n", bad)
		return 1
	}
	fmt.Println("selftest: all witnesses as expected")
	return 0
}
