package main

import (
	"encoding/json"
	"fmt"
	"os"
	"os/exec"
	"path/filepath"
	"sort"
	"strings"
	"sync"
)

// Witness: a pinned mutant (or benign variant) of /repo applied through an
// overlay, never written to /repo.
type Witness struct {
	Name   string   `json:"name"`
	Edits  []string `json:"edits"`  // relpath:::old:::new
	Expect string   `json:"expect"` // rule id that must fire ("" = benign: must stay silent)
	Note   string   `json:"note,omitempty"`
}

type WitnessResult struct {
	Name     string `json:"name"`
	Expect   string `json:"expect"`
	Outcome  string `json:"outcome"` // detected | missed | silent | false-alarm | skipped | wrong-rule
	Fired    []string `json:"fired,omitempty"`
}

func loadWitnesses(prop string) []Witness {
	b, err := os.ReadFile(filepath.Join(verifDir(), "witness", prop+".json"))
	if err != nil {
		return nil
	}
	var ws []Witness
	if err := json.Unmarshal(b, &ws); err != nil {
		fmt.Println("bad witness file for", prop, err)
		os.Exit(2)
	}
	return ws
}

func runWitnesses(prop, tier string) []WitnessResult {
	ws := loadWitnesses(prop)
	res := make([]WitnessResult, len(ws))
	exe, _ := os.Executable()
	sem := make(chan struct{}, 8)
	var wg sync.WaitGroup
	for i, w := range ws {
		wg.Add(1)
		go func(i int, w Witness) {
			defer wg.Done()
			sem <- struct{}{}
			defer func() { <-sem }()
			args := []string{"-prop", prop, "-tier", "quick"}
			for _, e := range w.Edits {
				args = append(args, "-mutate", e)
			}
			cmd := exec.Command(exe, args...)
			cmd.Env = append(os.Environ(), "VERIF_DIR="+verifDir())
			out, _ := cmd.CombinedOutput()
			r := WitnessResult{Name: w.Name, Expect: w.Expect}
			code := cmd.ProcessState.ExitCode()
			fired := map[string]bool{}
			for _, l := range strings.Split(string(out), "\n") {
				for _, k := range []string{"VIOLATED ", "UNDECIDED "} {
					if strings.HasPrefix(l, k) {
						f := strings.Fields(l)
						if len(f) > 1 {
							fired[f[1]] = true
						}
					}
				}
			}
			r.Fired = keysOf(fired)
			switch {
			case code == 3 || strings.Contains(string(out), "MUTATION-NOT-APPLICABLE"):
				r.Outcome = "skipped"
			case strings.Contains(string(out), "LOAD ERROR"):
				r.Outcome = "skipped(does-not-compile)"
			case w.Expect == "" && code == 0:
				r.Outcome = "silent"
			case w.Expect == "" && code != 0:
				r.Outcome = "false-alarm"
			case code == 0:
				r.Outcome = "missed"
			case fired[w.Expect]:
				r.Outcome = "detected"
			default:
				r.Outcome = "wrong-rule"
			}
			res[i] = r
		}(i, w)
	}
	wg.Wait()
	return res
}

func runSelftest(prop, tier string) int {
	var ps []string
	if prop != "" {
		ps = []string{prop}
	} else {
		ps = sortedKeys(props)
	}
	bad := 0
	for _, p := range ps {
		rs := runWitnesses(p, tier)
		sort.SliceStable(rs, func(i, j int) bool { return rs[i].Name < rs[j].Name })
		for _, r := range rs {
			ok := r.Outcome == "detected" || r.Outcome == "silent"
			if !ok {
				bad++
			}
			fmt.Printf("%-4s %-70s expect=%-8s %-12s %v\n", p, r.Name, r.Expect, r.Outcome, r.Fired)
		}
	}
	if bad > 0 {
		fmt.Printf("selftest: %d witnesses not as expected\n", bad)
		return 1
	}
	fmt.Println("selftest: all witnesses as expected")
	return 0
}
