package main

import (
	"fmt"
	"go/types"
	"strings"

	"golang.org/x/tools/go/ssa"
)

// Error discipline (shared rule): on every success path of an entry point,
// every fallible call that was made has had its error established nil (the
// path branched on it), i.e. no error of the store / bank / codec layer is
// dropped.  Constructors of error values (Wrap, Errorf, New) are not calls
// that can fail.

func errIndexes(t types.Type) []int {
	isErr := func(t types.Type) bool { return types.TypeString(t, nil) == "error" }
	if t == nil {
		return nil
	}
	if tup, ok := t.(*types.Tuple); ok {
		var out []int
		for i := 0; i < tup.Len(); i++ {
			if isErr(tup.At(i).Type()) {
				out = append(out, i)
			}
		}
		return out
	}
	if isErr(t) {
		return []int{-1}
	}
	return nil
}

func isErrConstructor(name string) bool {
	return strings.Contains(name, ".Wrap") || strings.Contains(name, "Errorf") || name == "errors.New" || strings.HasSuffix(name, "status.Error") || strings.HasSuffix(name, "status.Errorf")
}

// errExempt: (enclosing function suffix, callee suffix) pairs that deliberately
// continue after an error, each with a reason.
var errExempt = []struct{ fn, callee, why string }{
	{"Keeper).GetValidator", "Map[K, V]).Get", "found-flag API: any error other than not-found is reported as found with the zero record (pre-existing behaviour, outside the listed properties)"},
	{"Keeper).GetValidatorByConsAddr", "Map[K, V]).Get", "found-flag API, as GetValidator"},
	{"HostValidatorStore).UpdateValidators", "Item[V]).Get", "not-found means no host set yet: the zero height is used"},
	{"l2connect.ValidateVoteExtensions", "ValidatorStore).GetPowerByConsAddr", "votes of validators outside the stored set are skipped by design (C15)"},
	{"l2connect.WritePrices", "OracleKeeper).GetPriceForCurrencyPair", "no stored price yet: first write (C15.R4)"},
	{"MsgServer).FinalizeTokenDeposit", "address.Codec).StringToBytes", "a malformed recipient becomes a refund, not an error (C07)"},
	{"FreeLaneMatchHandler).MatchHandler$1", "", "match handlers answer false on any error (C20.R3)"},
}

// exemptErr: the call sits in the exempt function or in a helper it (transitively) calls
// ON THIS PATH: an exemption names a behaviour ("a malformed recipient becomes a refund"),
// not the private function that currently contains the call.  frames = the functions whose
// activations enclose the call on the path (root first).
func exemptErr(frames []string, callee string) (string, bool) {
	for _, e := range errExempt {
		if !strings.Contains(callee, e.callee) {
			continue
		}
		for _, fr := range frames {
			if strings.HasSuffix(fr, e.fn) {
				return e.why, true
			}
		}
	}
	return "", false
}

// enclosingFrames: root function plus the inlined activations open at event i.
func enclosingFrames(root *ssa.Function, p *Path, i int) []string {
	frames := []string{fnShort(root)}
	for j := 0; j < i && j < len(p.Events); j++ {
		switch ev := &p.Events[j]; ev.Kind {
		case EvEnter:
			frames = append(frames, ev.Call.Name)
		case EvExit:
			if len(frames) > 1 {
				frames = frames[:len(frames)-1]
			}
		case EvCbBegin:
			if ev.Fun != nil {
				frames = append(frames, ev.Fun.Name)
			} else {
				frames = append(frames, "callback")
			}
		case EvCbEnd:
			if len(frames) > 1 {
				frames = frames[:len(frames)-1]
			}
		}
	}
	if i < len(p.Events) && p.Events[i].Fn != nil {
		frames = append(frames, fnShort(p.Events[i].Fn))
	}
	return frames
}

func errorDiscipline(c *Ctx, rule, label string, fn *ssa.Function, po PO) {
	o := c.Ob(rule, label+": no fallible call's error is dropped on a success path")
	exNotes := map[string]bool{}
	// functions without an error result (genesis export/import panic instead): success = returns
	res := fn.Signature.Results()
	noErrResult := res.Len() == 0 || types.TypeString(res.At(res.Len()-1).Type(), nil) != "error"
	for _, p := range c.Paths(fn, po) {
		o.Paths++
		o.Facts += p.NFacts()
		if p.Panic || (!noErrResult && !p.MayOK()) {
			continue
		}
		end := len(p.Events)
		// errors handed back to the iterator by a callback are propagated by Walk (A3)
		cbReturned := map[string]bool{}
		for i := range p.Events {
			if ev := &p.Events[i]; ev.Kind == EvCbEnd && ev.Res != nil {
				if ev.Res.Op == "tuple" {
					for _, a := range ev.Res.Args {
						cbReturned[a.String()] = true
					}
				} else {
					cbReturned[ev.Res.String()] = true
				}
			}
		}
		for i := range p.Events {
			ev := &p.Events[i]
			if ev.Kind != EvCall || ev.Call == nil || isErrConstructor(ev.Call.Name) || strings.HasPrefix(ev.Call.Name, "builtin.") {
				continue
			}
			idxs := errIndexes(ev.Call.Typ)
			if len(idxs) == 0 {
				continue
			}
			o.Sites++
			for _, ix := range idxs {
				atom := errNilAtom(ev.Call, ix)
				if p.factIs(end, atom, true) {
					continue
				}
				// classified not-found: err != nil && errors.Is(err, sentinel) handled with a default
				errT := ev.Call.String()
				if ix >= 0 {
					errT = fmt.Sprintf("%s.%d", errT, ix)
				}
				if cbReturned[errT] {
					continue
				}
				// (errors.Is(err, sentinel) == true already implies err != nil)
				if p.HasFact(end, func(a *Term, pol bool) bool {
					return pol && a.Op == "call" && a.Name == "errors.Is" && a.Args[0].String() == errT
				}) {
					continue
				}
				// returned as the path's own error (tail call)
				if len(p.Ret) == 0 {
					if why, ok := exemptErr(enclosingFrames(fn, p, i), ev.Call.Name); ok {
						exNotes[fnShort(ev.Fn)+" -> "+ev.Call.Name+": "+why] = true
						continue
					}
					o.Fail(c.evPos(ev), "the error of "+ev.Call.Name+" (called in "+fnShort(ev.Fn)+") is not checked on a path that goes on to return", c.Dump(p, -1))
					continue
				}
				last := p.Ret[len(p.Ret)-1]
				if ix == -1 && last.String() == ev.Call.String() || ix >= 0 && last.String() == fmt.Sprintf("%s.%d", ev.Call.String(), ix) {
					continue
				}
				if why, ok := exemptErr(enclosingFrames(fn, p, i), ev.Call.Name); ok {
					exNotes[fnShort(ev.Fn)+" -> "+ev.Call.Name+": "+why] = true
					continue
				}
				o.Fail(c.evPos(ev), "the error of "+ev.Call.Name+" (called in "+fnShort(ev.Fn)+") is not checked on a path that goes on to succeed", c.Dump(p, -1))
			}
		}
	}
	for n := range exNotes {
		o.Note("exempt: " + n)
	}
	if o.Sites == 0 {
		o.Fail(c.W.Pos(fn.Pos()), "no fallible call on any success path (anchor floor)", nil)
	}
}
