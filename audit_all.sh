#!/bin/sh
# Global sensitivity audit (exploration, not a check): 14 shards in parallel, merged into audit_global.jsonl.
# usage: ./audit_all.sh [outdir]   (default /tmp/audit_all)
cd "$(dirname "$0")" || exit 2
[ -x bin/opverify ] || ./setup.sh || exit 2
OUT="${1:-/tmp/audit_all}"; mkdir -p "$OUT"
unset GOFLAGS GOWORK; export GOPROXY=off GOSUMDB=off GOTOOLCHAIN=local
N=14
for k in $(seq 0 $((N-1))); do bin/opverify -audit-all -shard $k/$N -out "$OUT/shard$k.jsonl" 2>"$OUT/shard$k.err" & done
wait
cat "$OUT"/shard*.jsonl > "$OUT/audit_global.jsonl"
python3 - "$OUT/audit_global.jsonl" <<'PY'
import json,sys,collections
rows=[json.loads(l) for l in open(sys.argv[1])]
c=collections.Counter(r['outcome'] for r in rows); print(dict(c))
PY
