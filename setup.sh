#!/bin/sh
# Build the static checker offline from files on disk only.
set -e
cd "$(dirname "$0")/checker"
export GOFLAGS=-mod=mod GOWORK=off GOPROXY=off GOSUMDB=off GOTOOLCHAIN=local
mkdir -p ../bin ../evidence
go build -o ../bin/opverify .
